"""C09 - CCCC nuclear-data files read back exactly what was written; records are framed.

Theorems: lean/ArmiVerif/Props/C09.lean over lean/ArmiVerif/Model/Cccc.lean.
Tie (every run):
  * field-type sequences (int/long/float/double/string, lists, matrices) through the real
    BinaryRecordWriter/Reader and AsciiRecordWriter/Reader: bytes == Lean encoder byte for byte, values read ==
    values written == Lean decoder, leading == trailing == payload length;
  * for every CCCC format x {binary, ASCII}: generated containers and the shipped fixture files are written by the
    real Stream with RECORDING record classes substituted through the public ``Stream._fileModes`` table;
    (i) the (kind, value) trace replayed through the Lean encoder == the real file, byte for byte; the container's
        values (no record structure) written through the format's Lean SCHEMA (Schema.geodst, .dif3d, .labels, .pwdint,
        .rtflux, .rzflux, .fixsrc, .nhflux, .pmatrx, .dlayxs, .isotxs, .compxs: records, fields, counts and loop bounds
        computed from the header values) == the real file, byte for byte, binary and ASCII,
    (ii) the reader's trace == the writer's trace (readWrite() is an `RW` program on that input),
    (iii) the data read == the data written (reals to single precision where the format stores singles),
    (iv) writing what was read reproduces the file; fixtures are re-written byte-identically; frame counts hold on
    the real bytes;
  * getBlockBandwidth, _rwMatrix call order, ISOTXS band columns (general JJ/JBAND, up-scatter included), FORTRAN
    implicit typing vs the model;
  * excluded points (values wider than an ASCII field, strings outside their field) and header-announced records the
    streams mishandle are run against the real code and reported under specific finding keys.
"""
import contextlib
import io
import itertools
import os
import shutil
import struct

import numpy as np

from harness import common
from harness.common import Failure, lean_run

PROP_MODULES = ["ArmiVerif.Props.C09"]
PARTIAL = ("double->single rounding of rwFloat is a parameter (bit patterns are opaque in the binary model); the ASCII "
           "real writer AND reader are modelled exactly (format .16E, correctly rounded float()) and compared with the "
           "host Python; 'float(format(x)) == x' is not proved for all doubles - it is a conjunct of the decidable "
           "domain predicate asciiRealM.ok, evaluated per value; every format's readWrite() has a record "
           "schema in the model (Schema.* in Model/Cccc.lean: which records exist, their fields, every count and loop "
           "bound as a function of the header values) whose file is compared byte for byte with the real writer's on "
           "every container; that the real READER follows the same schema is what the reader-trace == writer-trace "
           "check establishes; how a container's attributes map onto the value sequence (group reversal of ATFLUX/"
           "NAFLUX, sparse-matrix flattening of COMPXS) is judged by the oracle only; DLAYXS's reader-side use of the "
           "record count (label length, trailing filler) enters the schema as values that are not in the file; "
           "branches that raise NotImplementedError are not in the schemas and generators stay inside what the "
           "readers accept: ISOTXS/GAMISO sub-blocking 1 (NSBLOK = 2 is finding isotxs-scatter-subblocking), Legendre "
           "blocks of order <= 1, PMATRX production-matrix orders <= 2 (3 is finding pmatrx-production-matrix-order-3), "
           "COMPXS without file-wide chi / delayed families (findings compxs-2d-record-*), LABELS without "
           "control-rod/burn-up records and RTFLUX NDIM >= 2 (NotImplemented in armi)")
ASSUMPTIONS = [
    "none for the full ASCII theorems (file_roundtrip_ascii, schema_roundtrip_ascii): format(x, '+.16E') and float(text) "
    "are both modelled (asciiRealField, parseFloatText) and compared with the host Python on every run; that a given "
    "real reads back is part of the decidable domain predicate asciiRealM.ok, evaluated by the driver for the values "
    "the real writer produced. The older *_partial theorems keep the hypothesis FloatParseSpec (measured: "
    "coverage.ascii_real_hypothesis)",
    "IEEE bit patterns: struct.pack('f'/'d') of the host Python is a parameter of the model (double -> single rounding)",
    "little-endian host (struct native byte order), as on every platform armi supports",
    "text-mode file objects deliver the characters written (newline translation is the identity on this host)",
]

FIX1 = "armi/nuclearDataIO/cccc/tests/fixtures"
FIX2 = "armi/nuclearDataIO/tests/fixtures"


# --------------------------------------------------------------------------- bit patterns
def fbits(x):
    return struct.unpack("<I", struct.pack("<f", x))[0]


def dbits(x):
    return struct.unpack("<Q", struct.pack("<d", x))[0]


def frombits32(n):
    return struct.unpack("<f", struct.pack("<I", n))[0]


def frombits64(n):
    return struct.unpack("<d", struct.pack("<Q", n))[0]


def hexs(b):
    return b.hex() if b else "-"


# --------------------------------------------------------------------------- recording record classes
class Trace:
    """(kind, value) per rw* call and per record open/close, as seen by the real record classes."""

    def __init__(self):
        self.ev = []
        self.accounting = []  # reader side: (byteCount when the record is closed, count the record opened with)

    def records(self):
        """[(fields, count)] where fields = [(kind, ...)]"""
        out, cur = [], None
        for e in self.ev:
            if e[0] == "open":
                cur = []
            elif e[0] == "close":
                out.append((cur, e[1]))
                cur = None
            else:
                if cur is None:
                    raise common.Infra("rw* call outside a record")
                cur.append(e)
        return out


def make_recording_classes(cccc, trace, ascii_=False):
    """Subclasses of the four real record classes that log every call. Built outside the repo."""
    log = trace.ev.append

    def fl(kind, val):
        # the value as the format stores it: single pattern for binary rwFloat, double pattern otherwise
        if ascii_ or kind == "d":
            return dbits(float(val))
        return fbits(val)

    class W:
        def open(self):
            log(("open",))
            super().open()

        def close(self):
            log(("close", int(self.numBytes)))
            super().close()

        def rwInt(self, val):
            r = super().rwInt(val)
            log(("i", int(val)))
            return r

        def rwLong(self, val):
            r = super().rwLong(val)
            log(("l", int(val)))
            return r

        def rwFloat(self, val):
            r = super().rwFloat(val)
            log(("f", fl("f", val)))
            return r

        def rwDouble(self, val):
            r = super().rwDouble(val)
            log(("d", fl("d", val)))
            return r

        def rwString(self, val, length):
            r = super().rwString(val, length)
            log(("s", int(length), str(val)))
            return r

    class R:
        _frame = False

        def open(self):
            self._frame = True
            try:
                super().open()
            finally:
                self._frame = False
            log(("open",))

        def close(self):
            n = self.numBytes
            if self._hasRecordBoundaries:
                trace.accounting.append((int(self.byteCount), int(n)))
            self._frame = True
            try:
                super().close()
            finally:
                self._frame = False
            log(("close", int(n)))

        def rwInt(self, val):
            r = super().rwInt(val)
            if not self._frame:
                log(("i", int(r)))
            return r

        def rwLong(self, val):
            r = super().rwLong(val)
            log(("l", int(r)))
            return r

        def rwFloat(self, val):
            r = super().rwFloat(val)
            if getattr(self, "_inDouble", False):
                return r
            log(("f", fl("f", r)))
            return r

        def rwDouble(self, val):
            # AsciiRecordReader.rwDouble delegates to rwFloat: log it once, as a double
            self._inDouble = True
            try:
                r = super().rwDouble(val)
            finally:
                self._inDouble = False
            log(("d", fl("d", r)))
            return r

        def rwString(self, val, length):
            r = super().rwString(val, length)
            log(("s", int(length), str(r)))
            return r

    class RecBW(W, cccc.BinaryRecordWriter):
        pass

    class RecBR(R, cccc.BinaryRecordReader):
        pass

    class RecAW(W, cccc.AsciiRecordWriter):
        pass

    class RecAR(R, cccc.AsciiRecordReader):
        pass

    return {"wb": RecBW, "rb": RecBR, "w": RecAW, "r": RecAR}


@contextlib.contextmanager
def recording(mode):
    """Substitute a recording class for `mode` in cccc.Stream._fileModes; yields the Trace."""
    from armi.nuclearDataIO.cccc import cccc

    tr = Trace()
    classes = make_recording_classes(cccc, tr, ascii_=mode in ("w", "r"))
    table = cccc.Stream._fileModes
    old = table[mode]
    table[mode] = classes[mode]
    try:
        yield tr
    finally:
        table[mode] = old


# --------------------------------------------------------------------------- trace -> Lean requests
def field_token(f):
    k = f[0]
    if k in ("i", "l", "f", "d"):
        return f"{k}{f[1]}"
    if k == "s":
        return f"s{f[1]}:{hexs(f[2].encode('utf-8'))}"
    raise common.Infra(f"unknown field {f}")


def record_request(fields, ascii_):
    return ("reca " if ascii_ else "recb ") + (",".join(field_token(f) for f in fields) or "-")


def model_bytes(traces_ascii, extra_requests=(), extra_out=None):
    """[(Trace, ascii?)] -> [bytes or None(reject)] : each trace replayed through the Lean encoder. `extra_requests`
    ride along in the same driver process (their responses are appended to `extra_out`)."""
    req, owner = [], []
    for n, (tr, asc) in enumerate(traces_ascii):
        for fields, _cnt in tr.records():
            req.append(record_request(fields, asc))
            owner.append(n)
    extra_requests = list(extra_requests)
    resp = lean_run("Cccc", req + extra_requests, timeout=900) if req or extra_requests else []
    if extra_out is not None:
        extra_out.extend(resp[len(req):])
    resp = resp[:len(req)]
    out = [[] for _ in traces_ascii]
    for o, r in zip(owner, resp):
        out[o].append(r)
    res = []
    for parts in out:
        if any(p in ("reject", "bad-op") or p.startswith("<") for p in parts):
            res.append(None)
        else:
            res.append(b"".join(bytes.fromhex(p) if p != "-" else b"" for p in parts))
    return res


def in_model_domain(tr, ascii_):
    """Is every traced value inside the domain on which (encoder) model = implementation is asserted?
    Only non-finite reals in ASCII mode (format gives INF/NAN) and non-ASCII text are outside: the model's fixed-width
    fields overflow exactly like Python's format does."""
    for e in tr.ev:
        if e[0] in ("f", "d") and ascii_:
            x = frombits64(e[1])
            if x != x or x in (float("inf"), float("-inf")):
                return False
        elif e[0] == "s":
            if any(ord(c) > 127 for c in e[2]):
                return False
    return True


def binary_frames(b):
    """[(lead, payload_len, trail)] of a binary file, or None when the framing is broken."""
    pos, out = 0, []
    while pos < len(b):
        if pos + 4 > len(b):
            return None
        (lead,) = struct.unpack("<i", b[pos:pos + 4])
        if lead < 0 or pos + 8 + lead > len(b):
            return None
        (trail,) = struct.unpack("<i", b[pos + 4 + lead:pos + 8 + lead])
        out.append((lead, trail))
        if trail != lead:
            return None
        pos += 8 + lead
    return out


# --------------------------------------------------------------------------- 1. field-type sequences in one record
def rand_int32(rng):
    c = rng.random()
    if c < 0.3:
        return rng.randint(-50, 50)
    if c < 0.5:
        return rng.choice([0, 1, -1, 2 ** 31 - 1, -2 ** 31, 255, 256, 65535, -65536, 999999999, -999999999])
    return rng.randint(-2 ** 31, 2 ** 31 - 1)


def rand_int64(rng):
    c = rng.random()
    if c < 0.3:
        return rng.randint(-50, 50)
    if c < 0.5:
        return rng.choice([2 ** 63 - 1, -2 ** 63, 2 ** 31, -2 ** 31 - 1, 123456789012, 2 ** 32])
    return rng.randint(-2 ** 63, 2 ** 63 - 1)


def rand_double(rng, wide=True):
    c = rng.random()
    if c < 0.25:
        return rng.choice([0.0, -0.0, 1.0, -1.0, 0.1, 1.5, 2.0 ** -20, 3.0e10, -2.5e-7, 1e22, 9.9999999999999995e22])
    if c < 0.5:
        return rng.randint(-4096, 4096) / 64.0
    e = rng.uniform(-30, 30) if not wide else rng.uniform(-90, 90)
    return rng.choice([-1, 1]) * rng.random() * 10.0 ** e


def rand_text(rng, maxlen):
    n = rng.randint(0, maxlen)
    alphabet = "ABCDEFGHIJKLMNOPQRSTUVWXYZ0123456789 _-.abcxyz"
    s = "".join(rng.choice(alphabet) for _ in range(n))
    return s.rstrip()


def rand_fields(rng, ascii_, maxn=12):
    """A random mix of int/long/float/double/string/list/matrix calls as (method, args) + flattened expectation."""
    calls = []
    kinds = ["int", "float", "double", "string", "list", "matrix"] + ([] if ascii_ else ["long", "long"])
    for _ in range(rng.randint(0, maxn)):
        k = rng.choice(kinds)
        if k == "int":
            v = rand_int32(rng)
            if ascii_:
                v = max(-999999999, min(999999999, v))
            calls.append(("rwInt", (v,)))
        elif k == "long":
            calls.append(("rwLong", (rand_int64(rng),)))
        elif k == "float":
            x = rand_double(rng, wide=False)
            calls.append(("rwFloat", (x,)))
        elif k == "double":
            calls.append(("rwDouble", (rand_double(rng),)))
        elif k == "string":
            ln = rng.randint(0, 12)
            calls.append(("rwString", (rand_text(rng, ln), ln)))
        elif k == "list":
            t = rng.choice(["int", "float", "double", "string"])
            n = rng.randint(1, 5)
            ln = rng.randint(1, 8)
            if t == "int":
                c = [max(-999999999, min(999999999, rand_int32(rng))) for _ in range(n)]
            elif t == "string":
                c = [rand_text(rng, ln) for _ in range(n)]
            else:
                c = [rand_double(rng, wide=False) for _ in range(n)]
            calls.append(("rwList", (c, t, n, ln)))
        else:
            nd = rng.randint(1, 3)
            shape = tuple(rng.randint(1, 3) for _ in range(nd))
            which = rng.choice(["rwMatrix", "rwDoubleMatrix", "rwIntMatrix"])
            if which == "rwIntMatrix":
                arr = np.array([rng.randint(-1000, 1000) for _ in range(int(np.prod(shape)))]).reshape(tuple(reversed(shape)))
            else:
                arr = np.array([rand_double(rng, wide=False) for _ in range(int(np.prod(shape)))]).reshape(tuple(reversed(shape)))
            calls.append((which, (arr,) + shape))
    return calls


def big_fields(rng, asc, n):
    """exactly n primitive fields of mixed type in one record"""
    calls = []
    for i in range(n):
        k = (i + rng.randint(0, 1)) % (4 if asc else 5)
        if k == 0:
            calls.append(("rwInt", (rng.randint(-99999, 99999),)))
        elif k == 1:
            calls.append(("rwDouble", (rng.randint(-4096, 4096) / 64.0,)))
        elif k == 2:
            calls.append(("rwFloat", (rng.randint(-4096, 4096) / 8.0,)))
        elif k == 3:
            calls.append(("rwString", (rand_text(rng, 3), 3)))
        else:
            calls.append(("rwLong", (rng.randint(-2 ** 40, 2 ** 40),)))
    return calls


def run_record_sequences(ctx):
    from armi.nuclearDataIO.cccc import cccc

    n_seq = ctx.pick(400, 10000)
    jobs = []  # (ascii, calls, file bytes, writer trace, reader trace, values ok?)
    # single records around and beyond io.DEFAULT_BUFFER_SIZE fields (BinaryRecordWriter.close writes in chunks)
    big = [(False, n) for n in (io.DEFAULT_BUFFER_SIZE - 1, io.DEFAULT_BUFFER_SIZE, io.DEFAULT_BUFFER_SIZE + 1,
                                2 * io.DEFAULT_BUFFER_SIZE + 1)] + [(True, io.DEFAULT_BUFFER_SIZE + 1)]
    if ctx.thorough:
        big += [(False, 3 * io.DEFAULT_BUFFER_SIZE), (False, 5 * io.DEFAULT_BUFFER_SIZE - 1), (True, 2 * io.DEFAULT_BUFFER_SIZE)]
    for s in range(n_seq + len(big)):
        asc = (s % 3 == 2)
        if s >= n_seq:
            asc, nbig = big[s - n_seq]
            calls = big_fields(ctx.rng, asc, nbig)
        else:
            calls = rand_fields(ctx.rng, asc)
        if s >= n_seq:
            ctx.crumb({"stream": "large single record", "ascii": asc, "nfields": len(calls)})
        trw, trr = Trace(), Trace()
        cw = make_recording_classes(cccc, trw, asc)
        cr = make_recording_classes(cccc, trr, asc)
        buf = io.StringIO() if asc else io.BytesIO()
        w = cw["w" if asc else "wb"](buf)
        case = {"ascii": asc, "nfields": len(calls),
                "calls": [(m, [a.tolist() if isinstance(a, np.ndarray) else a for a in args]) for m, args in calls[:40]]}
        try:
            with w:
                for m, args in calls:
                    args = tuple(a.copy() if isinstance(a, np.ndarray) else a for a in args)
                    getattr(w, m)(*args)
        except Exception as e:  # noqa
            ctx.fail("record-write-raises", "in-range fields can be written into a record", case, observed=repr(e)[:300])
            continue
        data = buf.getvalue()
        raw = data.encode("ascii") if asc else data
        # read back through the real reader with the same call sequence
        buf2 = io.StringIO(data) if asc else io.BytesIO(data)
        r = cr["r" if asc else "rb"](buf2)
        got = []
        try:
            with r:
                for m, args in calls:
                    if m in ("rwMatrix", "rwDoubleMatrix", "rwIntMatrix"):
                        got.append(getattr(r, m)(None, *args[1:]))
                    elif m == "rwList":
                        got.append(getattr(r, m)(None, *args[1:]))
                    elif m == "rwString":
                        got.append(r.rwString(None, args[1]))
                    else:
                        got.append(getattr(r, m)(None))
        except Exception as e:  # noqa
            ctx.fail("record-read-raises", "a record the writer produced can be read", case, observed=repr(e)[:300])
            jobs.append((asc, case, raw, trw))
            continue
        acc = accounting_errors(trr)
        if acc:
            ctx.fail("record-reader-byte-accounting-" + ("ascii" if asc else "binary"),
                     "when a record is closed the reader's byteCount equals the payload size the writer declared", case,
                     observed=[{"byteCount": bc, "declared": n} for _i, bc, n in acc[:3]])
        left = buf2.read()
        if left:
            ctx.fail("record-reader-leaves-bytes", "reading a record consumes exactly the bytes written", case, observed=len(left))
        # oracle: reader trace == writer trace (values at format precision)
        if trr.ev != trw.ev:
            d = next((i for i, (a, b) in enumerate(zip(trw.ev, trr.ev)) if a != b), min(len(trw.ev), len(trr.ev)))
            ctx.fail("record-readback-" + ("ascii" if asc else "binary"),
                     "every field of a record reads back as written", case,
                     observed=trr.ev[d:d + 2], expected=trw.ev[d:d + 2])
        # oracle: containers come back with their shape/order
        for (m, args), g in zip(calls, got):
            if m in ("rwMatrix", "rwDoubleMatrix", "rwIntMatrix"):
                exp = np.asarray(args[0], dtype=float)
                if m == "rwMatrix" and not asc:
                    exp = exp.astype(np.float32).astype(float)
                if g.shape != exp.shape or not np.array_equal(np.asarray(g, dtype=float), exp):
                    ctx.fail("matrix-readback", "a matrix reads back element for element (Fortran order)", case,
                             observed=np.asarray(g).tolist(), expected=exp.tolist())
        # oracle: framing on the real bytes
        if not asc:
            fr = binary_frames(raw)
            if fr is None or len(fr) != 1 or fr[0][0] != len(raw) - 8:
                ctx.fail("record-frame-count", "leading == trailing == payload byte length", case,
                         observed=[struct.unpack("<i", raw[:4])[0], struct.unpack("<i", raw[-4:])[0], len(raw) - 8])
        else:
            declared = sum({"i": 4, "f": 4, "d": 8}.get(e[0], 0) + (e[1] if e[0] == "s" else 0) for e in trw.ev)
            lead, trail = raw[:11], raw[-12:-1]
            if not (lead == trail == (" {:>+10}".format(declared)).encode() and raw.endswith(b"\n")):
                ctx.fail("ascii-frame-count", "ASCII record carries the declared byte count before and after", case,
                         observed=[lead.decode(), trail.decode()], expected=declared)
        jobs.append((asc, case, raw, trw))
        ctx.case(("seq", asc, tuple(e[0] for e in trw.ev)), nontrivial=len(trw.ev) > 2,
                 sample={"record": case, "bytes": raw.hex()[:120]} if s in (0, 2) else None)
        ctx.count("field-sequence records " + ("ascii" if asc else "binary"))
        for e in trw.ev:
            if e[0] not in ("open", "close"):
                ctx.count("field kind " + e[0])
    # correspondence: Lean encoder == real bytes; Lean decoder == real reader's values
    mb = model_bytes([(trw, asc) for asc, _c, _raw, trw in jobs])
    dec_req, dec_exp, dec_case = [], [], []
    for (asc, case, raw, trw), m in zip(jobs, mb):
        ctx.traces += 1
        if m != raw:
            ctx.disagree("Cccc.File.write vs real record writer", case, None if m is None else m.hex()[:400], raw.hex()[:400])
        fields = trw.records()[0][0]
        if asc and (not in_model_domain(trw, asc) or (len(fields) > ctx.pick(64, 10 ** 6) and any(f[0] in ("f", "d") for f in fields))):
            continue  # (decoding thousands of real fields of one record through the model's float() is left to the thorough tier)
        kinds = ",".join(f[0] if f[0] != "s" else f"s{f[1]}" for f in fields) or "-"
        dec_req.append(("deca " if asc else "decb ") + kinds + " " + hexs(raw))
        vals = ",".join(("s" + hexs(f[2].encode())) if f[0] == "s" else str(f[1]) for f in fields)
        dec_exp.append(f"{trw.records()[0][1]};{vals};0")
        dec_case.append(case)
    got = lean_run("Cccc", dec_req)
    ctx.compare("Cccc.File.read vs real record reader", dec_case, got, dec_exp)
    ctx.evaluations += len(dec_req)


# --------------------------------------------------------------------------- excluded points (outside every codec's domain)
def run_excluded_points(ctx):
    """Values the writer accepts but the fixed-width ASCII fields cannot hold (F24), trailing blanks, over-long
    strings. Judged by the implementation-side oracle only."""
    from armi.nuclearDataIO.cccc import cccc

    def ascii_roundtrip(calls):
        buf = io.StringIO()
        w = cccc.AsciiRecordWriter(buf)
        with w:
            for m, args in calls:
                getattr(w, m)(*args)
        r = cccc.AsciiRecordReader(io.StringIO(buf.getvalue()))
        out = []
        try:
            with r:
                for m, args in calls:
                    out.append(getattr(r, m)(None, *args[1:]))
        except Exception as e:  # noqa
            return "raises " + type(e).__name__, buf.getvalue()
        return out, buf.getvalue()

    # ints of 10 digits: the 11-column field overflows
    for v in (1000000000, 2 ** 31 - 1, -1000000000, -2 ** 31):
        calls = [("rwInt", (v,)), ("rwInt", (7,))]
        got, text = ascii_roundtrip(calls)
        ctx.count("excluded: ascii int >= 1e9")
        if got != [v, 7]:
            ctx.fail("ascii-int-field-overflow", "an int the binary format holds reads back from the ASCII format",
                     {"calls": calls}, observed=str(got), expected=[v, 7], note=text[:60])
    # reals with a 3-digit exponent: the 24-column field overflows
    for x in (1.5e-100, -2.25e100, 1e300, 5e-324):
        calls = [("rwDouble", (x,)), ("rwDouble", (1.0,))]
        got, text = ascii_roundtrip(calls)
        ctx.count("excluded: ascii real with 3-digit exponent")
        if got != [x, 1.0]:
            ctx.fail("ascii-float-field-overflow", "a double reads back from the ASCII format",
                     {"calls": calls}, observed=str(got), expected=[x, 1.0], note=text[:80])
    # in-range values must survive (a different ASCII failure is NOT covered by the finding keys above)
    for v in (999999999, -999999999, 0):
        got, _ = ascii_roundtrip([("rwInt", (v,)), ("rwInt", (7,))])
        if got != [v, 7]:
            ctx.fail("ascii-int-roundtrip", "9-digit ints read back from the ASCII format", {"v": v}, observed=str(got))
    for x in (9.999999999999998e99, 2e-99, -1.2345678901234567e-50, 0.1):
        got, _ = ascii_roundtrip([("rwDouble", (x,)), ("rwFloat", (1.0,))])
        if got != [x, 1.0]:
            ctx.fail("ascii-float-roundtrip", "doubles with 2-digit exponents read back exactly from the ASCII format",
                     {"x": x}, observed=str(got))
    # strings: trailing blanks are not data in a blank-padded field; longer text is cut to the field
    for val, ln in (("AB ", 6), ("TOOLONGNAME", 8)):
        buf = io.BytesIO()
        w = cccc.BinaryRecordWriter(buf)
        with w:
            w.rwString(val, ln)
        raw = buf.getvalue()
        fr = binary_frames(raw)
        ctx.count("excluded: string outside its field")
        if fr is None or fr[0][0] != ln or len(raw) != ln + 8:
            ctx.fail("record-frame-count", "leading == trailing == payload byte length", {"val": val, "len": ln},
                     observed=[len(raw), fr])


# --------------------------------------------------------------------------- 2. arithmetic helpers vs the model
def run_helpers(ctx):
    from armi.nuclearDataIO.cccc import cccc

    # getBlockBandwidth: exhaustive small grid (incl. zero / negative arguments)
    N = ctx.pick(24, 60)
    req, impl, cases = [], [], []
    for nintj in range(-2, N + 1):
        for nblok in range(-2, N + 2):
            ms = range(0, nblok + 2) if nblok > 0 else range(0, 3)
            for m in ms:
                try:
                    a, b = cccc.getBlockBandwidth(m, nintj, nblok)
                    s = f"({a},{b})"
                except ZeroDivisionError:
                    s = "reject"
                req.append(f"bw {m} {nintj} {nblok}"); impl.append(s); cases.append(("bw", m, nintj, nblok))
            if nintj >= 1 and nblok >= 1:
                # oracle: blocks 1..nblok tile 0..nintj-1 contiguously, in order
                cover = []
                for m in range(1, nblok + 1):
                    a, b = cccc.getBlockBandwidth(m, nintj, nblok)
                    cover += list(range(a, b + 1))
                if cover != list(range(nintj)):
                    ctx.fail("bandwidth-partition", "blocks 1..nblok tile 0..nintj-1 contiguously",
                             {"nintj": nintj, "nblok": nblok}, observed=cover[:40])
                ctx.case(("bwpart", nintj, nblok))
    for _ in range(ctx.pick(300, 3000)):
        nintj, nblok = ctx.rng.randint(1, 10 ** 6), ctx.rng.randint(1, 10 ** 4)
        m = ctx.rng.randint(1, nblok)
        a, b = cccc.getBlockBandwidth(m, nintj, nblok)
        req.append(f"bw {m} {nintj} {nblok}"); impl.append(f"({a},{b})"); cases.append(("bw", m, nintj, nblok))
    ctx.count("getBlockBandwidth evaluations", len(req))

    # _rwMatrix: order in which elements are visited
    shapes = [s for nd in (1, 2, 3) for s in itertools.product(range(0, 4), repeat=nd)] + [(2, 3, 2, 2), (5, 1, 4), (1, 7), (33, 4)]
    for _ in range(ctx.pick(20, 200)):
        shapes.append(tuple(ctx.rng.randint(1, 6) for _ in range(ctx.rng.randint(1, 4))))
    for shape in shapes:
        fshape = tuple(reversed(shape))
        size = int(np.prod(fshape))
        if size == 0:
            continue  # contents.size == 0 means "reading": np.empty is substituted
        contents = np.arange(size, dtype=float).reshape(fshape)
        seen = []
        try:
            out = cccc.IORecord._rwMatrix(contents.copy(), lambda v: (seen.append(int(v)), v)[1], *shape)
        except Exception as e:  # noqa
            ctx.fail("matrix-fortran-order", "_rwMatrix visits every element once in column-major order",
                     {"shape": shape}, observed=repr(e)[:200])
            continue
        req.append("matrix [" + ",".join(map(str, shape)) + "]")
        impl.append("[" + ",".join(map(str, seen)) + "]")
        cases.append(("matrix", shape))
        # oracle: every element exactly once, and the stream is the Fortran (column-major) flattening
        if sorted(seen) != list(range(size)) or seen != [int(v) for v in contents.flatten(order="F")] \
                or not np.array_equal(out, contents):
            ctx.fail("matrix-fortran-order", "_rwMatrix visits every element once in column-major order",
                     {"shape": shape}, observed=seen[:40])
        ctx.case(("matrix", shape))
    ctx.count("_rwMatrix shapes", len(shapes))

    # FORTRAN implicit typing
    class Probe(cccc.IORecord):
        def rwInt(self, val):
            return ("i", val)

        def rwFloat(self, val):
            return ("f", val)

    keys = [a + "x" for a in "abcdefghijklmnopqrstuvwxyzABCDEFGHIJKLMNOPQRSTUVWXYZ"]
    res = Probe(None).rwImplicitlyTypedMap(keys, {k: 1 for k in keys})
    for k in keys:
        req.append("implicit " + k.encode().hex()); impl.append("T" if res[k][0] == "i" else "F"); cases.append(("implicit", k))

    # compxs._flattenScatteringVector (writer side of a COMPXS scatter column) vs Cccc.bandWrite: the column band
    # group-ndn .. group+nup, reversed  ==  bandWrite col (jup := group+nup+1) (jband := nup+1+ndn)
    from scipy import sparse as _sp

    from armi.nuclearDataIO.cccc import compxs as _compxs
    from armi.nuclearDataIO.cccc import isotxs as _isotxs
    from armi.nuclearDataIO.cccc import nhflux as _nhflux
    from armi.nuclearDataIO.cccc import rtflux as _rtflux

    # (private helpers: when a rewrite of the package has removed one, its function-level tie is skipped - the
    # end-to-end streams still cover the behaviour)
    flatten = getattr(_compxs, "_flattenScatteringVector", None)
    if flatten is None:
        ctx.count("function-level tie skipped: compxs._flattenScatteringVector not present")
    for ng in range(1, ctx.pick(7, 10)) if flatten else ():
        col = _sp.csc_matrix(np.arange(ng, dtype=float).reshape((ng, 1)) + 1.0)
        for group in range(ng):
            for ndn in range(0, group + 1):
                for nup in range(0, ng - group):
                    got = flatten(col, group, nup, ndn)
                    req.append(f"bandw {ng} {group + nup + 1} {nup + 1 + ndn}")
                    impl.append("[" + ",".join(str(int(x) - 1) for x in got) + "]")
                    cases.append(("compxs-flatten", ng, group, nup, ndn))
                    # reader side: the indices it pairs the values with (inline in _rwScatteringMatrix)
                    req.append(f"band {group + nup + 1} {nup + 1 + ndn}")
                    impl.append("[" + ",".join(map(str, reversed(range(group - ndn, group + nup + 1)))) + "]")
                    cases.append(("compxs-indices", ng, group, nup, ndn))
    # adjoint files: container group index of file position g (ATFLUX, NAFLUX) vs Cccc.revGroup; forward files: identity
    for ng in list(range(0, 8)) + [33, 230]:
        at = _rtflux.AtfluxStream(_rtflux.RtfluxData(), "unused", "rb")
        at._metadata["NGROUP"] = ng
        na = _nhflux.NafluxStream(_nhflux.NHFLUX(), "unused", "rb")
        na._metadata["ngroup"] = ng
        for g in sorted(set(list(range(min(ng, 6))) + [max(ng - 1, 0)])):
            for obj, meth in ((at, "getEnergyGroupIndex"), (na, "_getEnergyGroupIndex")):
                if not hasattr(obj, meth):
                    ctx.count(f"function-level tie skipped: {meth} not present")
                    continue
                req.append(f"revg {ng} {g}"); impl.append(str(getattr(obj, meth)(g))); cases.append((meth, ng, g))
    # ISOTXS bookkeeping: records per nuclide and the record offsets written into the 2D record
    import random as _random

    have = all(hasattr(_isotxs.IsotxsIO, m) for m in ("_computeNumIsotxsRecords", "_computeNuclideRecordOffset"))
    if not have:
        ctx.count("function-level tie skipped: IsotxsIO._computeNuclideRecordOffset not present")
    for t in range(ctx.pick(6, 40)) if have else ():
        lib = gen_isotxs(_random.Random(ctx.rng.getrandbits(32)), False, t)
        io_ = _isotxs.IsotxsIO("unused", lib, "wb", lambda k_: None)
        counts = []
        for nuc in lib.nuclides:
            nmd = nuc.isotxsMetadata
            n_ = io_._computeNumIsotxsRecords(nuc)
            counts.append(n_)
            req.append(f"nrec {int(nmd['chiFlag'])} [" + ",".join(str(int(o)) for o in nmd["ords"]) + "]")
            impl.append(str(n_)); cases.append(("isotxs-num-records", t, nuc.nucLabel))
        req.append("offs [" + ",".join(map(str, counts)) + "]")
        impl.append("[" + ",".join(str(int(x)) for x in io_._computeNuclideRecordOffset()) + "]")
        cases.append(("isotxs-record-offsets", t, tuple(counts)))
    ctx.count("getBlockBandwidth / _rwMatrix / implicit typing / COMPXS column band / group reversal / ISOTXS record "
              "offsets: function-level evaluations", len(req))

    # the accepted domain of the ASCII integer field (asciiInt.ok, decidable) vs "the real writer's text is 11 wide"
    probe = [0, 1, -1, 999999999, -999999999, 1000000000, -1000000000, 999999998, 10 ** 10, -10 ** 12, 2 ** 31 - 1, -2 ** 31]
    probe += [ctx.rng.randint(-2 * 10 ** 9, 2 * 10 ** 9) for _ in range(ctx.pick(100, 1000))]
    probe += [s_ * (10 ** 9 + d) for s_ in (1, -1) for d in range(-3, 4)]
    for v_ in probe:
        buf = io.StringIO()
        with cccc.AsciiRecordWriter(buf) as w:
            w.rwInt(v_)
        # the record is: count field (11), the integer's field, count field (11), newline
        req.append(f"adom i {v_}"); impl.append("T" if len(buf.getvalue()) - 23 == 11 else "F")
        cases.append(("adom-int", v_))

    model = lean_run("Cccc", req)
    ctx.compare("Model/Cccc.lean helpers vs cccc.py", cases, model, impl)
    ctx.evaluations += len(req)


# --------------------------------------------------------------------------- 3. containers: canonical form for equality
_SKIP_ATTRS = {"container", "parent", "_base", "source", "fileNames", "_lib", "_scatterWeights", "xsId", "containerKey"}


def canon(o, depth=0):
    """Nested plain-Python form of a data container; reals at single precision (the coarsest any format stores)."""
    import scipy.sparse as sp

    if depth > 12:
        return "<deep>"
    if isinstance(o, (str, np.str_)):
        return str(o).rstrip()
    if o is None or isinstance(o, bool):
        return o
    if isinstance(o, (int, np.integer)):
        return int(o)
    if isinstance(o, (float, np.floating)):
        x = float(o)
        return float(np.float32(x)) if abs(x) < 3e38 else x
    if isinstance(o, (bytes, np.bytes_)):
        return o.decode()
    if sp.issparse(o):
        return canon(o.toarray(), depth + 1)
    if isinstance(o, np.ndarray):
        if o.size == 0:
            return []
        return [canon(v, depth + 1) for v in o.tolist()] if o.ndim > 0 else canon(o.item(), depth + 1)
    if isinstance(o, dict):
        return {str(k): canon(v, depth + 1) for k, v in sorted(o.items(), key=lambda kv: str(kv[0]))
                if str(k) not in _SKIP_ATTRS}
    if isinstance(o, (list, tuple)):
        return [canon(v, depth + 1) for v in o]
    mod = type(o).__module__ or ""
    if mod.startswith("armi.nuclearDataIO") or mod.startswith("harness"):
        d = {}
        if hasattr(o, "_data") and isinstance(getattr(o, "_data"), dict):
            d["_data"] = canon(o._data, depth + 1)
        for k, v in vars(o).items():
            if k in _SKIP_ATTRS or k == "_data" or callable(v):
                continue
            d[k] = canon(v, depth + 1)
        if isinstance(o, dict):
            d["<items>"] = {str(getattr(k, "name", k)): canon(v, depth + 1) for k, v in o.items()}
        return d
    return "<" + type(o).__name__ + ">"


def changed_by_writer(before, after, path=""):
    """first place where a value the container held before writing differs afterwards; slots that were empty
    (None / [] / {}) may be filled in by the writer (it stores defaults and empty arrays there)"""
    if before is None or before == [] or before == {}:
        return None
    if isinstance(before, dict) and isinstance(after, dict):
        for k in before:
            if k not in after:
                return path + "/" + k, before[k], "<absent>"
            d = changed_by_writer(before[k], after[k], path + "/" + k)
            if d:
                return d
        return None
    if isinstance(before, list) and isinstance(after, list) and len(before) == len(after):
        for i, (x, y) in enumerate(zip(before, after)):
            d = changed_by_writer(x, y, f"{path}[{i}]")
            if d:
                return d
        return None
    return None if before == after else (path, before, after)


# slots a reader fills with defaults when the record does not hold them (isotxs._rw5DRecord: micros.getDefaultXs, or the
# file-wide chi for a fissile nuclide without its own); everywhere else an empty slot must come back empty
_DEFAULT_FILLED = {"fission", "neutronsPerFission", "chi", "nalph", "np", "n2n", "nd", "nt", "strpd"}


def _is_empty(v):
    return v is None or v == [] or v == {}


def _all_zero(v):
    if isinstance(v, list):
        return all(_all_zero(x) for x in v)
    return isinstance(v, (int, float)) and v == 0


def first_diff(a, b, path="", defaults_ok=False):
    """first difference between two canonical forms; with defaults_ok an empty slot of `a` may come back as the
    reader's default (zeros) in the slots named in _DEFAULT_FILLED"""
    if defaults_ok and _is_empty(a) and not _is_empty(b):
        last = path.rsplit("/", 1)[-1]
        parent = path.rsplit("/", 2)[-2] if path.count("/") >= 2 else ""
        if parent in ("micros", "gammaXS") and last in _DEFAULT_FILLED and (last == "chi" or _all_zero(b)):
            return None
        return path, a, b
    if type(a) != type(b) and not (isinstance(a, (int, float)) and isinstance(b, (int, float))):
        return path, a, b
    if isinstance(a, dict):
        for k in sorted(set(a) | set(b)):
            if k not in a or k not in b:
                return path + "/" + k, a.get(k, "<absent>"), b.get(k, "<absent>")
            d = first_diff(a[k], b[k], path + "/" + k, defaults_ok)
            if d:
                return d
        return None
    if isinstance(a, list):
        if len(a) != len(b):
            return path + "/len", len(a), len(b)
        for i, (x, y) in enumerate(zip(a, b)):
            d = first_diff(x, y, f"{path}[{i}]", defaults_ok)
            if d:
                return d
        return None
    return None if a == b else (path, a, b)


# --------------------------------------------------------------------------- 4. container generators
def gi(rng, asc):
    """a free (dummy) integer field"""
    if asc:
        return rng.choice([0, 1, -1, 999999999, -999999999, rng.randint(-10 ** 6, 10 ** 6)])
    return rand_int32(rng)


def gf(rng):
    return rand_double(rng, wide=False)


def garr(rng, shape, dtype=float):
    n = int(np.prod(shape))
    return np.array([gf(rng) for _ in range(n)], dtype=dtype).reshape(shape)


def giarr(rng, shape, lo=-500, hi=500, dtype=int):
    n = int(np.prod(shape))
    return np.array([rng.randint(lo, hi) for _ in range(n)], dtype=dtype).reshape(shape)


def valid_nblok(rng, n, atleast=1):
    """a block count whose blocks all have non-negative width (what a code writing the file would choose)"""
    for _ in range(20):
        nb = rng.randint(min(atleast, max(1, n)), max(1, n))
        x = (n - 1) // nb + 1
        if (nb - 1) * x <= n:
            return nb
    return 1


def gen_geodst(rng, asc, idx):
    from armi.nuclearDataIO.cccc import geodst

    d = geodst.GeodstData()
    md = d.metadata
    md["label"] = rand_text(rng, 28)
    # both ends of every geometry-type range the readers dispatch on come first, so that the quick tier (6 containers) visits them
    cyc = [0, 11, 1, 6, 12, 3, 18, 10, 2, 7, 9, 14, 17, 8, 13, 15, 16]
    igom = cyc[idx % len(cyc)] if idx < len(cyc) else rng.choice([0, 1, 2, 3, 6, 10, 14, 18])
    nrass = [0, 1, 2][(idx // 2) % 3]
    nci, ncj, nck = rng.randint(1, 4), rng.randint(1, 3), rng.randint(1, 3)
    ni, nj, nk = nci + rng.randint(0, 2), ncj + rng.randint(0, 2), nck + rng.randint(0, 2)
    if idx % 3 == 0:
        # per-dimension counts pairwise distinct (coarse and fine): a bound taken from the wrong dimension shows
        nci, ncj, nck = rng.sample([1, 2, 3, 4], 3)
        ni, nj, nk = (n + d for n, d in zip((nci, ncj, nck), rng.sample([4, 5, 6], 3)))
    for k in geodst.FILE_SPEC_1D_KEYS:
        md[k] = gi(rng, asc)
    if nrass == 1:
        ni, nj, nk = max(ni, nci + 1), max(nj, ncj + rng.randint(0, 1)), max(nk, nck + rng.randint(1, 3))
    md["IGOM"], md["NRASS"] = igom, nrass
    md["NCINTI"], md["NCINTJ"], md["NCINTK"] = nci, ncj, nck
    md["NINTI"], md["NINTJ"], md["NINTK"] = ni, nj, nk
    md["NZONE"], md["NREG"] = rng.randint(0, 4), rng.randint(0, 5)
    md["NBS"], md["NBCS"], md["NIBCS"], md["NZWBB"] = rng.randint(0, 3), rng.randint(0, 3), rng.randint(0, 2), rng.randint(0, 2)
    if 1 <= igom <= 3:
        d.xmesh, d.iintervals = garr(rng, nci + 1), giarr(rng, nci, 1, 9)
    if 6 <= igom <= 11 or igom >= 12:
        d.xmesh, d.ymesh = garr(rng, nci + 1), garr(rng, ncj + 1)
        d.iintervals, d.jintervals = giarr(rng, nci, 1, 9), giarr(rng, ncj, 1, 9)
    if igom >= 12:
        d.zmesh, d.kintervals = garr(rng, nck + 1), giarr(rng, nck, 1, 9)
    if igom > 0 or md["NBS"] > 0:
        d.regionVolumes = garr(rng, md["NREG"])
        d.bucklings = garr(rng, md["NBS"])
        d.boundaryConstants = garr(rng, md["NBCS"])
        d.internalBlackBoundaryConstants = garr(rng, md["NIBCS"])
        d.zonesWithBlackAbs = giarr(rng, md["NZWBB"], 0, 9)
        d.zoneClassifications = giarr(rng, md["NZONE"], 0, 9)
        d.regionZoneNumber = giarr(rng, md["NREG"], 0, 9)
    if igom > 0 and nrass == 0:
        d.coarseMeshRegions = giarr(rng, (nci, ncj, nck), 0, 30000, np.int16)
    if igom > 0 and nrass == 1:
        d.fineMeshRegions = giarr(rng, (ni, nj, nk), 0, 30000, np.int16)
    return d


def gen_dif3d(rng, asc, idx):
    from armi.nuclearDataIO.cccc import dif3d

    d = dif3d.Dif3dData()
    md = d.metadata
    for k in ("HNAME", "HUSE1", "HUSE2"):
        md[k] = rand_text(rng, 8)
    md["VERSION"] = gi(rng, asc)
    for i in range(dif3d.TITLE_RANGE):
        md[f"TITLE{i}"] = rand_text(rng, 8)
    for k in ("MAXSIZ", "MAXBLK", "IPRINT"):
        md[k] = gi(rng, asc)
    for k in dif3d.FILE_SPEC_2D_PARAMS:
        d.twoD[k] = gi(rng, asc)
    numorp = [0, 3, 0, 1, 2, 0, 4, 1][idx % 8] if idx < 8 else rng.randint(0, 5)
    ncmrzs = [0, 2, 2, 1, 3, 2, 3, 4][idx % 8] if idx < 8 else rng.randint(0, 4)
    d.twoD["NUMORP"], d.twoD["NCMRZS"] = numorp, ncmrzs
    for k in dif3d.FILE_SPEC_3D_PARAMS:
        d.threeD[k] = gf(rng)
    if numorp:
        d.fourD = {f"OMEGA{e}": gf(rng) for e in range(1, numorp + 1)}
    if ncmrzs:
        # the caller's dict order is not the record's field order: grouped (as the reader builds it), region by
        # region, reversed, or arbitrary
        z = {f"ZCMRC{e}": gf(rng) for e in range(1, ncmrzs + 1)}
        n = {f"NZINTS{e}": rng.randint(1, 40) for e in range(1, ncmrzs + 1)}
        style = ["grouped", "by-region", "reversed", "ints-first"][idx % 4] if idx < 8 else rng.choice(
            ["grouped", "by-region", "reversed", "ints-first", "shuffled"])
        if style == "grouped":
            items = list(z.items()) + list(n.items())
        elif style == "by-region":
            items = [kv for e in range(1, ncmrzs + 1) for kv in ((f"ZCMRC{e}", z[f"ZCMRC{e}"]), (f"NZINTS{e}", n[f"NZINTS{e}"]))]
        elif style == "reversed":
            items = list(reversed(list(z.items()) + list(n.items())))
        elif style == "ints-first":
            items = list(n.items()) + list(z.items())
        else:
            items = list(z.items()) + list(n.items())
            rng.shuffle(items)
        d.fiveD = dict(items)
        if numorp and style != "grouped":
            d.fourD = dict(reversed(list(d.fourD.items())))
    return d


def gen_nhflux(rng, asc, idx, variant=False):
    from armi.nuclearDataIO.cccc import nhflux

    d = nhflux.NHFLUX(variant=variant, numDataSetsToRead=[1, 1, 2, 1, 3, 1][idx % 6] if idx < 6 else rng.choice([1, 1, 2]))
    md = d.metadata
    md["label"] = rand_text(rng, 28)
    nA, nSurf, ng, nz = rng.randint(1, 4), rng.choice([6, 4, 3]), rng.randint(1, 3), rng.randint(1, 3)
    nMom, nscoef, nExt = rng.randint(1, 3), rng.randint(1, 2 if not variant else 3), rng.randint(0, 4)
    keys = list(nhflux.FILE_SPEC_1D_KEYS)
    keys += list(nhflux.FILE_SPEC_1D_KEYS_VARIANT11) + [f"IDUM{e:>02}" for e in range(1, 7)] if variant else \
        [f"IDUM{e:>02}" for e in range(1, 12)]
    for k in keys:
        md[k] = gi(rng, asc) if k[0].upper() in "IJKLMN" else gf(rng)
    md["ngroup"], md["nintk"], md["nSurf"], md["nMom"], md["nintxy"], md["nscoef"] = ng, nz, nSurf, nMom, nA, nscoef
    md["npcxy"] = nA * nSurf + nExt
    nMoms = 0
    iw = None
    if variant:
        nMoms = [0, 2, 1][idx % 3]
        iw = [0, 1, 0, 0][idx % 4]
        md["nMoms"], md["iwnhfl"] = nMoms, iw
        md["npcbdy"] = rng.randint(0, 4)
        md["npcsym"], md["npcsec"] = rng.randint(0, 2), rng.randint(0, 2)
        n = md["npcsym"] + md["npcsec"]
        d.outgoingPCSymSecPointers = giarr(rng, n, 0, 99)
        d.ingoingPCSymSecPointers = giarr(rng, n, 0, 99)
    nOuter = md["npcbdy"] if variant else nExt
    d.incomingPointersToAllAssemblies = giarr(rng, (nSurf, nA), 0, 99)
    d.externalCurrentPointers = giarr(rng, nOuter, 0, 99)
    d.geodstCoordMap = giarr(rng, nA, 0, 99)
    d.fluxMomentsAll = garr(rng, (nA, nz, nMom + nMoms, ng))
    if iw != 1:
        d.partialCurrentsHexAll = garr(rng, (nA, nz, nSurf, ng, nscoef))
        d.partialCurrentsHex_extAll = garr(rng, (nExt, nz, ng, nscoef))
        d.partialCurrentsZAll = garr(rng, (nA, nz + 1, 2, ng, nscoef))
    return d


def gen_labels(rng, asc, idx):
    from armi.nuclearDataIO.cccc import labels

    d = labels.LabelsData()
    md = d.metadata
    for k in ("hname", "huse", "huse2"):
        md[k] = rand_text(rng, 8)
    md["version"] = gi(rng, asc)
    for k in labels.FILE_SPEC_1D_KEYS:
        md[k] = gi(rng, asc)
    for k in ("numControlRodBanks", "numBurnupDependentIsotopes", "maxBurnupDependentGroups", "maxBurnupPolynomialOrder"):
        md[k] = rng.choice([0, 0, -1])
    md["dummy"] = [gi(rng, asc), gi(rng, asc)]
    nz, nr, na, nra = rng.randint(0, 4), rng.randint(0, 4), rng.randint(0, 3), rng.randint(0, 3)
    h1, h2 = [(0, 0), (2, 0), (0, 3), (1, 2)][idx % 4]
    ns = [0, 1, 2, 4][(idx // 2) % 4]
    nal = [0, 2][(idx // 3) % 2]
    md["numZones"], md["numRegions"], md["numAreas"], md["numRegionAreaAssignments"] = nz, nr, na, nra
    md["numHalfHeightsDirection1"], md["numHalfHeightsDirection2"] = h1, h2
    md["numNuclideSets"], md["numZoneAliases"] = ns, nal
    lab = lambda n: [rand_text(rng, 8) for _ in range(n)]  # noqa
    d.zoneLabels, d.regionLabels, d.areaLabels, d.regionAreaAssignments = lab(nz), lab(nr), lab(na), lab(nra)
    if h1 > 0 or h2 > 0:
        d.halfHeightsDirection1, d.extrapolationDistance1 = garr(rng, h1), garr(rng, h1)
        d.halfHeightsDirection2, d.extrapolationDistance2 = garr(rng, h2), garr(rng, h2)
    if ns > 1:
        d.nuclideSetLabels = lab(ns)
    if nal > 0:
        d.aliasZoneLabels = lab(nal)
    return d


def gen_pwdint(rng, asc, idx):
    from armi.nuclearDataIO.cccc import pwdint

    d = pwdint.PwdintData()
    md = d.metadata
    md["hname"], md["huse"], md["huse2"] = rand_text(rng, 8), rand_text(rng, 6), rand_text(rng, 6)
    md["version"], md["mult"] = gi(rng, asc), gi(rng, asc)
    for k in pwdint.FILE_SPEC_1D_KEYS:
        md[k] = gi(rng, asc) if k[0] in "IJKLMN" else gf(rng)
    ni, nj, nk = rng.randint(1, 4), rng.randint(1 + 2 * (idx % 2), 7), rng.randint(1, 3)
    md["NINTI"], md["NINTJ"], md["NINTK"], md["NBLOK"] = ni, nj, nk, valid_nblok(rng, nj, 1 + idx % 2)
    d.powerDensity = garr(rng, (ni, nj, nk)).astype(np.float32)
    return d


def gen_rtflux(rng, asc, idx):
    from armi.nuclearDataIO.cccc import rtflux

    d = rtflux.RtfluxData()
    md = d.metadata
    md["label"] = rand_text(rng, 28)
    for k in rtflux.FILE_SPEC_1D_KEYS:
        md[k] = gi(rng, asc) if k[0] in "IJKLMN" else gf(rng)
    ni, nj, nk, ng = rng.randint(1, 3), rng.randint(1, 7), rng.randint(1, 3), rng.randint(1, 3)
    md["NDIM"] = rng.choice([2, 3])
    md["NGROUP"], md["NINTI"], md["NINTJ"], md["NINTK"], md["NBLOK"] = ng, ni, nj, nk, valid_nblok(rng, nj)
    d.groupFluxes = garr(rng, (ni, nj, nk, ng))
    return d


def gen_rzflux(rng, asc, idx):
    from armi.nuclearDataIO.cccc import rzflux

    d = rzflux.RzfluxData()
    md = d.metadata
    md["label"] = rand_text(rng, 28)
    for k in rzflux.FILE_SPEC_1D_KEYS:
        md[k] = gi(rng, asc) if k[0] in "IJKLMN" else gf(rng)
    nz, ng = rng.randint(1 + 2 * (idx % 2), 9), rng.randint(1, 4)
    md["NZONE"], md["NGROUP"], md["NBLOK"] = nz, ng, valid_nblok(rng, nz, 1 + idx % 2)
    d.groupFluxes = garr(rng, (ng, nz)).astype(np.float32)
    return d


def gen_rtflux_large(rng, asc, idx):
    """one i-j plane per record with more than io.DEFAULT_BUFFER_SIZE values (not a multiple of it)"""
    d = gen_rtflux(rng, asc, idx)
    ni, nj = [(100, 90), (150, 121), (91, 91)][idx % 3]
    d.metadata["NGROUP"], d.metadata["NINTI"], d.metadata["NINTJ"], d.metadata["NINTK"], d.metadata["NBLOK"] = 1, ni, nj, 1, 1
    d.groupFluxes = (np.arange(ni * nj, dtype=float).reshape((ni, nj, 1, 1)) * 0.125 + rng.randint(0, 64)) * rng.choice([1.0, -1.0])
    return d


def gen_pwdint_large(rng, asc, idx):
    d = gen_pwdint(rng, asc, idx)
    ni, nj = [(95, 87), (129, 127)][idx % 2]
    d.metadata["NINTI"], d.metadata["NINTJ"], d.metadata["NINTK"], d.metadata["NBLOK"] = ni, nj, 1, 1
    d.powerDensity = (np.arange(ni * nj, dtype=np.float32).reshape((ni, nj, 1)) * np.float32(0.25))
    return d


def gen_isotxs_upscatter(rng, asc, idx):
    """The shipped ISOAA (JJ == 1 in every row) with up-scatter put into several rows of several blocks:
    JJ = 2 or 3 and JBAND widened accordingly, non-zero data in the new band positions."""
    from armi.nuclearDataIO.cccc import isotxs

    lib = isotxs.readBinary(_fixture(FIX2 + "/ISOAA"))
    _subset(rng, lib, rng.randint(1, 3))
    ng = lib.isotxsMetadata["numGroups"]
    lib.isotxsMetadata["maxUpScatterGroups"] = 2
    for nuc in lib.nuclides:
        md = nuc.isotxsMetadata
        io_ = isotxs._IsotxsNuclideIO(nuc, None, lib)
        for n in range(lib.isotxsMetadata["maxScatteringBlocks"]):
            if md["ords"][n] <= 0:
                continue
            mat = io_._getScatterMatrix(n)
            if mat is None:
                continue
            dense = mat.toarray()
            for g in rng.sample(range(ng - 3), rng.randint(2, 8)):
                up = rng.choice([1, 2])
                md["jj"][g, n] = md["jj"][g, n] + up
                md["jband"][g, n] = md["jband"][g, n] + up
                for c in range(g + 1, g + 1 + up):
                    dense[g, c] = rng.randint(1, 512) / 1024.0
            from scipy import sparse

            io_._setScatterMatrix(n, sparse.csr_matrix(dense))
    return lib


def gen_fixsrc(rng, asc, idx):
    shape = (rng.randint(1, 3), rng.randint(1, 3), rng.randint(1, 3), rng.randint(1, 3))
    return garr(rng, shape)


# ---- cross-section libraries: the shipped library re-populated with generated numbers and a nuclide subset
def _rescale(rng, a):
    if a is None:
        return None
    import scipy.sparse as sp

    if sp.issparse(a):
        b = a.copy().astype(float)
        b.data = np.array([gf(rng) or 1.0 for _ in range(len(b.data))], dtype=float)
        b.data[b.data == 0.0] = 1.0
        return b
    if isinstance(a, np.ndarray) and a.dtype.kind == "f":
        return garr(rng, a.shape)
    return a


_LIBCACHE = {}


def _fixture(rel):
    return os.path.join(common.REPO, rel)


def _subset(rng, lib, keep):
    labels = lib.nuclideLabels
    drop = rng.sample(labels, max(0, len(labels) - keep))
    for lb in drop:
        del lib[lb]


def gen_isotxs(rng, asc, idx, gam=False):
    """From-scratch library: group count, nuclide count, fission/chi flags, optional reactions, scatter blocks and
    band widths all generated."""
    from armi.nuclearDataIO import xsLibraries, xsNuclides
    from scipy import sparse

    lib = xsLibraries.IsotxsLibrary()
    md = lib.gamisoMetadata if gam else lib.isotxsMetadata
    ng = rng.randint(1, 6)
    nsb = rng.randint(0, 4)
    fileChi = [0, 1][idx % 2]
    md["label"] = "ISOTXS"
    md["fileId"] = gi(rng, asc)
    md["numGroups"] = ng
    md["maxUpScatterGroups"], md["maxDownScatterGroups"] = rng.randint(0, ng), rng.randint(0, ng)
    md["maxScatteringOrder"] = rng.randint(0, 3)
    md["fileWideChiFlag"] = fileChi
    md["maxScatteringBlocks"] = nsb
    md["subblockingControl"] = 1
    md["libraryLabel"] = rand_text(rng, 96)
    if fileChi == 1:
        md["chi"] = garr(rng, ng)
    md["minimumNeutronEnergy"] = gf(rng)
    if gam:
        md["gammaVelocity..NOT"] = garr(rng, ng)
        lib.gammaEnergyUpperBounds = garr(rng, ng)
    else:
        lib.neutronVelocity = garr(rng, ng)
        lib.neutronEnergyUpperBounds = garr(rng, ng)
    names = rng.sample(["U235", "U238", "PU239", "FE56", "NA23", "O16", "C", "B10", "ZR90", "NI58"],
                       rng.randint(2, 4) if idx % 3 == 0 else rng.randint(1, 4))
    hetero = idx % 3 == 0  # per-nuclide counts made pairwise different and the file-wide values their maxima
    from armi.nucDirectory import nuclideBases

    flagpool = [100, 101, 200, 300, 0, 102, 103, 1, 201, 202, 203, 301, 302, 2]
    if idx % 4 == 1:
        # mostly higher-order blocks (P2+ elastic / inelastic / n2n / total): they live in micros.higherOrderScatter
        flagpool = [102, 103, 104, 201, 202, 203, 301, 302, 2, 3, 100]
    for nm in names:
        base = nuclideBases.byName[nm]
        label = base.label + "AA"
        nuc = xsNuclides.XSNuclide(lib, label)
        lib[label] = nuc
        nmd = nuc.gamisoMetadata if gam else nuc.isotxsMetadata
        micros = nuc.gammaXS if gam else nuc.micros
        nmd["nuclideId"], nmd["libName"], nmd["isoIdent"] = nm, rand_text(rng, 8), rand_text(rng, 8)
        for k in ("amass", "efiss", "ecapt", "temp", "sigPot", "adens"):
            nmd[k] = gf(rng)
        # every optional vector of the 5D record is governed by its own flag only: fisFlag and chiFlag are drawn
        # independently (a non-fissile nuclide may carry its own chi); the one coupling the format has is that a
        # fissile nuclide without its own chi needs the file-wide chi
        fis = rng.choice([0, 1])
        chiFlag = rng.choice([0, 1])
        if idx % 4 == 2:
            fis, chiFlag = 0, 1
        if fis and chiFlag == 0 and fileChi != 1:
            chiFlag = 1
        nmd["classif"], nmd["chiFlag"], nmd["fisFlag"] = gi(rng, asc), chiFlag, fis
        for k in ("nalph", "np", "n2n", "nd", "nt"):
            nmd[k] = rng.choice([0, 1])
        nmd["ltot"], nmd["ltrn"], nmd["strpd"] = rng.randint(1, 3), rng.randint(1, 3), rng.choice([0, 0, 1, 2])
        if hetero:
            k = names.index(nm)
            nmd["ltot"], nmd["ltrn"], nmd["strpd"] = [(1, 3, 0), (3, 1, 2), (2, 2, 1), (1, 1, 0)][(k + idx // 3) % 4]
        flags = rng.sample(flagpool, nsb)
        nmd["scatFlag"] = np.array(flags, dtype=int)
        ords = [rng.choice([0, 1, 1]) for _ in range(nsb)]
        nmd["ords"] = np.array(ords, dtype=int)
        jband, jj = {}, {}
        mats = {}
        for n in range(nsb):
            dense = np.zeros((ng, ng))
            for g in range(ng):
                # band: columns jdown .. jup-1 with 0 <= jdown <= jup <= ng; jj = jup - g
                jup = rng.randint(max(g, 1), ng) if rng.random() < 0.8 else rng.randint(1, ng)
                bw = rng.randint(0, jup)
                jband[g, n], jj[g, n] = bw, jup - g
                for c in range(jup - bw, jup):
                    dense[g, c] = gf(rng) or 1.0
            mats[n] = sparse.csr_matrix(dense)
        nmd["jband"], nmd["jj"] = jband, jj
        micros.transport, micros.total = garr(rng, (ng, nmd["ltrn"])), garr(rng, (ng, nmd["ltot"]))
        micros.nGamma = garr(rng, ng)
        if fis:
            micros.fission, micros.neutronsPerFission = garr(rng, ng), garr(rng, ng)
        if chiFlag == 1:
            micros.chi = garr(rng, ng)
        for k in ("nalph", "np", "n2n", "nd", "nt"):
            if nmd[k]:
                micros.__dict__[k] = garr(rng, ng)
        if nmd["strpd"] > 0:
            micros.strpd = garr(rng, (ng, nmd["strpd"]))
        # attach scatter matrices the way _setScatterMatrix does
        for n in range(nsb):
            if ords[n] <= 0:
                continue
            f = flags[n]
            first = lambda code: flags.index(code) if code in flags else None  # noqa
            if n == first(100):
                micros.elasticScatter = mats[n]
            elif n == first(200):
                micros.inelasticScatter = mats[n]
            elif n == first(300):
                micros.n2nScatter = mats[n]
            elif n == first(0):
                micros.totalScatter = mats[n]
            elif n == first(101):
                micros.elasticScatter1stOrder = mats[n]
            else:
                micros.higherOrderScatter[n] = mats[n]
    if hetero:
        # file-wide values = maxima of the per-nuclide / per-row ones (what a code writing the file would put there)
        nmds = [(n.gamisoMetadata if gam else n.isotxsMetadata) for n in lib.nuclides]
        md["maxScatteringOrder"] = max(max(m["ltot"], m["ltrn"]) for m in nmds)
        md["maxUpScatterGroups"] = max([0] + [v - 1 for m in nmds for v in m["jj"].values()])
        md["maxDownScatterGroups"] = max([0] + [m["jband"][k] - m["jj"][k] for m in nmds for k in m["jband"]])
    return lib


def gen_from_fixture(rel, modname, attrs_lib, attrs_nuc, rng, keep):
    import importlib

    mod = importlib.import_module("armi.nuclearDataIO.cccc." + modname)
    lib = mod.readBinary(_fixture(rel))
    return lib


def gen_pmatrx(rng, asc, idx, max_order=None):
    """The shipped library with a nuclide subset and generated numbers; per-nuclide record counts are heterogeneous
    and (for at least one nuclide) strictly below the file-wide maximum: number of production-matrix orders
    (nuclide heading maxScatteringOrder vs file maxScatteringOrder), activation records, heating records; the
    dose-conversion record (absent from every shipped file) is switched on in every other container."""
    from armi.nuclearDataIO.cccc import pmatrx
    lib = pmatrx.readBinary(_fixture(FIX2 + "/AA.pmatrx"))
    _subset(rng, lib, rng.randint(2, 4) if idx % 4 else rng.randint(1, 4))
    for a in ("neutronEnergyUpperBounds", "gammaEnergyUpperBounds", "neutronDoseConversionFactors", "gammaDoseConversionFactors"):
        v = getattr(lib, "_" + a, None)
        if v is not None:
            setattr(lib, "_" + a, _rescale(rng, np.asarray(v, dtype=float)))  # the private slot of the write-once property
    md = lib.pmatrxMetadata
    ngn, ngg = md["numNeutronGroups"], md["numGammaGroups"]
    for k in ("minimumNeutronEnergy", "minimumGammaEnergy"):
        md[k] = gf(rng)
    for k in ("numberCollapsingSpatialRegions", "maxNumberOfCompositions", "maxMaterials", "maxNumberOfRegions",
              "maxNumberOfCollapsingRegions", "_dummy1", "_dummy2"):
        md[k] = gi(rng, asc)
    # optional file-level record: dose conversion factors
    if idx % 2 == 1:
        md["hasDoseConversionFactor"] = True
        lib._neutronDoseConversionFactors = garr(rng, ngn)
        lib._gammaDoseConversionFactors = garr(rng, ngg)
    # production-matrix orders: file maximum M, per-nuclide orders 0..M, one nuclide at M, one strictly below
    nucs = lib.nuclides
    # (three and more orders - nOrderProductionMatrix - are readable since fix 44b2ff5)
    M = max_order if max_order else ([2, 3, 1, 4][idx % 4] if idx < 8 else rng.randint(1, 4))
    orders = [rng.randint(0, M) for _ in nucs]
    if len(nucs) >= 2:
        orders[0], orders[1] = M, rng.randint(0, M - 1)
    rng.shuffle(orders)
    md["maxScatteringOrder"] = M
    for nuc, order in zip(nucs, orders):
        nmd = nuc.pmatrxMetadata
        nmd["collapsingRegionNumber"] = gi(rng, asc)
        for a in ("neutronHeating", "neutronDamage", "gammaHeating"):
            setattr(nuc, a, _rescale(rng, getattr(nuc, a)))
        nmd["maxScatteringOrder"] = order
        nuc.isotropicProduction = garr(rng, (ngg, ngn)) if order >= 1 else None
        nuc.linearAnisotropicProduction = garr(rng, (ngg, ngn)) if order >= 2 else None
        nuc.nOrderProductionMatrix = {k: garr(rng, (ngg, ngn)) for k in range(3, order + 1)}
        # optional records on/off, nuclide by nuclide
        if rng.random() < 0.35 and nmd["hasGammaHeating"]:
            nmd["hasGammaHeating"] = False
            nuc.gammaHeating = None
        if rng.random() < 0.35 and nmd["hasNeutronHeatingAndDamage"]:
            nmd["hasNeutronHeatingAndDamage"] = False
            nuc.neutronHeating = nuc.neutronDamage = None
        # activation cross-section records (numberNeutronXS > 0)
        nact = rng.choice([0, 0, 1, 2, 3])
        if nact:
            nmd["numberNeutronXS"] = nact
            nmd["activationXS"] = [garr(rng, ngn) for _ in range(nact)]
            nmd["activationMT"] = [rng.choice([16, 17, 102, 103, 107]) for _ in range(nact)]
            nmd["activationMTU"] = [rng.randint(0, 3) for _ in range(nact)]
    return lib


def gen_dlayxs(rng, asc, idx):
    from armi.nuclearDataIO.cccc import dlayxs

    d = dlayxs.readBinary(_fixture(FIX1 + "/mc2v3.dlayxs"))
    md = d.metadata
    keys = list(d.keys())
    keep = rng.randint(1, len(keys))
    dropped = [k for k in keys if k not in keys[:keep]]
    for k in dropped:
        del d[k]
        d.nuclideFamily.pop(k, None)
    md["nuclideIDs"] = np.array(list(md["nuclideIDs"])[:keep])
    md["nkfam"] = np.array(list(md["nkfam"])[:keep])
    md["recordsToSkip"] = np.array(list(md["recordsToSkip"])[:keep])
    nf, ng = md["numFamilies"], md["numEnergyGroups"]
    md["precursorDecayConstants"] = np.abs(garr(rng, nf)) + 1.0
    md["delayEmissionSpectrum"] = np.abs(garr(rng, (ng, nf))) + 1.0
    d.neutronEnergyUpperBounds = garr(rng, ng)
    md["minEnergy"] = gf(rng)
    md["dummy"] = gi(rng, asc)
    # trailing 4-character pad words of the spectra record: the reader sizes them from (numBytes - byteCount) // 4
    npad = [3, 0, 1, 7, 2, 12][idx % 6] if idx < 6 else rng.randint(0, 9)
    md["dummy2"] = np.array([rand_text(rng, 4) or "PAD" for _ in range(npad)]) if npad else []
    # families per nuclide (NKFAM) heterogeneous and below the file's precursor-group count in every other container:
    # the yield record of nuclide i holds NKFAM(i) vectors, the rest of its (6 x G) table is not stored
    nk = [int(x) for x in md["nkfam"]]
    if idx % 2 == 1:
        nk = [rng.randint(1, d.numPrecursorGroups) for _ in nk]
        nk[rng.randrange(len(nk))] = rng.randint(1, d.numPrecursorGroups - 1)
        md["nkfam"] = np.array(nk)
    for (k, v), nki in zip(d.items(), nk):
        v.delayNeutronsPerFission = np.abs(garr(rng, v.delayNeutronsPerFission.shape)) + 1.0
        v.delayNeutronsPerFission[nki:, :] = 0.0
        # per-nuclide spectra/decay constants are not stored: they are derived from the family tables on reading
        for ii, family in enumerate(d.nuclideFamily[k]):
            v.precursorDecayConstants[ii] = md["precursorDecayConstants"][family - 1]
            v.delayEmissionSpectrum[ii, :] = md["delayEmissionSpectrum"][:, family - 1]
    return d


def gen_compxs(rng, asc, idx):
    from armi.nuclearDataIO.cccc import compxs

    lib = compxs.readAscii(_fixture("armi/tests/COMPXS.ascii"))
    md = lib.compxsMetadata
    for k in ("reservedFlag1", "reservedFlag2"):
        md[k] = gi(rng, asc)
    md["minimumNeutronEnergy"] = gf(rng)
    for k in ("fissionWattSeconds", "captureWattSeconds"):
        md[k] = garr(rng, md["numComps"])
    for r in lib.regions:
        for a in ("absorption", "total", "removal", "transport", "n2n", "fission", "nuSigF"):
            v = getattr(r.macros, a, None)
            if isinstance(v, np.ndarray):
                setattr(r.macros, a, garr(rng, v.shape))
        r.macros.totalScatter = _rescale(rng, r.macros.totalScatter)
        for o in list(r.macros.higherOrderScatter):
            r.macros.higherOrderScatter[o] = _rescale(rng, r.macros.higherOrderScatter[o])
    return lib


# --------------------------------------------------------------------------- dict insertion order is not data
def shuffle_dicts(rng, obj, _seen=None, _depth=0):
    """Re-insert the items of every plain dict (and of the dict behind every metadata object) reachable from a data
    container in a shuffled order, in place. The field sequence of a record is fixed by the format, never by the order
    in which the caller filled its dicts. Ordered containers whose order IS data (the DLAYXS nuclide table, the
    libraries' label lists) are left alone. Returns the number of dicts re-ordered."""
    import collections

    if _seen is None:
        _seen = set()
    if id(obj) in _seen or _depth > 8:
        return 0
    _seen.add(id(obj))
    n = 0
    if isinstance(obj, dict):
        if type(obj) in (dict, collections.OrderedDict) and len(obj) > 1:
            items = list(obj.items())
            rng.shuffle(items)
            obj.clear()
            obj.update(items)
            n += 1
        for v in list(obj.values()):
            n += shuffle_dicts(rng, v, _seen, _depth + 1)
    elif isinstance(obj, (list, tuple)):
        for v in obj[:200]:
            if not isinstance(v, (int, float, str, np.generic)):
                n += shuffle_dicts(rng, v, _seen, _depth + 1)
    elif (type(obj).__module__ or "").startswith("armi.nuclearDataIO"):
        for k, v in list(vars(obj).items()):
            if k in ("container", "parent", "_base", "_lib") or isinstance(v, (np.ndarray, str, int, float, type(None))):
                continue
            n += shuffle_dicts(rng, v, _seen, _depth + 1)
    return n


def build_container(fmt, seed, asc, idx):
    """generator + (for odd idx) shuffled dict insertion order; the same for a run and for its replay"""
    import random

    rng = random.Random(seed)
    data = fmt.gen(rng, asc, idx)
    shuffled = 0
    if idx % 2 == 1 and not isinstance(data, np.ndarray):
        shuffled = shuffle_dicts(rng, data)
    return data, shuffled


# --------------------------------------------------------------------------- 5. the format table
def schema_of(name):
    """(schema name in Model/Cccc.lean `Schema.byName`, values that are not in the file) for a format-table entry"""
    base = name.split("-")[0]

    def env0(data):
        if base in ("NHFLUX", "NAFLUX"):
            return {"variantFlag": int(bool(data.metadata["variantFlag"])),
                    "numDataSetsToRead": int(data.metadata["numDataSetsToRead"])}
        if base == "DLAYXS":
            md = data.metadata
            return {"labelLength": len(md["label"]), "numPad": 0 if md["dummy2"] is None else len(md["dummy2"]),
                    "numPrecursorGroups": int(data.numPrecursorGroups)}
        return {}

    return base, env0


class Fmt:
    def __init__(self, name, gen, write, read, fixture=None, fixture_ascii=False, ascii_api=True, reader_finding=None,
                 few=False):
        self.name, self.gen, self.write, self.read, self.few = name, gen, write, read, few
        self.schema, self.env0 = schema_of(name)
        self.fixture, self.fixture_ascii, self.ascii_api = fixture, fixture_ascii, ascii_api
        self.reader_finding = reader_finding


def _stream_fmt(name, modname, clsname, gen, fixture=None, **kw):
    def cls():
        import importlib

        return getattr(importlib.import_module("armi.nuclearDataIO.cccc." + modname), clsname)

    def write(data, path, asc):
        (cls().writeAscii if asc else cls().writeBinary)(data, path)

    def read(path, asc, like=None):
        nsets = 1
        if like is not None and modname == "nhflux":
            nsets = like.metadata["numDataSetsToRead"] or 1
        if nsets > 1:
            # several whole-core data sets in one file: the container says how many to step through (there is no
            # public read entry point that takes it: the stream's own _readWrite on a prepared container)
            from armi.nuclearDataIO.cccc import nhflux

            box = nhflux.NHFLUX(variant=bool(like.metadata["variantFlag"]), numDataSetsToRead=nsets)
            return cls()._readWrite(box, path, "r" if asc else "rb")
        return (cls().readAscii if asc else cls().readBinary)(path)

    return Fmt(name, gen, write, read, fixture, **kw)


def _module_fmt(name, modname, gen, fixture=None, **kw):
    def mod():
        import importlib

        return importlib.import_module("armi.nuclearDataIO.cccc." + modname)

    def write(data, path, asc):
        (mod().writeAscii if asc else mod().writeBinary)(data, path)

    def read(path, asc, like=None):
        return (mod().readAscii if asc else mod().readBinary)(path)

    return Fmt(name, gen, write, read, fixture, **kw)


def _fixsrc_fmt():
    def write(data, path, asc):
        from armi.nuclearDataIO.cccc import fixsrc

        if asc:
            with fixsrc.FIXSRC(path, "w", data) as fs:
                fs.readWrite()
        else:
            fixsrc.writeBinary(path, data)

    def read(path, asc, like=None):
        from armi.nuclearDataIO.cccc import fixsrc

        if not asc:
            return fixsrc.readBinary(path)  # the public reader (sizes its array from the 1D record)
        with fixsrc.FIXSRC(path, "r", np.zeros((0, 0, 0, 0))) as fs:  # no public ASCII entry point: same stream class
            fs.readWrite()
        return fs.fixSrc

    return Fmt("FIXSRC", gen_fixsrc, write, read, None)


def formats():
    return [
        _stream_fmt("GEODST", "geodst", "GeodstStream", gen_geodst, FIX1 + "/simple_hexz.geodst"),
        _stream_fmt("DIF3D", "dif3d", "Dif3dStream", gen_dif3d, FIX1 + "/simple_hexz.dif3d"),
        _stream_fmt("NHFLUX", "nhflux", "NhfluxStream", gen_nhflux, FIX1 + "/simple_hexz.nhflux"),
        _stream_fmt("NHFLUX-VARIANT", "nhflux", "NhfluxStreamVariant",
                    lambda rng, asc, idx: gen_nhflux(rng, asc, idx, variant=True), FIX1 + "/simple_hexz.nhflux.variant"),
        _stream_fmt("NAFLUX", "nhflux", "NafluxStream", gen_nhflux),
        _stream_fmt("NAFLUX-VARIANT", "nhflux", "NafluxStreamVariant",
                    lambda rng, asc, idx: gen_nhflux(rng, asc, idx, variant=True)),
        _stream_fmt("LABELS", "labels", "LabelsStream", gen_labels, FIX1 + "/labels.binary"),
        _stream_fmt("PWDINT", "pwdint", "PwdintStream", gen_pwdint, FIX1 + "/simple_cartesian.pwdint"),
        _stream_fmt("RTFLUX", "rtflux", "RtfluxStream", gen_rtflux, FIX1 + "/simple_cartesian.rtflux"),
        _stream_fmt("ATFLUX", "rtflux", "AtfluxStream", gen_rtflux),
        _stream_fmt("RZFLUX", "rzflux", "RzfluxStream", gen_rzflux, FIX1 + "/simple_cartesian.rzflux"),
        _fixsrc_fmt(),
        _module_fmt("ISOTXS", "isotxs", gen_isotxs, FIX2 + "/ISOAA"),
        _module_fmt("ISOTXS-UPSCATTER", "isotxs", gen_isotxs_upscatter, None, few=True),
        _stream_fmt("RTFLUX-LARGE", "rtflux", "RtfluxStream", gen_rtflux_large, None, few=True),
        _stream_fmt("PWDINT-LARGE", "pwdint", "PwdintStream", gen_pwdint_large, None, few=True),
        _module_fmt("GAMISO", "gamiso", lambda rng, asc, idx: gen_isotxs(rng, asc, idx, gam=True), FIX2 + "/AA.gamiso"),
        _module_fmt("PMATRX", "pmatrx", gen_pmatrx, FIX2 + "/AA.pmatrx"),
        _module_fmt("DLAYXS", "dlayxs", gen_dlayxs, FIX1 + "/mc2v3.dlayxs"),
        _module_fmt("COMPXS", "compxs", gen_compxs, "armi/tests/COMPXS.ascii", fixture_ascii=True),
    ]


def overflow_cause(tr):
    """Why an ASCII detour cannot work for this trace (F24: a value wider than its fixed-width field), or None."""
    for e in tr.ev:
        if e[0] in ("i", "close") and len(" {:>+10}".format(e[1])) != 11:
            return "int-field-overflow"
    for e in tr.ev:
        if e[0] in ("f", "d") and len(" {:+.16E}".format(frombits64(e[1]))) != 24:
            return "float-field-overflow"
    return None


class ReaderStuck(Exception):
    pass


@contextlib.contextmanager
def time_limit(seconds):
    """A reader that takes a count from a misplaced header value may try to read 10**9 fields: give up after
    `seconds` (an exception in the reading code, judged like any other read failure)."""
    import signal

    def on_alarm(_sig, _frm):
        raise ReaderStuck(f"the reader did not finish within {seconds} s")

    try:
        old = signal.signal(signal.SIGALRM, on_alarm)
    except ValueError:  # not in the main thread
        yield
        return
    signal.alarm(seconds)
    try:
        yield
    finally:
        signal.alarm(0)
        signal.signal(signal.SIGALRM, old)


def roundtrip_case(ctx, fmt, data, asc, workdir, tag, case, jobs, origin="generated", original_bytes=None):
    """write -> read -> write with recording classes; oracle clauses (ii)-(iv); queues (i) for the Lean replay."""
    mode_w, mode_r = ("w", "r") if asc else ("wb", "rb")
    m = "ascii" if asc else "binary"
    p1, p2 = os.path.join(workdir, tag + ".1"), os.path.join(workdir, tag + ".2")
    key0 = f"{fmt.name.lower()}-{m}"
    ctx.crumb(dict(case, step="write/read/re-write through the real stream"))
    _SPARSE_VIOLATIONS.clear()
    A0 = canon(data)
    with common.quiet():
        try:
            with recording(mode_w) as trw:
                fmt.write(data, p1, asc)
        except Exception as e:  # noqa
            ctx.fail(f"{key0}-write-raises", "a well-formed container can be written", case, observed=repr(e)[:300])
            return None
    try:
        # (the large-record entries exist for the chunked record writer; their formats' schemas are replayed on the
        # plain entries, and in the thorough tier on these too)
        trw.env0 = None if (fmt.few and not ctx.thorough) else fmt.env0(data)
    except Exception:  # noqa  (a container the schema's extra values cannot be taken from: oracle only)
        trw.env0 = None
    A = canon(data)
    mut = changed_by_writer(A0, A)
    if mut:
        ctx.fail(f"{key0}-writer-mutates-container", "writing leaves every value the container held unchanged", case,
                 observed={"where": mut[0], "after": str(mut[2])[:160]}, expected=str(mut[1])[:160])
    b1 = open(p1, "rb").read()
    ctx.traces += 1
    ctx.count(f"{fmt.name} {m} {origin} files")
    ctx.count(f"{fmt.name} records", len(trw.records()))
    cause = overflow_cause(trw) if asc else None
    if original_bytes is not None and not asc and b1 != original_bytes:
        ctx.fail(f"{key0}-fixture-rewrite", "writing what was read reproduces the shipped file byte for byte", case,
                 observed=_first_byte_diff(b1, original_bytes))
    if not asc:
        fr = binary_frames(b1)
        if fr is None or [f[0] for f in fr] != [c for _f, c in trw.records()]:
            ctx.fail(f"{key0}-frame-count", "every record: leading == trailing == payload byte length", case,
                     observed=str(fr)[:200])
    with common.quiet():
        try:
            with recording(mode_r) as trr, time_limit(ctx.pick(120, 300)):
                data2 = fmt.read(p1, asc, like=data)
        except Exception as e:  # noqa
            if _SPARSE_VIOLATIONS:
                # the reader handed scipy an index array that does not describe a matrix of the declared shape
                ctx.fail("scatter-band-columns", "the reader places the values of a scatter record at columns inside "
                         "the matrix (one index-pointer entry per row)", case, observed=_SPARSE_VIOLATIONS[0])
                jobs.append((fmt, asc, case, trw, b1))
                return None
            if cause:
                ctx.fail(f"ascii-{fmt.name.lower()}-{origin}-{cause}", "the ASCII form of a file reads back", case,
                         observed=repr(e)[:200].replace("\\n", " "))
            else:
                ctx.fail(f"{key0}-read-raises", "a file produced by the writer can be read", case, observed=repr(e)[:400])
            jobs.append((fmt, asc, case, trw, b1))
            return None
    if cause:
        # the reader did not raise although a field overflowed: whatever it returned is judged like any other data
        pass
    if norm_events(trr.ev) != norm_events(trw.ev):
        d = next((i for i, (a, b) in enumerate(zip(norm_events(trw.ev), norm_events(trr.ev))) if a != b),
                 min(len(trw.ev), len(trr.ev)))
        ctx.fail(f"ascii-{fmt.name.lower()}-{origin}-{cause}" if cause else f"{key0}-reader-trace",
                 "the reader makes the same rw* calls, with the same values, as the writer", case,
                 observed=trr.ev[max(0, d - 1):d + 2], expected=trw.ev[max(0, d - 1):d + 2])
    acc = accounting_errors(trr)
    if acc and not cause:
        ctx.fail(f"{key0}-reader-byte-accounting",
                 "when a record is closed the reader's byteCount equals the payload size the writer declared", case,
                 observed=[{"record": i, "byteCount": bc, "declared": n} for i, bc, n in acc[:3]])
    B = canon(data2)
    # the data read == the data handed to the writer (A0; empty slots may only come back as the reader's documented
    # defaults: no phantom records), and == the container as the writer left it (A)
    df = first_diff(A, B) or first_diff(A0, B, defaults_ok=True)
    if df:
        ctx.fail(f"ascii-{fmt.name.lower()}-{origin}-{cause}" if cause else f"{key0}-data-readback",
                 "the data read equal the data written", case,
                 observed={"where": df[0], "read": str(df[2])[:200]}, expected=str(df[1])[:200])
    with common.quiet():
        try:
            fmt.write(data2, p2, asc)
            b2 = open(p2, "rb").read()
        except Exception as e:  # noqa
            b2 = None
            ctx.fail(f"{key0}-rewrite-raises", "what was read can be written again", case, observed=repr(e)[:300])
    if b2 is not None and b2 != b1:
        ctx.fail(f"ascii-{fmt.name.lower()}-{origin}-{cause}" if cause else f"{key0}-rewrite-identical",
                 "writing what was read reproduces the file byte for byte", case, observed=_first_byte_diff(b2, b1))
    # second generation: the cycle started from a container the READER built (its own array types, sparse forms,
    # defaults): write (done: p2) -> read -> equal data -> write -> identical bytes
    if b2 is not None and not cause and origin != "fixture":  # (a fixture's container already comes from the reader)
        p3 = os.path.join(workdir, tag + ".3")
        B2 = canon(data2)
        with common.quiet():
            try:
                with time_limit(ctx.pick(120, 300)):
                    data3 = fmt.read(p2, asc, like=data2)
                C = canon(data3)
                fmt.write(data3, p3, asc)
                b3 = open(p3, "rb").read()
                obs = None
            except Exception as e:  # noqa
                obs = repr(e)[:300]
        ctx.count("second-generation cycles (read container -> write -> read -> write)")
        if obs is not None:
            ctx.fail(f"{key0}-second-generation-raises", "a container built by the reader goes through write -> read -> "
                     "write", case, observed=obs)
        else:
            df = first_diff(B2, C)
            if df:
                ctx.fail(f"{key0}-second-generation-data", "a container built by the reader reads back equal after being "
                         "written", case, observed={"where": df[0], "read": str(df[2])[:200]}, expected=str(df[1])[:200])
            if b3 != b2:
                ctx.fail(f"{key0}-second-generation-rewrite", "write -> read -> write starting from a read container "
                         "reproduces the bytes", case, observed=_first_byte_diff(b3, b2))
    jobs.append((fmt, asc, case, trw, b1))
    return data2


def accounting_errors(tr):
    """records whose reader-side byte accounting (int 4, long 8, float 4, double 8, string = its length; the same in
    the ASCII reader) differs from the payload size the writer declared; DLAYXS sizes a field from this count"""
    return [(i, bc, n) for i, (bc, n) in enumerate(tr.accounting) if bc != n]


def norm_events(ev):
    """blank padding is not data: a text field is compared without trailing blanks"""
    return [(e[0], e[1], e[2].rstrip()) if e[0] == "s" else e for e in ev]


def _first_byte_diff(a, b):
    n = next((i for i, (x, y) in enumerate(zip(a, b)) if x != y), min(len(a), len(b)))
    return {"offset": n, "len": [len(a), len(b)], "got": a[n:n + 16].hex(), "want": b[n:n + 16].hex()}


def trace_wf(trw, asc):
    """`File.WF` of the schema theorems, evaluated on the real writer's trace: every value inside its routine's domain
    (ints 32 bit / <= 9 digits in ASCII, reals finite and with a 2-digit exponent in ASCII, text within its field and
    without trailing blanks, every record's declared count inside the count field)"""
    for e in trw.ev:
        k = e[0]
        if k in ("i", "close"):
            if not (-2 ** 31 <= e[1] < 2 ** 31) or (asc and abs(e[1]) > 999999999):
                return False
        elif k == "l":
            if asc or not (-2 ** 63 <= e[1] < 2 ** 63):
                return False
        elif k in ("f", "d") and asc:
            x = frombits64(e[1])
            if x != x or x in (float("inf"), float("-inf")) or len(" {:+.16E}".format(x)) != 24:
                return False
            if dbits(float(" {:+.16E}".format(x))) != e[1]:  # asciiRealM.ok: the text converts back to the value
                return False
        elif k == "s":
            if len(e[2].encode("utf-8")) > e[1] or e[2] != e[2].rstrip() or any(ord(c) > 127 for c in e[2]):
                return False
    return True


def schema_request(fmt, asc, trw):
    env = ";".join(f"{k}={int(v)}" for k, v in (trw.env0 or {}).items()) or "-"
    toks = ",".join(field_token(f) for fields, _c in trw.records() for f in fields) or "-"
    return f"schema {fmt.schema} {'a' if asc else 'b'} {env} {toks}"


def _locate(trw, asc, offset):
    """record number / field number (0-based) of a byte offset of a binary file, from the writer's trace"""
    if asc:
        return None
    pos = 0
    for r, (fields, cnt) in enumerate(trw.records()):
        if offset < pos + 4:
            return {"record": r, "field": "leading count"}
        p = pos + 4
        for k, f in enumerate(fields):
            w = {"i": 4, "l": 8, "f": 4, "d": 8}.get(f[0]) or f[1]
            if offset < p + w:
                return {"record": r, "field": k, "kind": f[0]}
            p += w
        if offset < p + 4:
            return {"record": r, "field": "trailing count"}
        pos = p + 4
    return {"record": "beyond the last record"}


def replay_jobs(ctx, jobs):
    """(i): every writer trace through the Lean encoder, compared with the real file byte for byte - record by record
    (`recb`/`reca`: the model's field codecs and framing) and as a whole through the format's SCHEMA (`schema`: which
    records exist, which fields they hold in which order, every count and loop bound, computed by the model from the
    header values alone)."""
    todo = [(j, in_model_domain(j[3], j[1])) for j in jobs]
    sreq = [schema_request(j[0], j[1], j[3]) for j, ok in todo if ok and j[3].env0 is not None]
    sout = []
    try:
        mb = model_bytes([(j[3], j[1]) for j, ok in todo if ok], sreq, sout)
    except (common.Infra, Exception) as e:  # noqa
        # the schema walk is guarded inside the driver (fuel, "short"); should the driver still fail or time out on a
        # trace that does not fit the schema, the record-level replay is repeated alone and the schema replay of every
        # file of this batch counts as a disagreement (model could not be evaluated) instead of an infrastructure error
        if not sreq:
            raise
        sout = [f"<driver failed: {str(e)[:80]}>"] * len(sreq)
        mb = model_bytes([(j[3], j[1]) for j, ok in todo if ok])
    sresp = iter(sout)
    it = iter(mb)
    for (fmt, asc, case, trw, b1), ok in todo:
        if not ok:
            ctx.count("files outside the model's domain (oracle only)")
            continue
        m = next(it)
        ctx.evaluations += len(trw.records())
        mode = "ascii" if asc else "binary"
        if m != b1:
            ctx.disagree(f"Cccc.File.write vs {fmt.name} {mode} writer", case,
                         None if m is None else _first_byte_diff(m, b1), len(b1))
        if trw.env0 is None:
            continue
        r = next(sresp)
        ctx.evaluations += 1
        ctx.count(f"schema replays {fmt.schema} {mode}")
        ctx.count("schema files: theorem hypothesis File.WF " + ("holds" if trace_wf(trw, asc) else
                                                                 "fails (out-of-domain value; model = code still compared)"))
        if _NO_MODEL:
            continue
        hexs_, _, left = r.partition(";")
        try:
            sb = bytes.fromhex(hexs_) if hexs_ != "-" else b""
        except ValueError:
            sb = None  # "short": the schema asks for more values than the writer produced; "reject"; driver failure
        if sb is None or sb != b1 or left != "0":
            d = None if sb is None else _first_byte_diff(sb, b1)
            ctx.disagree(f"Cccc.Schema.{fmt.schema.lower()} (schemaFile) vs {fmt.name} {mode} writer", case,
                         {"model": r[:40] if sb is None else d, "values left over": left,
                          "at": None if d is None else _locate(trw, asc, d["offset"])}, len(b1))


def run_formats(ctx, workdir):
    per = ctx.pick(6, 120)
    only = os.environ.get("C09_ONLY")
    jobs = []
    for fmt in formats():
        if only and fmt.name not in only.split(","):
            continue
        for idx in range(ctx.pick(2, 6) if fmt.few else per):
            for asc in (False, True):
                seed = ctx.rng.getrandbits(48)
                case = {"format": fmt.name, "ascii": asc, "gen_seed": seed, "idx": idx}
                ctx.crumb(dict(case, step="building the container (may read a shipped fixture)"))
                try:
                    with common.quiet():
                        data, shuffled = build_container(fmt, seed, asc, idx)
                    if shuffled:
                        ctx.count("containers with shuffled dict insertion order")
                except Exception as e:  # noqa
                    # generators call real code (fixture readers, nuclide IO helpers); on the unchanged tree they succeed
                    ctx.fail(f"{fmt.name.lower()}-container-construction-raises",
                             "a well-formed container can be built through the library's own classes", case,
                             observed=repr(e)[:300])
                    continue
                roundtrip_case(ctx, fmt, data, asc, workdir, f"{fmt.name}-{idx}-{int(asc)}", case, jobs)
                ctx.case((fmt.name, asc, seed), sample={"container": case} if idx == 0 and not asc and len(ctx.samples) < 5 else None)
        if len(jobs) >= 120:
            replay_jobs(ctx, jobs)
            jobs.clear()
    replay_jobs(ctx, jobs)


# --------------------------------------------------------------------------- 6. the shipped fixture files
def run_fixtures(ctx, workdir):
    only = os.environ.get("C09_ONLY")
    jobs = []
    limit = ctx.pick(150_000, 10 ** 9)  # bytes of a file replayed through the Lean encoder in this tier
    for fmt in formats():
        if fmt.fixture is None or (only and fmt.name not in only.split(",")):
            continue
        src = os.path.join(common.REPO, fmt.fixture)
        if not os.path.exists(src):
            ctx.fail(f"{fmt.name.lower()}-fixture-missing", "the shipped fixture exists", {"path": fmt.fixture})
            continue
        local = os.path.join(workdir, "fixture-" + fmt.name)
        ctx.crumb({"format": fmt.name, "fixture": fmt.fixture, "step": "reading the shipped fixture"})
        shutil.copyfile(src, local)
        orig = open(local, "rb").read()
        case = {"format": fmt.name, "fixture": fmt.fixture}
        with common.quiet():
            try:
                data = fmt.read(local, fmt.fixture_ascii)
            except Exception as e:  # noqa
                ctx.fail(f"{fmt.name.lower()}-fixture-read-raises", "the shipped fixture can be read", case, observed=repr(e)[:300])
                continue
        if not fmt.fixture_ascii:
            fr = binary_frames(orig)
            if fr is None:
                ctx.fail(f"{fmt.name.lower()}-fixture-frames", "every record of the shipped file is framed by equal counts", case)
        for asc in (False, True):
            before = len(jobs)
            d2 = roundtrip_case(ctx, fmt, data, asc, workdir, f"fx-{fmt.name}-{int(asc)}", dict(case, ascii=asc), jobs,
                                origin="fixture", original_bytes=orig if asc == fmt.fixture_ascii else None)
            if asc == fmt.fixture_ascii and asc and len(jobs) > before and jobs[-1][4] != orig:
                ctx.fail(f"{fmt.name.lower()}-ascii-fixture-rewrite", "writing what was read reproduces the shipped file", case,
                         observed=_first_byte_diff(jobs[-1][4], orig))
            # detour through the other encoding comes back to the shipped bytes
            if d2 is not None and asc != fmt.fixture_ascii:
                p3 = os.path.join(workdir, f"fx-{fmt.name}-detour")
                with common.quiet():
                    try:
                        fmt.write(d2, p3, fmt.fixture_ascii)
                        b3 = open(p3, "rb").read()
                    except Exception as e:  # noqa
                        b3 = None
                        ctx.fail(f"{fmt.name.lower()}-detour-raises", "data read from the other encoding can be written", case,
                                 observed=repr(e)[:300])
                if b3 is not None and b3 != orig:
                    cause = overflow_cause(jobs[-1][3]) if asc else None
                    ctx.fail(f"ascii-{fmt.name.lower()}-fixture-{cause}" if cause else f"{fmt.name.lower()}-detour-identical",
                             "binary -> ASCII -> binary (or the reverse) reproduces the shipped file", case,
                             observed=_first_byte_diff(b3, orig))
            # replay through Lean only what the tier affords
            if len(jobs) > before and len(jobs[-1][4]) > limit:
                ctx.count("fixture files too large for the quick Lean replay (oracle only)")
                jobs.pop()
        # the same file read again, every data dict re-inserted in a shuffled order: the re-written bytes do not change
        import random

        with common.quiet():
            try:
                d3 = fmt.read(local, fmt.fixture_ascii)
                nsh = shuffle_dicts(random.Random(ctx.rng.getrandbits(32)), d3)
                p4 = os.path.join(workdir, f"fx-{fmt.name}-shuffled")
                fmt.write(d3, p4, fmt.fixture_ascii)
                b4 = open(p4, "rb").read()
            except Exception as e:  # noqa
                b4 = None
                ctx.fail(f"{fmt.name.lower()}-fixture-shuffled-rewrite-raises",
                         "a container whose dicts were filled in another order can be written", case, observed=repr(e)[:300])
        if b4 is not None:
            ctx.count("fixtures re-written after shuffling their dicts")
            if b4 != orig:
                ctx.fail(f"{fmt.name.lower()}-fixture-shuffled-rewrite",
                         "the field sequence of a record does not depend on the insertion order of the caller's dicts: "
                         "the shipped file is reproduced byte for byte", dict(case, dicts_shuffled=nsh),
                         observed=_first_byte_diff(b4, orig))
        ctx.case(("fixture", fmt.name), sample={"fixture": fmt.fixture, "bytes": len(orig)} if fmt.name == "GEODST" else None)
    replay_jobs(ctx, jobs)


# --------------------------------------------------------------------------- 7. records the header announces but the stream mishandles
def run_announced_records(ctx, workdir):
    """Points of the quantifier ("every optional record the header flags announce", "sub-blocking factors") that the
    container generators above avoid because the real reader/writer does not handle them. Oracle only."""
    import random

    from armi.nuclearDataIO.cccc import fixsrc, geodst, isotxs, pmatrx

    rng = random.Random(ctx.rng.getrandbits(32))
    ctx.crumb({"stream": "announced-record probes (FIXSRC public reader, GEODST IGOM 1..3, PMATRX activation / order 3, "
                         "COMPXS 2D optional parts, ISOTXS NSBLOK 2)"})
    # FIXSRC: the public reader
    arr = garr(rng, (2, 3, 2, 2))
    p = os.path.join(workdir, "fixsrc.pub")
    with common.quiet():
        fixsrc.writeBinary(p, arr.copy())
        try:
            back = fixsrc.readBinary(p)
            ok = np.array_equal(np.asarray(back), arr)
            obs = "shape %s" % (np.asarray(back).shape,)
        except Exception as e:  # noqa
            ok, obs = False, repr(e)[:200]
    ctx.count("announced-record probes")
    if not ok:
        ctx.fail("fixsrc-readbinary-nonempty", "fixsrc.readBinary returns the array fixsrc.writeBinary wrote",
                 {"shape": list(arr.shape)}, observed=obs)
    # GEODST 1-D geometries (IGOM 1..3): the 1-D mesh record
    for igom in (1, 2, 3):
        d = gen_geodst(rng, False, 1)  # a 2-D container (all of the 5D record present) ...
        d.metadata["IGOM"], d.metadata["NRASS"] = igom, 2  # ... declared 1-D, without region-assignment records
        nci = d.metadata["NCINTI"]
        d.xmesh, d.iintervals = garr(rng, nci + 1), giarr(rng, nci, 1, 9)
        d.ymesh = d.zmesh = d.jintervals = d.kintervals = None
        p = os.path.join(workdir, f"geodst-1d-{igom}")
        with common.quiet():
            try:
                geodst.writeBinary(d, p)
                back = geodst.readBinary(p)
                df = first_diff(canon(d.xmesh), canon(back.xmesh))
                obs = None if df is None else {"xmesh read": str(canon(back.xmesh))[:80]}
            except Exception as e:  # noqa
                obs = repr(e)[:200]
        ctx.count("announced-record probes")
        if obs is not None:
            ctx.fail("geodst-1d-mesh-record-skipped", "GEODST with IGOM in 1..3 keeps its 1-D mesh (2D record)",
                     {"IGOM": igom, "NCINTI": nci}, observed=obs, expected=str(canon(d.xmesh))[:80])
    # PMATRX activation cross-section records (numberNeutronXS > 0)
    lib = gen_pmatrx(rng, False, 0)
    nuc = lib.nuclides[0]
    ngn = lib.pmatrxMetadata["numNeutronGroups"]
    nuc.pmatrxMetadata["numberNeutronXS"] = 1
    nuc.pmatrxMetadata["activationXS"] = [garr(rng, ngn)]
    nuc.pmatrxMetadata["activationMT"] = [102]
    nuc.pmatrxMetadata["activationMTU"] = [0]
    p = os.path.join(workdir, "pmatrx-act")
    with common.quiet():
        try:
            pmatrx.writeBinary(lib, p)
            back = pmatrx.readBinary(p)
            df = first_diff(canon(lib), canon(back))
            obs = None if df is None else str(df)[:200]
        except Exception as e:  # noqa
            obs = repr(e)[:160]
    ctx.count("announced-record probes")
    if obs is not None:
        ctx.fail("pmatrx-activation-record", "PMATRX nuclide with numberNeutronXS > 0 is written and read back",
                 {"nuclide": nuc.pmatrxMetadata["nuclideId"] if nuc.pmatrxMetadata["nuclideId"] else lib.nuclideLabels[0]},
                 observed=obs)
    # NHFLUX / NAFLUX with two DIFFERENT whole-core data sets in one file (as SASSYS/DIF3D-K writes them): reading one
    # set returns the first, stepping through two returns the second
    import copy

    from armi.nuclearDataIO.cccc import nhflux

    for clsname, variant in (("NhfluxStream", False), ("NafluxStream", False), ("NhfluxStreamVariant", True)):
        cls_ = getattr(nhflux, clsname)
        dA = gen_nhflux(rng, False, 0, variant=variant)
        dB = copy.deepcopy(dA)
        for a in ("fluxMomentsAll", "partialCurrentsHexAll", "partialCurrentsHex_extAll", "partialCurrentsZAll"):
            v = getattr(dB, a)
            if isinstance(v, np.ndarray) and v.size:
                setattr(dB, a, garr(rng, v.shape))
        pa, pb, pab = (os.path.join(workdir, f"nh2-{clsname}-{x}") for x in "a b ab".split())
        obs = None
        with common.quiet():
            try:
                cls_.writeBinary(dA, pa)
                cls_.writeBinary(dB, pb)
                ba, bb = open(pa, "rb").read(), open(pb, "rb").read()
                pos = 0
                for _ in range(3):  # file id, 1D, 2D records
                    pos += 8 + struct.unpack("<i", ba[pos:pos + 4])[0]
                if ba[:pos] != bb[:pos]:
                    obs = "the two data sets do not share their header records"
                else:
                    open(pab, "wb").write(ba + bb[pos:])
                    one = cls_.readBinary(pab)
                    two = cls_._readWrite(nhflux.NHFLUX(variant=variant, numDataSetsToRead=2), pab, "rb")
                    want1, want2 = canon(dA), canon(dB)
                    want2["metadata"]["_data"]["numDataSetsToRead"] = 2
                    df = first_diff(want1, canon(one)) or first_diff(want2, canon(two))
                    obs = None if df is None else {"where": df[0], "read": str(df[2])[:120], "expected": str(df[1])[:120]}
            except Exception as e:  # noqa
                obs = repr(e)[:300]
        ctx.count("announced-record probes")
        if obs is not None:
            ctx.fail("nhflux-several-data-sets", "a file holding two whole-core data sets gives the first when one set is "
                     "read and the second when two are stepped through", {"stream": clsname}, observed=obs)
    # adjoint files hold the container's groups in reverse: ATFLUX(d) is byte for byte RTFLUX(d with the group axis
    # reversed), NAFLUX likewise; the order itself vs Cccc.adjointOrder
    from armi.nuclearDataIO.cccc import rtflux

    for fwd, adj, gen, attrs, axis in ((rtflux.RtfluxStream, rtflux.AtfluxStream, gen_rtflux, ("groupFluxes",), {"groupFluxes": 3}),
                                       (nhflux.NhfluxStream, nhflux.NafluxStream, gen_nhflux,
                                        ("fluxMomentsAll", "partialCurrentsHexAll", "partialCurrentsHex_extAll", "partialCurrentsZAll"),
                                        {"fluxMomentsAll": 3, "partialCurrentsHexAll": 3, "partialCurrentsHex_extAll": 2,
                                         "partialCurrentsZAll": 3})):
        for _t in range(3):
            d = gen(rng, False, 0)
            drev = copy.deepcopy(d)
            for a in attrs:
                v = getattr(drev, a)
                if isinstance(v, np.ndarray) and v.size:
                    setattr(drev, a, np.flip(v, axis=axis[a]).copy())
            p1_, p2_ = os.path.join(workdir, "adj-a"), os.path.join(workdir, "adj-f")
            with common.quiet():
                try:
                    adj.writeBinary(d, p1_)
                    fwd.writeBinary(drev, p2_)
                    same = open(p1_, "rb").read() == open(p2_, "rb").read()
                    obs = None if same else "bytes differ"
                except Exception as e:  # noqa
                    obs = repr(e)[:200]
            ctx.count("announced-record probes")
            if obs is not None:
                ctx.fail("adjoint-group-order", "an adjoint file is the forward file of the container with its group axis "
                         "reversed", {"stream": adj.__name__}, observed=obs)
    ngs = [rng.randint(0, 9) for _ in range(6)]
    got = lean_run("Cccc", ["adjo [" + ",".join(str(10 * (i + 1)) for i in range(n_)) + "]" for n_ in ngs])
    if not _NO_MODEL:
        at = rtflux.AtfluxStream(rtflux.RtfluxData(), "unused", "rb")
        for n_, g_ in zip(ngs, got):
            at._metadata["NGROUP"] = n_
            want = "[" + ",".join(str(10 * (at.getEnergyGroupIndex(g) + 1)) for g in range(n_)) + "]"
            if g_ != want:
                ctx.disagree("Cccc.adjointOrder vs AtfluxStream.getEnergyGroupIndex", {"ngroup": n_}, g_, want)
    # PMATRX nuclides with three or more production-matrix orders (heading maxScatteringOrder >= 3)
    for M in (3, 4):
        lib = gen_pmatrx(rng, False, 2, max_order=M)
        p = os.path.join(workdir, f"pmatrx-order-{M}")
        with common.quiet():
            try:
                pmatrx.writeBinary(lib, p)
                back = pmatrx.readBinary(p)
                df = first_diff(canon(lib), canon(back))
                obs = None if df is None else str(df)[:200]
            except Exception as e:  # noqa
                obs = repr(e)[:100] + " ... " + repr(e).replace("\\n", " ")[-120:]
        ctx.count("announced-record probes")
        if obs is not None:
            ctx.fail("pmatrx-production-matrix-order-3", "a PMATRX nuclide with 3 or more production-matrix orders "
                     "is written and read back", {"file maxScatteringOrder": M,
                                                  "orders": [n.pmatrxMetadata["maxScatteringOrder"] for n in lib.nuclides]},
                     observed=obs)
    # COMPXS: the optional parts of the 2D record that the header can announce (delayed-neutron families, file-wide chi)
    from armi.nuclearDataIO.cccc import compxs

    for what in ("delayed-families", "file-wide-chi"):
        lib = gen_compxs(rng, False, 0)
        cm = lib.compxsMetadata
        ng = cm["numGroups"]
        if what == "delayed-families":
            cm["numDelayedFam"] = 2
            cm["delayedChi"] = garr(rng, (2, ng))
            cm["delayedDecayConstant"] = garr(rng, 2)
        else:
            cm["fileWideChiFlag"] = 1
            cm["fileWideChi"] = garr(rng, (ng, 1))
        p = os.path.join(workdir, "compxs-" + what)
        with common.quiet():
            try:
                compxs.writeBinary(lib, p)
                back = compxs.readBinary(p)
                df = first_diff(canon(lib.compxsMetadata), canon(back.compxsMetadata))
                obs = None if df is None else str(df)[:200]
            except Exception as e:  # noqa
                obs = repr(e)[:100] + " ... " + repr(e).replace("\\n", " ")[-120:]
        ctx.count("announced-record probes")
        if obs is not None:
            ctx.fail("compxs-2d-record-" + what, "COMPXS whose header announces " + what + " is written and read back",
                     {"numDelayedFam": cm["numDelayedFam"], "fileWideChiFlag": cm["fileWideChiFlag"]}, observed=obs)
    # ISOTXS scatter sub-blocking (NSBLOK > 1) and Legendre blocks holding more than one order
    for what in ("subblocking", "multi-order"):
        for _try in range(40):
            lib = gen_isotxs(rng, False, 1)
            md = lib.isotxsMetadata
            if md["maxScatteringBlocks"] >= 1 and md["numGroups"] >= 2 and any(
                    n.isotxsMetadata["ords"][0] > 0 for n in lib.nuclides):
                break
        if what == "subblocking":
            md["subblockingControl"] = 2
        else:
            continue  # a block of order > 1 needs a (ng x ng x order) container the library classes do not have
        p = os.path.join(workdir, "isotxs-" + what)
        with common.quiet():
            try:
                isotxs.writeBinary(lib, p)
                back = isotxs.readBinary(p)
                df = first_diff(canon(lib), canon(back))
                obs = None if df is None else str(df)[:200]
            except Exception as e:  # noqa
                obs = repr(e)[:100] + " ... " + repr(e)[-160:]
        ctx.count("announced-record probes")
        if obs is not None:
            ctx.fail("isotxs-scatter-" + what, "ISOTXS with NSBLOK = 2 reads back what was written",
                     {"numGroups": md["numGroups"], "blocks": md["maxScatteringBlocks"]}, observed=obs)


# --------------------------------------------------------------------------- ISOTXS band storage vs the model
def run_band(ctx, workdir):
    """The real ISOTXS writer/reader on generated libraries with general (JJ, JBAND) - up-scatter included - against
    Model/Cccc.lean `bandWrite` / `bandCols`: the values of every 7D record, row by row, and the columns at which the
    reader puts them."""
    import random

    from armi.nuclearDataIO.cccc import isotxs

    req, impl, cases = [], [], []
    for t in range(ctx.pick(6, 40)):
        seed = ctx.rng.getrandbits(48)
        case = {"format": "ISOTXS", "ascii": False, "gen_seed": seed, "idx": t, "stream": "band"}
        ctx.crumb(case)
        _SPARSE_VIOLATIONS.clear()
        lib = gen_isotxs(random.Random(seed), False, t)
        md = lib.isotxsMetadata
        ng, nsb = md["numGroups"], md["maxScatteringBlocks"]
        dense = {}
        for nuc in lib.nuclides:
            io_ = isotxs._IsotxsNuclideIO(nuc, None, lib)
            for n in range(nsb):
                if nuc.isotxsMetadata["ords"][n] > 0:
                    from scipy import sparse

                    m = io_._getScatterMatrix(n).toarray()
                    # position-coded values (exact in single precision) so that a value identifies its column
                    for g in range(ng):
                        for c in range(ng):
                            if m[g, c] != 0.0:
                                m[g, c] = (g * ng + c + 1) * 0.25
                    io_._setScatterMatrix(n, sparse.csr_matrix(m))
                    dense[id(nuc), n] = m
        p = os.path.join(workdir, f"band-{t}")
        try:
            with common.quiet():
                with recording("wb") as trw:
                    isotxs.writeBinary(lib, p)
                back = isotxs.readBinary(p)
        except Exception as e:  # noqa
            if _SPARSE_VIOLATIONS:
                ctx.fail("scatter-band-columns", "the reader places the values of a scatter record at columns inside "
                         "the matrix (one index-pointer entry per row)", case, observed=_SPARSE_VIOLATIONS[0])
            else:
                ctx.fail("isotxs-binary-write-raises", "a well-formed library can be written and read", case,
                         observed=repr(e)[:300])
            continue
        recs = trw.records()
        pos = 3
        for nuc, nuc2 in zip(lib.nuclides, back.nuclides):
            nmd = nuc.isotxsMetadata
            pos += 2
            io2 = isotxs._IsotxsNuclideIO(nuc2, None, back)
            for n in range(nsb):
                if nmd["ords"][n] <= 0:
                    continue
                fields = [f[1] for f in recs[pos][0]]
                pos += 1
                d = dense[id(nuc), n]
                got = io2._getScatterMatrix(n)
                got = None if got is None else got.toarray()
                k = 0
                for g in range(ng):
                    jup, bw = g + nmd["jj"][g, n], nmd["jband"][g, n]
                    vals = fields[k:k + bw]
                    k += bw
                    # model: which columns does the writer emit, in which order / the reader fill, in which order
                    req.append(f"bandw {ng} {jup} {bw}")
                    impl.append("[" + ",".join(str(c) for c in _cols_of(d[g], vals)) + "]")
                    cases.append(dict(case, row=g, block=n, jup=jup, jband=bw))
                    req.append(f"band {jup} {bw}")
                    impl.append("[" + ",".join(str(c) for c in _cols_read(got, g, vals)) + "]")
                    cases.append(dict(case, row=g, block=n, jup=jup, jband=bw, side="reader"))
                    ctx.case(("band", ng, g, jup, bw), nontrivial=bw > 0)
                    if jup - g > 1 and bw > 0:
                        ctx.count("band rows with up-scatter (JJ > 1)")
                if k != len(fields):
                    ctx.fail("isotxs-7d-record-length", "a 7D record holds sum(JBAND) values", case, observed=[k, len(fields)])
                # the whole block: record == scatFlatten, matrix read back == scatUnflatten (values are position codes)
                jups = [g + nmd["jj"][g, n] for g in range(ng)]
                jbs = [nmd["jband"][g, n] for g in range(ng)]
                req.append(f"scat {ng} [" + ",".join(map(str, jups)) + "] [" + ",".join(map(str, jbs)) + "]")
                flat = [int(round(frombits32(b) * 4)) for b in fields]
                rows = [[int(round(x * 4)) for x in r] for r in (got.tolist() if got is not None else [[0] * ng] * ng)]
                impl.append("[" + ",".join(map(str, flat)) + "];[" + ",".join(
                    "[" + ",".join(map(str, r)) + "]" for r in rows) + "]")
                cases.append(dict(case, block=n, whole_block=True))
    model = lean_run("Cccc", req)
    ctx.compare("Cccc.bandWrite/bandCols vs isotxs._rw7DRecord", cases, model, impl)
    ctx.evaluations += len(req)


def _cols_of(row, bits):
    """columns of `row` whose (single-precision) values are the ones written, in the order written; every band value
    of a generated row is distinct from the others with overwhelming probability, ties resolved left to right"""
    out, used = [], set()
    rb = [fbits(x) for x in row]
    for b in bits:
        c = next((i for i, x in enumerate(rb) if x == b and i not in used), None)
        used.add(c)
        out.append(c)
    return out


def _cols_read(mat, g, bits):
    if mat is None:
        return []
    return _cols_of(mat[g], bits)


# --------------------------------------------------------------------------- guard: never let a bad index array reach scipy's C code
_SPARSE_VIOLATIONS = []


def _check_sparse_args(kind, args, kwargs):
    """scipy does not validate (data, indices, indptr): a reader that computes columns outside the matrix corrupts the
    heap and aborts the interpreter. The readers' constructor is wrapped from outside so that such a triple is refused
    with a Python exception (and remembered) instead."""
    if not args or not isinstance(args[0], tuple) or len(args[0]) != 3:
        return
    data, indices, indptr = (np.asarray(a) for a in args[0])
    shape = kwargs.get("shape") or (args[1] if len(args) > 1 else None)
    if shape is None:
        return
    major, minor = (shape[0], shape[1]) if kind == "csr" else (shape[1], shape[0])
    why = None
    if len(indptr) != major + 1:
        why = f"index pointer size {len(indptr)} should be {major + 1}"
    elif len(indices) != len(data) or (len(indptr) and int(indptr[-1]) != len(indices)):
        why = f"{len(data)} values, {len(indices)} indices, last pointer {indptr[-1] if len(indptr) else None}"
    elif len(indices) and (indices.min() < 0 or indices.max() >= minor):
        bad = [int(i) for i in indices if i < 0 or i >= minor][:5]
        why = f"indices {bad} outside 0..{minor - 1}"
    elif len(indptr) > 1 and (np.diff(indptr) < 0).any():
        why = "index pointers decrease"
    if why:
        msg = f"{kind}_matrix of shape {tuple(shape)}: {why}"
        _SPARSE_VIOLATIONS.append(msg)
        raise ValueError("invalid sparse structure handed to scipy: " + msg)


@contextlib.contextmanager
def guarded_sparse():
    from scipy import sparse

    from armi.nuclearDataIO.cccc import compxs, isotxs

    class _Proxy:
        def __getattr__(self, name):
            return getattr(sparse, name)

        @staticmethod
        def csr_matrix(*a, **k):
            _check_sparse_args("csr", a, k)
            return sparse.csr_matrix(*a, **k)

    def csc(*a, **k):
        _check_sparse_args("csc", a, k)
        return sparse.csc_matrix(*a, **k)

    old = (isotxs.sparse, compxs.csc_matrix)
    isotxs.sparse, compxs.csc_matrix = _Proxy(), csc
    try:
        yield
    finally:
        isotxs.sparse, compxs.csc_matrix = old


# --------------------------------------------------------------------------- the ASCII-real hypothesis, measured
def run_float_hypothesis(ctx):
    """`file_roundtrip_ascii_partial` assumes FloatParseSpec: float(" {:+.16E}".format(x)) == x (same bit pattern) for
    every finite double. Discharged here by measurement on the host's real format/float pair: random bit patterns,
    subnormals, extremes, neighbours of powers of ten and of two, and every value goes through the Lean formatter too
    (Cccc.asciiRealField vs Python's format, 3-digit exponents and subnormals included). In-field values (2-digit
    exponent) additionally go through the real AsciiRecordWriter/Reader pair."""
    import math

    from armi.nuclearDataIO.cccc import cccc

    N = ctx.pick(3000, 60000)
    pats = [0, 1 << 63, 1, 2, (1 << 52) - 1, 1 << 52, (1 << 52) + 1, 0x7FEFFFFFFFFFFFFF, 0xFFEFFFFFFFFFFFFF,
            0x7FE0000000000000, dbits(1e22), dbits(1e23), dbits(9.999999999999999e22), dbits(5e-324), dbits(2.2250738585072014e-308),
            dbits(2.225073858507201e-308), dbits(0.1), dbits(1 / 3), dbits(1e100), dbits(1e-100), dbits(9.999999999999998e99)]
    for k in range(-323, 309, 7):
        x = float(f"1e{k}")
        pats += [dbits(x), dbits(math.nextafter(x, 0.0)), dbits(math.nextafter(x, math.inf))]
    for e in range(-1074, 1024, 41):
        x = math.ldexp(1.0, e)
        pats += [dbits(x), dbits(math.nextafter(x, 0.0)), dbits(-math.nextafter(x, math.inf))]
    while len(pats) < N:
        c = ctx.rng.random()
        if c < 0.6:
            n = ctx.rng.getrandbits(64)
        elif c < 0.8:
            n = ctx.rng.getrandbits(52) | (ctx.rng.getrandbits(1) << 63)  # subnormals
        else:
            n = dbits(rand_double(ctx.rng))
        if (n >> 52) & 0x7FF != 0x7FF:
            pats.append(n)
    bad, infield, sub, threedig = 0, 0, 0, 0
    req, impl, cases = [], [], []
    for n in pats:
        x = frombits64(n)
        text = " {:+.16E}".format(x)
        back = float(text)
        if dbits(back) != n:
            bad += 1
            ctx.fail("ascii-real-format-parse-roundtrip", "float(format(x, '+.16E')) == x for every finite double",
                     {"bits": n, "x": repr(x)}, observed=[text, repr(back)])
        sub += (n >> 52) & 0x7FF == 0 and n & ((1 << 52) - 1) != 0
        threedig += len(text) != 24
        req.append(f"afloat {n}"); impl.append(text.encode().hex()); cases.append(("afloat", n, text))
        # the accepted domain of the ASCII real field (asciiReal.ok, decidable) vs "the text is _floatLength wide"
        req.append(f"adom d {n}"); impl.append("T" if len(text) == 24 and dbits(back) == n else "F")
        cases.append(("adom-real", n, text))
        # Python's float() vs the model's parseFloatText: on the text the writer produces, and on the same value
        # printed with other digit counts / exponent letters / without exponent (correct rounding of any decimal)
        req.append("aparse " + text.encode().hex()); impl.append(str(dbits(back))); cases.append(("aparse", text))
        if len(cases) % 7 == 0:
            alt = ctx.rng.choice([" {:+.{p}E}", "{:.{p}e} ", "{:.{p}E}"]).format(x, p=ctx.rng.randint(0, 25))
            if 1e-5 < abs(x) < 1e15 and ctx.rng.random() < 0.5:
                alt = "{:.{p}f}".format(x, p=ctx.rng.randint(0, 12))
            v_ = float(alt)
            req.append("aparse " + alt.encode().hex())
            impl.append("reject" if v_ in (float("inf"), float("-inf")) else str(dbits(v_)))
            cases.append(("aparse", alt))
        if len(text) == 24 and infield < 600:
            infield += 1
            buf = io.StringIO()
            w = cccc.AsciiRecordWriter(buf)
            with w:
                w.rwDouble(x)
                w.rwFloat(x)
            r = cccc.AsciiRecordReader(io.StringIO(buf.getvalue()))
            with r:
                got = [r.rwDouble(None), r.rwFloat(None)]
            if [dbits(g) for g in got] != [n, n]:
                ctx.fail("ascii-float-roundtrip", "doubles with 2-digit exponents read back exactly from the ASCII format",
                         {"bits": n, "x": repr(x)}, observed=[repr(g) for g in got])
        ctx.case(("afloat", n), nontrivial=True)
    for bad in ("abc", "", ".", "E5", "+.E1", "--1.0", "1.0E+-1", "1..0", "1.5E", " +1.5E+ 2", "1.0E400", "9.0E-400",
                "2.4703282292062327E-324", "2.4703282292062328E-324", "1.7976931348623158E+308", "1.7976931348623159E308"):
        try:
            v_ = float(bad)
            exp = "reject" if v_ in (float("inf"), float("-inf")) else str(dbits(v_))
        except ValueError:
            exp = "reject"
        req.append("aparse " + (bad.encode().hex() or "-")); impl.append(exp); cases.append(("aparse", bad))
    model = lean_run("Cccc", req)
    ctx.compare("Cccc.asciiRealField / parseFloatText / asciiRealM.ok vs Python format(x, '+.16E') / float(text)", cases,
                model, impl)
    ctx.evaluations += len(req)
    ctx.extra["ascii_real_hypothesis"] = {
        "statement": "FloatParseSpec: float(' {:+.16E}'.format(x)) == x (identical bit pattern) for every finite double x",
        "used_by": "file_roundtrip_ascii_partial / asciiReal_roundtrip",
        "doubles_checked": len(pats), "subnormals": int(sub), "three_digit_exponents": int(threedig),
        "through_real_AsciiRecordWriter_Reader": infield, "failures": bad,
        "lean_formatter_compared": len(req),
    }
    ctx.count("ASCII real hypothesis: doubles through format/float", len(pats))


@contextlib.contextmanager
def quiet_armi():
    """armi logs the exceptions the excluded-point streams provoke on purpose; keep them off the terminal."""
    from armi import runLog

    saved = {n: getattr(runLog, n) for n in ("error", "warning", "info", "important", "extra", "debug")}
    for n in saved:
        setattr(runLog, n, lambda *a, **k: None)
    try:
        yield
    finally:
        for n, f in saved.items():
            setattr(runLog, n, f)


def _limit_failures_per_key(ctx, per_key=4):
    """common.Ctx keeps the first 200 failures: a clause that fails on every record of the first stream must not
    crowd out the keys of later streams (each key is reported once anyway)."""
    seen, orig = {}, ctx.fail

    def fail(key, *a, **k):
        seen[key] = seen.get(key, 0) + 1
        if seen[key] <= per_key:
            orig(key, *a, **k)

    ctx.fail = fail


def run(ctx):
    _limit_failures_per_key(ctx)
    with common.scratch_dir() as workdir, quiet_armi(), guarded_sparse():
        run_helpers(ctx)
        run_record_sequences(ctx)
        run_excluded_points(ctx)
        run_float_hypothesis(ctx)
        run_fixtures(ctx, workdir)
        run_formats(ctx, workdir)
        run_band(ctx, workdir)
        try:
            run_announced_records(ctx, workdir)
        except Exception as e:  # noqa  (the probes build their containers with the library's own readers)
            ctx.fail("announced-record-probe-construction-raises",
                     "the containers of the announced-record probes can be built", {}, observed=repr(e)[:300])
    ctx.rule = ("one case = one record of a generated field-type sequence (int/long/float/double/string/list/matrix, "
                "binary and ASCII), one generated container of one format in one encoding (written, read, re-written "
                "through recording record classes; its whole trace replayed through the Lean encoder record by record "
                "and through the format's Lean schema as a whole; per-item counts heterogeneous and below the "
                "file-wide maxima, every optional record the readers accept switched on, dict insertion order "
                "shuffled for odd indices), one shipped "
                "fixture file, or one point of the exhaustive small grids (getBlockBandwidth arguments, matrix shapes). "
                "distinct = distinct field-kind sequences / generator seeds / grid points; non-trivial = more than one "
                "field or a real file.")


# --------------------------------------------------------------------------- search / replay
_NO_MODEL = False
_real_lean_run = lean_run


def lean_run(driver, lines, timeout=1800):  # noqa: F811  (module-level indirection so that search can run oracle-only)
    lines = list(lines)
    if _NO_MODEL:
        return ["<model not consulted>"] * len(lines)
    return _real_lean_run(driver, lines, timeout)


def _oracle_only(ctx, seed_tag, fmts=None, more=1):
    """The implementation-side oracle alone (no model), on fresh seeds; returns a context with its failures."""
    import random

    global _NO_MODEL
    sub = type(ctx)(ctx.prop, ctx.tier, ctx.seed)
    sub.rng = random.Random(f"C09-search-{ctx.seed}-{seed_tag}")
    old_only = os.environ.get("C09_ONLY")
    _NO_MODEL = True
    try:
        if fmts:
            os.environ["C09_ONLY"] = ",".join(fmts)
        with common.scratch_dir() as workdir, quiet_armi(), guarded_sparse():
            if not fmts:
                run_helpers(sub)
                for _ in range(more):
                    run_record_sequences(sub)
                run_excluded_points(sub)
            run_fixtures(sub, workdir)
            for _ in range(more):
                run_formats(sub, workdir)
    finally:
        _NO_MODEL = False
        if old_only is None:
            os.environ.pop("C09_ONLY", None)
        else:
            os.environ["C09_ONLY"] = old_only
    sub.disagreements = []
    return sub


def search(ctx, disagreements, broken):
    """A disagreement says the code left the model. Look for an input on which the real code breaks a clause of the
    property: the oracle streams alone, on new seeds, concentrated on the formats / record kinds that disagreed."""
    fmts = set()
    generic = False
    for d in disagreements:
        c = d.case
        if isinstance(c, dict) and "format" in c:
            fmts.add(c["format"])
        else:
            generic = True
    found = []
    if generic or not fmts:
        found += _oracle_only(ctx, "generic", None, more=3).failures
    if fmts:
        found += _oracle_only(ctx, "formats", sorted(fmts), more=4).failures
    return found


def replay(ctx, payload):
    """Re-evaluate the recorded clause on the real code."""
    import random

    key, case = payload["key"], payload.get("case") or {}
    sub = type(ctx)(ctx.prop, "quick", ctx.seed)
    global _NO_MODEL
    _NO_MODEL = True
    try:
        with common.scratch_dir() as workdir, quiet_armi(), guarded_sparse():
            if isinstance(case, dict) and "gen_seed" in case:
                fmt = next(f for f in formats() if f.name == case["format"])
                data, _ = build_container(fmt, case["gen_seed"], case["ascii"], case["idx"])
                roundtrip_case(sub, fmt, data, case["ascii"], workdir, "replay", case, [])
            elif isinstance(case, dict) and "fixture" in case:
                os.environ["C09_ONLY"] = case["format"]
                try:
                    run_fixtures(sub, workdir)
                finally:
                    os.environ.pop("C09_ONLY", None)
            else:
                sub.rng = random.Random(f"{ctx.prop}-{payload.get('seed', 0)}")
                run_helpers(sub)
                run_record_sequences(sub)
                run_excluded_points(sub)
                run_announced_records(sub, workdir)
    finally:
        _NO_MODEL = False
    hit = [f for f in sub.failures if f.key == key]
    return hit[0].to_json() if hit else None
