"""C10 - XS libraries merge losslessly / order-independently / conflicts rejected; macroscopic data are
number-density-weighted sums.

Theorems: lean/ArmiVerif/Props/C10.lean over lean/ArmiVerif/Model/XsLib.lean.
Tie (1) merge: generated library sets (group counts, nuclide labels with XS-ID suffixes, optional
reactions, sparse scatter, injected conflicts) built through the real IsotxsLibrary / XSNuclide /
XSCollection classes plus the fixture libraries of armi/nuclearDataIO/tests/fixtures, merged into a fresh
library in every order (<= 5 libraries); after every merge attempt the canonical state of the real target
is compared with the model's (`mergeseq`; `mergeall` = going on after rejected merges; `mergeallchi` = with
file-wide chi).  Oracle on the real objects: union of labels, payload identity with the source, order
independence of success and content, conflict => rejected, rejected => target unchanged (snapshot before /
after), per step when the sequence goes on after a rejection; every conflict kind x position of the
conflicting nuclide; libraries with zero / one nuclide (hand-over of group structure and file metadata:
numGroups, metadata blocks, file names); the working-directory flow on scratch copies of the fixture files.  `wf`: the
theorems' hypothesis Lib.WF evaluated by the model on every library merged.
Tie (2) macros: computeMacroscopicGroupConstants (also with multLib) / energy deposition / generation
constants / MacroscopicCrossSectionCreator piece by piece AND as one model call (`creator`: densities
filter, nucNames, lookups, neutron / gamma) vs the Rat model on generated compositions (zero densities,
nuclides missing from the library, missing reactions); oracle: direct Fraction sums, linearity,
additivity, derived sums, block-average chi.
"""
import itertools
import json
from fractions import Fraction

import numpy as np

from harness.common import Failure, frac, lean_run, rat

PROP_MODULES = ["ArmiVerif.Props.C10"]
BUILD_TARGETS = ["ArmiVerif.Model.XsLib"]
PARTIAL = ("payloads (arrays, strings, dicts) are identities: equality of payloads (numpyHackForEqual) is a parameter "
           "interned by the harness (quirk outside the domain: an EMPTY ndarray compares equal to any non-array value); "
           "FILE-WIDE CHI: transcribed (Lib.mergeChi / mergeAllChi incl. the chiFlag side effect of _getSkippedKeys on both "
           "libraries) and compared state by state with the real merges, proved a conservative extension of the chi-free "
           "model and to leave every fissile nuclide with its own chi when a chi is dropped; order independence / union / "
           "identity are PROVED ONLY for libraries without a file-wide chi (with one they are judged by the oracle: run_chi, "
           "all orders, write/read round trip); fisFlag outside {absent, 0, 1} is outside the chi model; higherOrderScatter and "
           "nOrderProductionMatrix are outside the model (oracle only); neutronVelocity and libraryLabel are "
           "first-one-wins by design and excluded from 'content'; 'rejected merges leave the target unchanged' is proved "
           "only for the cases of merge_failure_atomic_partial / merge_failure_keeps_metadata, BOUNDED by merge_failure_frame / "
           "merge_properties_frame / merge_keeps_WF and REFUTED in general (three witnesses = three known findings); 'zero for "
           "an empty composition' holds for the defining sum, the code returns None (known finding); macroscopic layer over "
           "exact rationals, floating-point rounding not proved (tolerance 1e-9 of the largest component); compositions where "
           "only some contributing nuclides lack the requested data are judged by the oracle alone; diffusionConstants "
           "compared by oracle only; the creator model rejects vectors whose length differs from ng (numpy would broadcast a "
           "length-1 array); mergeXSLibrariesInWorkingDirectory / getISOTXSLibrariesToMerge (file selection, dummy nuclides, "
           "file I/O) are outside the Lean model: oracle only, on scratch copies of the fixture files")
ASSUMPTIONS = [
    "numpyHackForEqual(a, b) <=> equal interned identity (same shape/content); NaN-free payloads",
    "metadata dicts hold no None values and no file-wide chi on the modelled domain",
    "scipy.sparse / numpy arithmetic is exact on the short dyadic inputs generated (sums of products of dyadics)",
]

PROPS = ["neutronDoseConversionFactors", "neutronEnergyUpperBounds", "neutronVelocity",
         "gammaEnergyUpperBounds", "gammaDoseConversionFactors"]
ATTRS = ["neutronHeating", "neutronDamage", "gammaHeating", "isotropicProduction", "linearAnisotropicProduction"]
SCAT = ("elasticScatter", "inelasticScatter", "n2nScatter", "elasticScatter1stOrder", "totalScatter")
FIX = None


def op(name):
    """driver op following the code that is present: with the rollback of notes/candidate-fixes-C10/atomic-merge-rollback.diff
    applied (IsotxsLibrary._rememberStateForRollback exists) the model is Lib.mergeAtomic (target restored on rejection)"""
    from armi.nuclearDataIO import xsLibraries
    return name + ("A" if hasattr(xsLibraries.IsotxsLibrary, "_rememberStateForRollback") else "")


# ----------------------------------------------------------------------------- interning
class Intern:
    def __init__(self):
        # reserved ids of Model/XsLib.lean (keyChi .. keyChiFlag, valFalsy, valZero, valOne)
        self.keys = {"chi": 0, "libraryLabel": 1, "fileWideChiFlag": 2, "fisFlag": 3, "chiFlag": 4}
        self.vals = {("s", ""): 0, ("n", 0.0): 1, ("n", 1.0): 2}
        self.labels = {}
        self.files = {}

    @staticmethod
    def ckey(v):
        from scipy import sparse
        if isinstance(v, str):
            return ("s", str(v))
        if sparse.issparse(v):
            v = v.toarray()
        if isinstance(v, np.ndarray):
            if v.dtype.kind in "fiub":
                return ("a", v.shape, np.ascontiguousarray(v, dtype=float).tobytes())
            return ("o", v.shape, repr(v.tolist()))
        if isinstance(v, dict):
            return ("d", tuple(sorted((repr(k), Intern.ckey(x)) for k, x in v.items())))
        if isinstance(v, (list, tuple)):
            return ("l", tuple(Intern.ckey(x) for x in v))
        if isinstance(v, (bool, int, float, np.number)):
            return ("n", float(v))
        return ("r", repr(v))

    def _get(self, table, k):
        if k not in table:
            table[k] = len(table)
        return table[k]

    def key(self, k):
        return self._get(self.keys, str(k))

    def val(self, v):
        return self._get(self.vals, self.ckey(v))

    def label(self, l):
        return self._get(self.labels, str(l))

    def file(self, f):
        return self._get(self.files, str(f))


# ----------------------------------------------------------------------------- real objects
def coll_attrs():
    from armi.nuclearDataIO import xsCollections
    return [k for k in xsCollections.XSCollection(parent=None).__dict__ if k not in ("source", "higherOrderScatter")]


def to_payload(name, v, fresh_defaults=False):
    """JSON-able spec value -> the object stored on the real classes.
    ["DEFAULT", n] = the shared zero vector XSCollection.getDefaultXs(n) the ISOTXS reader stores for absent reactions
    (fresh_defaults: an independent zero array instead, for reference copies never handed to the implementation)."""
    from scipy import sparse
    if isinstance(v, list) and len(v) == 2 and v[0] == "DEFAULT":
        from armi.nuclearDataIO import xsCollections
        return np.zeros(v[1]) if fresh_defaults else xsCollections.XSCollection.getDefaultXs(v[1])
    if name == "higherOrderScatter":     # {key: matrix} as the ISOTXS / GAMISO readers store Legendre orders > 0
        return {k: sparse.csr_matrix(np.array(m, dtype=float)) for k, m in v.items()}
    if name == "nOrderProductionMatrix":  # {order: matrix} of the PMATRX reader
        return {k: np.array(m, dtype=float) for k, m in v.items()}
    if isinstance(v, list):
        a = np.array(v, dtype=float)
        if name in SCAT:
            return sparse.csr_matrix(a)
        return a
    return v


def build(spec, fresh_defaults=False):
    """spec (JSON-able) -> a real IsotxsLibrary built through the public classes."""
    from armi.nuclearDataIO import xsLibraries, xsNuclides
    lib = xsLibraries.IsotxsLibrary()
    for name, v in spec.get("props", {}).items():
        setattr(lib, name, None if v is None else np.array(v, dtype=float))
    for mname in ("isotxsMetadata", "pmatrxMetadata", "gamisoMetadata"):
        m = spec.get(mname)
        if m:
            md = getattr(lib, mname)
            for k, v in m["data"].items():
                md[k] = to_payload(k, v)
            md.fileNames = list(m.get("files", []))
    for label, n in spec.get("nucs", []):
        nuc = xsNuclides.XSNuclide(lib, label)
        for mname in ("isotxsMetadata", "gamisoMetadata", "pmatrxMetadata"):
            for k, v in n.get(mname, {}).items():
                getattr(nuc, mname)[k] = to_payload(k, v)
        for cname in ("micros", "gammaXS"):
            for k, v in n.get(cname, {}).items():
                setattr(getattr(nuc, cname), k, to_payload(k, v, fresh_defaults))
        for k, v in n.get("attrs", {}).items():
            setattr(nuc, k, to_payload(k, v))
        lib[label] = nuc
    return lib


def load_fixture(name):
    import copy
    global FIX
    from armi.nuclearDataIO.cccc import gamiso, isotxs, pmatrx
    if FIX is None:
        import os
        import armi
        fx = os.path.join(os.path.dirname(armi.__file__), "nuclearDataIO", "tests", "fixtures")
        FIX = {"isoAA": isotxs.readBinary(os.path.join(fx, "ISOAA")), "isoAB": isotxs.readBinary(os.path.join(fx, "ISOAB")),
               "gamAA": gamiso.readBinary(os.path.join(fx, "AA.gamiso")), "gamAB": gamiso.readBinary(os.path.join(fx, "AB.gamiso")),
               "pmAA": pmatrx.readBinary(os.path.join(fx, "AA.pmatrx")), "pmAB": pmatrx.readBinary(os.path.join(fx, "AB.pmatrx"))}
    if name.startswith("f7:"):
        # DESIGN section 6 F7: ISOAB plus, LAST, a nuclide whose label collides with ISOAA's first label
        other = copy.deepcopy(FIX["isoAB"])
        aa = copy.deepcopy(FIX["isoAA"])
        lab = aa.nuclideLabels[0]
        other[lab] = aa[lab]
        return other
    return copy.deepcopy(FIX[name])


def make_lib(item):
    """item: a library spec or {"fixture": name}; "delete": [labels] | "ALL" | "ALL-BUT-ONE" removes nuclides from the finished
    library through IsotxsLibrary.__delitem__ (what purgeFissionProducts does): group structure and file metadata stay"""
    lib = load_fixture(item["fixture"]) if "fixture" in item else build(item)
    dele = item.get("delete")
    if dele:
        labels = lib.nuclideLabels
        for lab in (labels if dele == "ALL" else labels[1:] if dele == "ALL-BUT-ONE" else dele):
            del lib[lab]
    return lib


def read_prop(lib, name):
    """'_' attribute never assigned, 'N' holds None, else the value (public getter on the locked object)."""
    from armi.utils import properties
    try:
        v = getattr(lib, name)
    except properties.ImmutablePropertyError:
        return "_"
    return "N" if v is None else v


def snap_meta(it, md):
    return tuple(sorted((it.key(k), it.val(v)) for k, v in md.items() if v is not None))


def snap_coll(it, coll, attrs):
    slots = tuple("N" if coll.__dict__.get(a) is None else it.val(coll.__dict__[a]) for a in attrs)
    return () if all(s == "N" for s in slots) else slots


def snap(it, lib, attrs, keep_order=False):
    """Canonical, hashable state of a real library (the observable level of the property)."""
    props = tuple((lambda v: v if isinstance(v, str) else it.val(v))(read_prop(lib, p)) for p in PROPS)
    metas = tuple((snap_meta(it, getattr(lib, m)), tuple(sorted(it.file(f) for f in getattr(lib, m).fileNames)))
                  for m in ("isotxsMetadata", "pmatrxMetadata", "gamisoMetadata"))
    nucs = []
    for lab in lib.nuclideLabels:
        n = lib[lab]
        nucs.append((it.label(lab), snap_meta(it, n.isotxsMetadata), snap_meta(it, n.gamisoMetadata),
                     snap_meta(it, n.pmatrxMetadata), snap_coll(it, n.micros, attrs), snap_coll(it, n.gammaXS, attrs),
                     tuple("N" if getattr(n, a) is None else it.val(getattr(n, a)) for a in ATTRS)))
    if len({x[0] for x in nucs}) != len(nucs):
        raise AssertionError("duplicate labels in a library")
    return (props, metas, tuple(nucs) if keep_order else tuple(sorted(nucs)))


def extra_fingerprint(it, lib):
    """payload outside the model (oracle only): higher-order scatter and n-order production matrices"""
    out = []
    for lab in lib.nuclideLabels:
        n = lib[lab]
        out.append((it.label(lab), it.val(dict(n.micros.higherOrderScatter)), it.val(dict(n.gammaXS.higherOrderScatter)),
                    it.val(dict(n.nOrderProductionMatrix))))
    return tuple(sorted(out))


def enc(x):
    if isinstance(x, tuple):
        return "[" + ",".join(enc(y) for y in x) + "]"
    return str(x)


def enc_lib(s):
    props, metas, nucs = s
    return "[" + enc(props) + "," + ",".join(enc(m) for m in metas) + "," + enc(nucs) + "]"


def content(s):
    """order-independent content: velocity (first one wins) and libraryLabel (first non-empty wins) masked,
    'never assigned' and 'None' identified."""
    props, metas, nucs = s
    p = tuple("N" if (i == 2 or v == "_") else v for i, v in enumerate(props))
    m = tuple((tuple(kv for kv in d if kv[0] != 1), f) for d, f in metas)
    return (p, m, nucs)


# ----------------------------------------------------------------------------- generators
def dy(rng, lo, hi, bits=3):
    n = 1 << bits
    return rng.randint(int(lo * n), int(hi * n)) / n


def gen_bounds(rng, ng, salt=0):
    top = 2.0 ** (ng + 2 + salt)
    return [top / (2 ** g) for g in range(ng)]


BASES = ["U235", "U238", "PU39", "FE56", "NA23", "ZR90", "O16", "B10", "C", "MO"]
VECS = ["nGamma", "fission", "n2n", "nalph", "np", "nd", "nt", "chi", "neutronsPerFission", "strpd"]


def gen_collection(rng, ng, gamma=False):
    d = {}
    for a in VECS:
        if rng.random() < 0.6:
            d[a] = [dy(rng, 0, 4) for _ in range(ng)]
    if rng.random() < 0.7:
        d["total"] = [[dy(rng, 0, 8) for _ in range(2)] for _ in range(ng)]
        d["transport"] = [[dy(rng, 1, 8)] for _ in range(ng)]
    for a in (("elasticScatter",) if gamma else ("elasticScatter", "inelasticScatter", "n2nScatter")):
        if rng.random() < 0.6:
            d[a] = [[dy(rng, 0, 2) if (rng.random() < 0.4 and j <= i + 1) else 0.0 for j in range(ng)] for i in range(ng)]
    if not d:
        d["nGamma"] = [dy(rng, 0, 4) for _ in range(ng)]
    if rng.random() < 0.35:   # higher Legendre orders (outside the Lean model; oracle: kept identical to the source)
        d["higherOrderScatter"] = {f"{kind}-{order}": [[dy(rng, 0, 2) if rng.random() < 0.5 else 0.0 for _ in range(ng)] for _ in range(ng)]
                                   for kind in rng.sample(["elastic", "inelastic", "n2n"], rng.randint(1, 2))
                                   for order in range(1, rng.randint(2, 3))}
    return d


def gen_nuc_meta(rng, kind):
    if kind == "iso":
        return {"nuclideId": rng.choice(["A", "B"]), "amass": dy(rng, 1, 240), "fisFlag": rng.randint(0, 1), "chiFlag": 0,
                "ords": [1, 1], "jband": {"(0, 0)": 1}}
    if kind == "gam":
        return {"nuclideId": "G", "amass": dy(rng, 1, 240), "temp": 300.0}
    return {"hasNeutronHeatingAndDamage": True, "maxScatteringOrder": rng.randint(1, 2), "activationXS": []}


def gen_lib(rng, kind, suffix, bases, ng, ngam, fname, nsalt=0, gsalt=0, dcf=False):
    """one file-like library: kind in iso | gam | pm"""
    spec = {"props": {}, "nucs": []}
    if kind == "iso":
        spec["props"]["neutronEnergyUpperBounds"] = gen_bounds(rng, ng, nsalt)
        spec["props"]["neutronVelocity"] = [dy(rng, 1, 64) for _ in range(ng)]
        spec["isotxsMetadata"] = {"data": {"label": "ISOTXS", "numGroups": ng + nsalt, "maxScatteringOrder": 1,
                                           "fileWideChiFlag": 0, "libraryLabel": rng.choice(["", "", "libX", "libY"])},
                                  "files": [fname]}
    elif kind == "gam":
        spec["props"]["gammaEnergyUpperBounds"] = gen_bounds(rng, ngam, gsalt)
        spec["gamisoMetadata"] = {"data": {"label": "ISOTXS", "numGroups": ngam + gsalt, "libraryLabel": "",
                                           "gammaVelocity..NOT": [1.0] * ngam}, "files": [fname]}
    else:
        spec["props"]["neutronEnergyUpperBounds"] = gen_bounds(rng, ng, nsalt)
        spec["props"]["gammaEnergyUpperBounds"] = gen_bounds(rng, ngam, gsalt)
        if dcf:
            spec["props"]["neutronDoseConversionFactors"] = [dy(rng, 0, 4) for _ in range(ng)]
            spec["props"]["gammaDoseConversionFactors"] = [dy(rng, 0, 4) for _ in range(ngam)]
        spec["pmatrxMetadata"] = {"data": {"numGammaGroups": ngam + gsalt, "numNeutronGroups": ng + nsalt,
                                           "hasDoseConversionFactor": bool(dcf)}, "files": [fname]}
    for b in bases:
        n = {}
        if kind == "iso":
            n["isotxsMetadata"] = gen_nuc_meta(rng, "iso")
            n["micros"] = gen_collection(rng, ng)
        elif kind == "gam":
            n["gamisoMetadata"] = gen_nuc_meta(rng, "gam")
            n["gammaXS"] = gen_collection(rng, ngam, gamma=True)
        else:
            n["pmatrxMetadata"] = gen_nuc_meta(rng, "pm")
            a = {}
            if rng.random() < 0.8:
                a["neutronHeating"] = [dy(rng, 0, 4) for _ in range(ng)]
                a["neutronDamage"] = [dy(rng, 0, 4) for _ in range(ng)]
            if rng.random() < 0.8 or not a:
                a["gammaHeating"] = [dy(rng, 0, 4) for _ in range(ngam)]
            if rng.random() < 0.6:
                a["isotropicProduction"] = [[dy(rng, 0, 2) for _ in range(ng)] for _ in range(ngam)]
            if rng.random() < 0.3:
                a["linearAnisotropicProduction"] = [[dy(rng, 0, 2) for _ in range(ng)] for _ in range(ngam)]
                if rng.random() < 0.6:
                    a["nOrderProductionMatrix"] = {str(o): [[dy(rng, 0, 2) for _ in range(ng)] for _ in range(ngam)] for o in (2, 3)}
            n["attrs"] = a
        spec["nucs"].append([b + suffix, n])
    return spec


def spec_union(a, b):
    """what a successful merge of two conflict-free file-like specs holds (used to build 'already merged' inputs)"""
    out = json.loads(json.dumps(a))
    for k, v in b.get("props", {}).items():
        out["props"].setdefault(k, v)
    for m in ("isotxsMetadata", "pmatrxMetadata", "gamisoMetadata"):
        if m in b and m not in out:
            out[m] = json.loads(json.dumps(b[m]))
    have = {l: n for l, n in out["nucs"]}
    for l, n in b["nucs"]:
        if l in have:
            for k, v in n.items():
                have[l].setdefault(k, json.loads(json.dumps(v)))
        else:
            out["nucs"].append([l, json.loads(json.dumps(n))])
    return out


def gen_scenario(rng, ctx, cap=4):
    """a list of 2..cap library specs + a tag naming the injected conflict (or 'clean')"""
    ng = rng.choice([1, 2, 3, 4]) if not ctx.thorough else rng.choice([1, 2, 3, 4, 6, 9, 33])
    ngam = rng.choice([1, 2, 3])
    sufs = rng.sample(["AA", "AB", "BA", "ZZ"], rng.choice([1, 2, 2]) if cap <= 4 else rng.choice([2, 3]))
    pool = []
    basesets = {}
    for s in sufs:
        bases = rng.sample(BASES, rng.randint(1, 4))
        basesets[s] = bases
        pool.append(gen_lib(rng, "iso", s, bases, ng, ngam, "ISO" + s))
        if rng.random() < 0.6:
            pool.append(gen_lib(rng, "gam", s, rng.sample(bases, rng.randint(1, len(bases))), ng, ngam, s + ".gamiso"))
        if rng.random() < 0.6:
            pool.append(gen_lib(rng, "pm", s, rng.sample(bases, rng.randint(1, len(bases))), ng, ngam, s + ".pmatrx",
                                dcf=rng.random() < 0.4))
    # harmonise library labels so that a clean scenario is really clean under content comparison
    rng.shuffle(pool)
    if len(pool) > 2 and rng.random() < 0.35:
        a = pool.pop()
        b = pool.pop()
        ka = {m for m in ("isotxsMetadata", "pmatrxMetadata", "gamisoMetadata") if m in a}
        kb = {m for m in ("isotxsMetadata", "pmatrxMetadata", "gamisoMetadata") if m in b}
        if ka & kb:
            pool += [a, b]
        else:
            pool.append(spec_union(a, b))
    tag = "clean"
    r = rng.random() * 1.25   # ~45 % clean scenarios
    s0 = sufs[0]
    if r < 0.10:
        tag = "dup-library"
        pool.append(json.loads(json.dumps(rng.choice(pool))))
    elif r < 0.22:
        tag = "late-nuclide-collision"
        # a library of a NEW suffix whose LAST nuclide carries an existing label with the same kind of data
        extra = gen_lib(rng, "iso", "QQ", rng.sample(BASES, rng.randint(1, 3)), ng, ngam, "ISOQQ")
        victim = gen_lib(rng, "iso", s0, [rng.choice(basesets[s0])], ng, ngam, "x")["nucs"][0]
        extra["nucs"].append(victim)
        pool.append(extra)
    elif r < 0.32:
        # same kind of file, bounds differ (same count scaled by 1.05 / shifted / other count); the file metadata is made
        # IDENTICAL to an existing library's so that only the write-once energy bounds can detect the conflict
        mode = rng.choice(["scaled", "scaled", "shifted", "count"])
        tag = "neutron-group-structure-" + mode
        kind = rng.choice(["iso", "iso", "pm"])
        x = gen_lib(rng, kind, "QQ", rng.sample(BASES, 2), ng + (1 if mode == "count" else 0), ngam, "ISOQQ",
                    nsalt=1 if mode == "shifted" else 0, dcf=rng.random() < 0.7)
        if mode == "scaled":
            x["props"]["neutronEnergyUpperBounds"] = [b * 1.05 for b in x["props"]["neutronEnergyUpperBounds"]]
        mname = "isotxsMetadata" if kind == "iso" else "pmatrxMetadata"
        donor = next((p for p in pool if mname in p), None)
        if donor is not None:
            x[mname]["data"] = json.loads(json.dumps(donor[mname]["data"]))
        pool.append(x)
    elif r < 0.40:
        mode = rng.choice(["scaled", "scaled", "shifted", "count"])
        tag = "gamma-group-structure-" + mode
        pool.append(gen_lib(rng, "gam", s0, [basesets[s0][0]], ng, ngam, s0 + ".gamiso"))
        kind = rng.choice(["gam", "pm"])
        x = gen_lib(rng, kind, "QQ", rng.sample(BASES, 2), ng, ngam + (1 if mode == "count" else 0), "QQ.gamiso",
                    gsalt=1 if mode == "shifted" else 0)
        if mode == "scaled":
            x["props"]["gammaEnergyUpperBounds"] = [b * 1.05 for b in x["props"]["gammaEnergyUpperBounds"]]
        mname = "gamisoMetadata" if kind == "gam" else "pmatrxMetadata"
        donor = next((p for p in pool if mname in p), None)
        if donor is not None:
            x[mname]["data"] = json.loads(json.dumps(donor[mname]["data"]))
        pool.append(x)
    elif r < 0.46:
        tag = "library-metadata-differs"
        x = gen_lib(rng, "iso", "QQ", rng.sample(BASES, 2), ng, ngam, "ISOQQ")
        if rng.random() < 0.5:
            x["isotxsMetadata"]["data"]["maxScatteringOrder"] = 5
        elif rng.random() < 0.5:
            del x["isotxsMetadata"]["data"]["label"]
        else:
            x["isotxsMetadata"]["data"]["extraKey"] = 3
        pool.append(x)
    elif r < 0.53:
        tag = "nuclide-metadata-differs"
        # same label: one side iso data, other side gamma data but ALSO a (different) iso metadata
        b = basesets[s0][0]
        x = gen_lib(rng, "gam", s0, [b], ng, ngam, "x.gamiso")
        x["nucs"][0][1]["isotxsMetadata"] = {"nuclideId": "C", "amass": 1.5}
        x["props"] = {}
        x.pop("gamisoMetadata", None)
        pool.append(x)
    elif r < 0.60:
        tag = "disjoint-attributes-same-kind"
        b = basesets[s0][0]
        x = gen_lib(rng, "iso", s0, [b], ng, ngam, "ISO" + s0)
        src = next(p for p in pool if any(l == b + s0 and "micros" in n for l, n in p["nucs"]))
        srcn = next(n for l, n in src["nucs"] if l == b + s0)
        x["nucs"][0][1]["isotxsMetadata"] = json.loads(json.dumps(srcn.get("isotxsMetadata", {})))
        x["nucs"][0][1]["micros"] = {"nuSigF": [dy(rng, 0, 4) for _ in range(ng)]}
        x.pop("isotxsMetadata", None)
        pool.append(x)
    elif r < 0.68:
        tag = "merged-other-partial-nuclide"
        # other = (gam + iso copy) of an existing label: gamiso metadata is assigned before micros collide
        b = basesets[s0][0]
        src = next(p for p in pool if any(l == b + s0 and "micros" in n for l, n in p["nucs"]))
        srcn = next(n for l, n in src["nucs"] if l == b + s0)
        x = gen_lib(rng, "gam", s0, [b], ng, ngam, "y.gamiso")
        x["nucs"][0][1]["isotxsMetadata"] = json.loads(json.dumps(srcn.get("isotxsMetadata", {})))
        x["nucs"][0][1]["micros"] = gen_collection(rng, ng)
        x["props"] = {}
        x.pop("gamisoMetadata", None)
        pool.append(x)
    if tag != "clean":
        last = pool.pop()
        rng.shuffle(pool)
        pool = pool[:cap - 1] + [last]
        rng.shuffle(pool)
    else:
        rng.shuffle(pool)
        pool = pool[:cap]
    if len(pool) < 2:
        pool.append(gen_lib(rng, "iso", "YY", rng.sample(BASES, 2), ng, ngam, "ISOYY"))
    return pool, tag


# ----------------------------------------------------------------------------- merge oracle
def kinds_of(s):
    """label -> set of data kinds a snapshot holds for it"""
    out = {}
    for n in s[2]:
        k = set()
        if n[4]:
            k.add("micros")
        if n[5]:
            k.add("gammaXS")
        for i, a in enumerate(n[6]):
            if a != "N":
                k.add(ATTRS[i])
        out[n[0]] = k
    return out


def expected_conflict(snaps):
    """the property's notion of conflicting inputs, from the source snapshots alone"""
    for i in (0, 1, 3, 4):  # all write-once properties except the velocity
        vals = {s[0][i] for s in snaps if s[0][i] not in ("_", "N")}
        if len(vals) > 1:
            return "group-structure"
    seen = {}
    for s in snaps:
        for lab, ks in kinds_of(s).items():
            if seen.setdefault(lab, set()) & ks:
                return "same-kind-twice"
            seen[lab] |= ks
    # file metadata of the same kind held by two libraries must agree EXACTLY under every ordinary key
    # (group counts, velocity / boundary arrays ...): they describe the group structure
    for blk in range(3):
        metas = [tuple(kv for kv in s[1][blk][0] if kv[0] not in (0, 1)) for s in snaps if s[1][blk][0]]
        if len(set(metas)) > 1:
            return "library-metadata-differs"
    nm = {}
    for s in snaps:
        for n in s[2]:
            for f in (1, 2, 3):
                if n[f] and nm.setdefault((n[0], f), n[f]) != n[f]:
                    return "nuclide-metadata-differs"
    return None


def metadata_clause(fin, sources, case, sink):
    """file metadata of the merged library: each block (ISOTXS / PMATRX / GAMISO) is the sources' block when they agree
    (chi / libraryLabel aside) and the file names are the sources' file names"""
    for blk, name in enumerate(("isotxsMetadata", "pmatrxMetadata", "gamisoMetadata")):
        holders = {tuple(kv for kv in s[1][blk][0] if kv[0] not in (0, 1)) for s in sources if s[1][blk][0]}
        got = tuple(kv for kv in fin[1][blk][0] if kv[0] not in (0, 1))
        if (len(holders) == 1 and got != next(iter(holders))) or (not holders and got):
            sink("merge-file-metadata-kept", f"{name} of the merged library identical to the sources'", case, got, sorted(map(str, holders)))
        files = sorted(f for s in sources for f in s[1][blk][1])
        if sorted(fin[1][blk][1]) != files:
            sink("merge-file-metadata-kept", f"{name}.fileNames of the merged library = the sources' file names", case,
                 sorted(fin[1][blk][1]), files)


def run_order(it, attrs, items, order):
    """merge items[order] into a fresh library; returns (n_ok, all_ok, snapshots list incl. before/after, final lib)"""
    from armi.nuclearDataIO import xsLibraries
    target = xsLibraries.IsotxsLibrary()
    nok, ok = 0, True
    before = after = None
    for idx in order:
        other = make_lib(items[idx])
        before = snap(it, target, attrs)
        try:
            target.merge(other)
        except Exception as e:  # noqa: the property does not name the error class
            ok = False
            after = snap(it, target, attrs)
            err = type(e).__name__
            break
        nok += 1
    final = snap(it, target, attrs)
    return {"nok": nok, "ok": ok, "final": final, "before": before if not ok else None, "after": after,
            "err": None if ok else err, "extra": extra_fingerprint(it, target) if ok else None, "lib": target}


def atomic_key(before, after):
    if before[2] != after[2]:
        bl = {n[0] for n in before[2]}
        al = {n[0] for n in after[2]}
        if al - bl:
            return "rejected-merge-keeps-earlier-nuclides"
        return "rejected-merge-keeps-partial-nuclide-fields"
    if before[0] != after[0]:
        return "rejected-merge-keeps-earlier-properties"
    return "rejected-merge-changes-metadata"


def oracle_scenario(ctx, it, attrs, items, tag, case_id, orders, sink):
    """evaluate the property's clauses on the real classes for all given orders; sink(key, clause, case, obs, exp)"""
    srcs = [snap(it, make_lib(x), attrs) for x in items]
    srcs_ordered = [snap(it, make_lib(x), attrs, keep_order=True) for x in items]
    src_extra = [extra_fingerprint(it, make_lib(x)) for x in items]
    src_groups = []
    for x in items:
        lib0 = make_lib(x)
        src_groups.append((lib0.numGroups, lib0.numGroupsGamma))
    conflict = expected_conflict(srcs)
    results = {}
    for order in orders:
        r = run_order(it, attrs, items, order)
        results[order] = r
        case = {"libs": items, "order": list(order), "tag": tag}
        if r["ok"]:
            fin = r["final"]
            want = set()
            for i in order:
                want |= {n[0] for n in srcs[i][2]}
            got = [n[0] for n in fin[2]]
            if set(got) != want or len(got) != len(set(got)):
                sink("merge-labels-union", "merged library holds exactly the union of the nuclide labels", case,
                     sorted(got), sorted(want))
            # payload identity: every field of every nuclide equals the field of the (unique) source holding it
            for n in fin[2]:
                for f in range(1, 6):
                    holders = {s_n[f] for i in order for s_n in srcs[i][2] if s_n[0] == n[0] and s_n[f]}
                    if (len(holders) == 1 and n[f] != next(iter(holders))) or (not holders and n[f]):
                        sink("merge-payload-identity", "nuclide data/metadata identical to its source", case,
                             {"label": n[0], "field": f, "got": n[f]}, sorted(map(str, holders)))
                for a in range(5):
                    holders = {s_n[6][a] for i in order for s_n in srcs[i][2] if s_n[0] == n[0] and s_n[6][a] != "N"}
                    if (len(holders) == 1 and n[6][a] != next(iter(holders))) or (not holders and n[6][a] != "N"):
                        sink("merge-payload-identity", "nuclide attribute identical to its source", case,
                             {"label": n[0], "attr": ATTRS[a], "got": n[6][a]}, sorted(map(str, holders)))
            ex = {}
            for i in order:
                for row in src_extra[i]:
                    for j in (1, 2, 3):
                        if row[j] != it.val({}):
                            ex.setdefault((row[0], j), set()).add(row[j])
            for row in r["extra"]:
                for j in (1, 2, 3):
                    h = ex.get((row[0], j), set())
                    if len(h) == 1 and row[j] != next(iter(h)):
                        sink("merge-payload-identity-higher-order", "higher-order scatter / n-order production kept", case,
                             {"label": row[0], "slot": j}, None)
            # write-once properties: the value of whichever source set it
            for pi in (0, 1, 3, 4):
                vals = {srcs[i][0][pi] for i in order if srcs[i][0][pi] not in ("_", "N")}
                if len(vals) == 1 and fin[0][pi] != next(iter(vals)):
                    sink("merge-group-structure-kept", "group structure / dose factors identical to the source", case,
                         fin[0][pi], next(iter(vals)))
            # hand-over of the group structure and of the file metadata (also from / to libraries without nuclides)
            for gi, attr in ((0, "numGroups"), (1, "numGroupsGamma")):
                counts = {src_groups[i][gi] for i in order if src_groups[i][gi]}
                if len(counts) <= 1 and getattr(r["lib"], attr) != (next(iter(counts)) if counts else 0):
                    sink("merge-group-structure-kept", f"{attr} of the merged library is the sources' group count", case,
                         getattr(r["lib"], attr), sorted(counts))
            metadata_clause(fin, [srcs[i] for i in order], case, sink)
            if conflict and len(order) == len(items):
                sink("merge-conflict-accepted", f"conflicting inputs ({conflict}) must be rejected, never combined", case,
                     "merge succeeded", "exception")
        else:
            if r["before"] != r["after"]:
                sink(atomic_key(r["before"], r["after"]), "a rejected merge leaves the target unchanged", case,
                     {"error": r["err"], "merges_ok_before": r["nok"]}, "target snapshot unchanged")
    full = [o for o in orders if len(o) == len(items)]
    oks = {results[o]["ok"] for o in full}
    if len(oks) > 1:
        good = next(o for o in full if results[o]["ok"])
        bad = next(o for o in full if not results[o]["ok"])
        sink("merge-success-order-dependent", "whether a set of libraries merges does not depend on the order",
             {"libs": items, "order": list(bad), "tag": tag}, {"rejected": list(bad), "accepted": list(good)}, None)
    cont = {}
    for o in full:
        if results[o]["ok"]:
            cont.setdefault((content(results[o]["final"]), results[o]["extra"]), o)
    if len(cont) > 1:
        a, b = list(cont.values())[:2]
        sink("merge-content-order-dependent", "content of the merged library does not depend on the merge order",
             {"libs": items, "order": list(b), "tag": tag}, {"orders": [list(a), list(b)]}, None)
    return srcs_ordered, results, conflict


def norm_props(s):
    """'never assigned' and 'holds None' identified (an unlocked read gives None for both)"""
    return (tuple("N" if v == "_" else v for v in s[0]), s[1], s[2])


def run_all(it, attrs, items, order):
    """`for o in libs: try: target.merge(o) except Exception: pass` on the real classes: every step's
    (target before, other, accepted?, target after, error) and the final snapshot"""
    from armi.nuclearDataIO import xsLibraries
    target = xsLibraries.IsotxsLibrary()
    steps = []
    for idx in order:
        other = make_lib(items[idx])
        before = snap(it, target, attrs)
        osnap = snap(it, other, attrs)
        oextra = extra_fingerprint(it, other)
        bextra = extra_fingerprint(it, target)
        err = None
        try:
            target.merge(other)
        except Exception as e:  # noqa: the property does not name the error class
            err = type(e).__name__
        steps.append({"before": before, "other": osnap, "ok": err is None, "after": snap(it, target, attrs), "err": err,
                      "extra": (bextra, oextra, extra_fingerprint(it, target))})
    return steps, snap(it, target, attrs)


def oracle_steps(it, steps, case, sink):
    """the property's clauses on every single merge of a sequence that goes on after rejections: the target a library is
    merged into may itself be the survivor of a rejected merge"""
    for k, st in enumerate(steps):
        c = dict(case, step=k)
        b, o, a = st["before"], st["other"], st["after"]
        conflict = expected_conflict([b, o])
        if not st["ok"]:
            if b != a:
                sink(atomic_key(b, a), "a rejected merge leaves the target unchanged", c,
                     {"error": st["err"], "step": k}, "target snapshot unchanged")
            continue
        if conflict:
            sink("merge-conflict-accepted", f"conflicting inputs ({conflict}) must be rejected, never combined", c,
                 "merge succeeded", "exception")
            continue
        bl, ol = {n[0]: n for n in b[2]}, {n[0]: n for n in o[2]}
        got = [n[0] for n in a[2]]
        if set(got) != set(bl) | set(ol) or len(got) != len(set(got)):
            sink("merge-labels-union", "merged library holds exactly the union of the nuclide labels", c, sorted(got),
                 sorted(set(bl) | set(ol)))
        for n in a[2]:
            for f in range(1, 6):
                holders = {x[n[0]][f] for x in (bl, ol) if n[0] in x and x[n[0]][f]}
                if (len(holders) == 1 and n[f] != next(iter(holders))) or (not holders and n[f]):
                    sink("merge-payload-identity", "nuclide data/metadata identical to its source", c,
                         {"label": n[0], "field": f, "got": n[f]}, sorted(map(str, holders)))
            for i in range(5):
                holders = {x[n[0]][6][i] for x in (bl, ol) if n[0] in x and x[n[0]][6][i] != "N"}
                if (len(holders) == 1 and n[6][i] != next(iter(holders))) or (not holders and n[6][i] != "N"):
                    sink("merge-payload-identity", "nuclide attribute identical to its source", c,
                         {"label": n[0], "attr": ATTRS[i], "got": n[6][i]}, sorted(map(str, holders)))
        for pi in (0, 1, 3, 4):
            vals = {x[0][pi] for x in (b, o) if x[0][pi] not in ("_", "N")}
            if len(vals) == 1 and a[0][pi] != next(iter(vals)):
                sink("merge-group-structure-kept", "group structure / dose factors identical to the source", c, a[0][pi], next(iter(vals)))
        metadata_clause(a, [b, o], c, sink)
        bx, ox, ax = st["extra"]
        empty = it.val({})
        src = {}
        for row in bx + ox:
            for j in (1, 2, 3):
                if row[j] != empty:
                    src.setdefault((row[0], j), set()).add(row[j])
        for row in ax:
            for j in (1, 2, 3):
                h = src.get((row[0], j), set())
                if len(h) == 1 and row[j] != next(iter(h)):
                    sink("merge-payload-identity-higher-order", "higher-order scatter / n-order production kept", c,
                         {"label": row[0], "slot": j}, None)


FULL_PM = ("neutronHeating", "neutronDamage", "gammaHeating", "isotropicProduction", "linearAnisotropicProduction")
CONFLICT_KINDS = ("isotxsMetadata", "gamisoMetadata", "pmatrxMetadata", "micros", "gammaXS") + FULL_PM


def positioned_conflicts(rng, ng=2, ngam=2):
    """EVERY kind of nuclide-level conflict x EVERY position of the conflicting nuclide in the other library (first /
    middle / last): the target (ISOTXS + GAMISO + PMATRX data of XS ID AA, all five production attributes set) is offered
    a library of two new nuclides plus one nuclide whose label it already holds and which carries exactly ONE kind of
    data (with consistent metadata) or one differing metadata block.  Returns (items, tag, position)."""
    out = []
    bases = ["U235", "FE56", "NA23"]
    for kind in CONFLICT_KINDS:
        for pos in ("first", "middle", "last"):
            tiso = gen_lib(rng, "iso", "AA", bases, ng, ngam, "ISOAA")
            tgam = gen_lib(rng, "gam", "AA", bases, ng, ngam, "AA.gamiso")
            tpm = gen_lib(rng, "pm", "AA", bases, ng, ngam, "AA.pmatrx")
            for _l, n in tpm["nucs"]:
                n["attrs"] = {"neutronHeating": [dy(rng, 0, 4) for _ in range(ng)], "neutronDamage": [dy(rng, 0, 4) for _ in range(ng)],
                              "gammaHeating": [dy(rng, 0, 4) for _ in range(ngam)],
                              "isotropicProduction": [[dy(rng, 0, 2) for _ in range(ng)] for _ in range(ngam)],
                              "linearAnisotropicProduction": [[dy(rng, 0, 2) for _ in range(ng)] for _ in range(ngam)]}
            victim = rng.choice(bases) + "AA"
            src = {m: json.loads(json.dumps(next(n for l, n in t["nucs"] if l == victim)[m]))
                   for t, m in ((tiso, "isotxsMetadata"), (tgam, "gamisoMetadata"), (tpm, "pmatrxMetadata"))}
            if kind.endswith("Metadata"):
                bad = dict(src[kind])
                # (numpyHackForEqual calls an EMPTY ndarray equal to any non-array value: only scalar entries are replaced)
                bad[rng.choice(sorted(k for k, v in bad.items() if not isinstance(v, (list, dict))))] = "differs"
                n = {kind: bad}
            elif kind == "micros":
                n = {"isotxsMetadata": src["isotxsMetadata"], "micros": gen_collection(rng, ng)}
            elif kind == "gammaXS":
                n = {"gamisoMetadata": src["gamisoMetadata"], "gammaXS": gen_collection(rng, ngam, gamma=True)}
            else:
                shape = (ngam,) if kind == "gammaHeating" else (ng,) if kind.startswith("neutron") else (ngam, ng)
                arr = [dy(rng, 0, 4) for _ in range(shape[0])] if len(shape) == 1 else [[dy(rng, 0, 2) for _ in range(shape[1])] for _ in range(shape[0])]
                n = {"pmatrxMetadata": src["pmatrxMetadata"], "attrs": {kind: arr}}
            fresh = gen_lib(rng, "iso", "QQ", rng.sample(["O16", "B10", "C", "MO"], 2), ng, ngam, "x")["nucs"]
            nucs = list(fresh)
            nucs.insert({"first": 0, "middle": 1, "last": 2}[pos], [victim, n])
            other = {"props": {}, "nucs": nucs}
            out.append(([tiso, tgam, tpm, other], f"positioned-{kind}-{pos}", pos))
    return out


def boundary_scenarios(rng, n_random=0):
    """BOUNDARY SIZES OF THE NUCLIDE SET: libraries with ZERO nuclides (built without any, or purged after construction) or
    ONE nuclide that still carry a group structure and / or file metadata, as the other library, as the (first-merged) target,
    on both sides, and inside sequences of 3-5 libraries; consistent with the rest (hand-over of the structure, nothing else
    changes) or conflicting in neutron / gamma group structure or file metadata (rejected in every order)."""
    out = []

    def strip(spec, how):
        x = json.loads(json.dumps(spec))
        if how == "nonucs":
            x["nucs"] = []
        elif how == "one":
            x["nucs"] = x["nucs"][:1]
        elif how == "purged":
            x["delete"] = "ALL"
        elif how == "one-purged":
            x["delete"] = "ALL-BUT-ONE"
        return x

    def family(r, ng, ngam):
        isoA = gen_lib(r, "iso", "AA", ["U235", "FE56"], ng, ngam, "ISOAA")
        isoB = gen_lib(r, "iso", "AB", ["U238", "NA23"], ng, ngam, "ISOAB")
        isoC = gen_lib(r, "iso", "BA", ["O16"], ng, ngam, "ISOBA")
        gamA = gen_lib(r, "gam", "AA", ["U235"], ng, ngam, "AA.gamiso")
        gamB = gen_lib(r, "gam", "AB", ["U238"], ng, ngam, "AB.gamiso")
        pmA = gen_lib(r, "pm", "AA", ["U235", "FE56"], ng, ngam, "AA.pmatrx", dcf=True)
        pmB = gen_lib(r, "pm", "AB", ["U238"], ng, ngam, "AB.pmatrx", dcf=True)
        for x in (isoA, isoB, isoC):
            x["isotxsMetadata"]["data"] = json.loads(json.dumps(isoA["isotxsMetadata"]["data"]))
            x["isotxsMetadata"]["data"]["libraryLabel"] = ""
        gamB["gamisoMetadata"]["data"] = json.loads(json.dumps(gamA["gamisoMetadata"]["data"]))
        pmB["pmatrxMetadata"]["data"] = json.loads(json.dumps(pmA["pmatrxMetadata"]["data"]))
        pmB["props"] = json.loads(json.dumps(pmA["props"]))
        same = {"iso": isoB, "gam": gamB, "pm": pmB}
        full = {"iso": isoA, "gam": gamA, "pm": pmA}
        hows = ["nonucs", "purged", "one", "one-purged"]

        def conflicting(kind, mode):
            x = json.loads(json.dumps(same[kind]))
            prop = {"iso": "neutronEnergyUpperBounds", "gam": "gammaEnergyUpperBounds",
                    "pm": r.choice(["neutronEnergyUpperBounds", "gammaEnergyUpperBounds"])}[kind]
            if mode == "scaled":
                x["props"][prop] = [b * 1.05 for b in x["props"][prop]]
            elif mode == "count":
                x["props"][prop] = x["props"][prop] + [x["props"][prop][-1] / 2]
            else:
                mname = {"iso": "isotxsMetadata", "gam": "gamisoMetadata", "pm": "pmatrxMetadata"}[kind]
                x[mname]["data"]["extraKey"] = 3
            return x

        for kind in ("iso", "gam", "pm"):
            for how in hows:
                base = [isoA, gamA, pmA]
                # consistent, as other / as first-merged target (every order), alone into an empty target, both sides boundary-sized
                out.append((base + [strip(same[kind], how)], f"boundary-{how}-{kind}-consistent"))
                out.append(([strip(same[kind], how)], f"boundary-{how}-{kind}-alone"))
                out.append(([strip(full[kind], how), strip(same[kind], r.choice(hows))], f"boundary-{how}-{kind}-both"))
                for mode in ("scaled", "count", "metadata"):
                    bad = strip(conflicting(kind, mode), how)
                    out.append(([full[kind], bad], f"boundary-{how}-{kind}-conflict-{mode}"))
                    out.append(([strip(full[kind], r.choice(hows)), bad], f"boundary-{how}-{kind}-both-conflict-{mode}"))
                    out.append((base + [bad], f"boundary-{how}-{kind}-conflict-{mode}-chain4"))
        # sequences of 3-5 libraries holding one or two boundary-sized ones
        pool = [isoA, isoB, isoC, gamA, gamB, pmA, pmB]
        for _ in range(6):
            items = r.sample(pool, r.randint(3, 5))
            for k in r.sample(range(len(items)), r.choice([1, 2])):
                items[k] = strip(items[k], r.choice(hows))
            tag = "boundary-sequence"
            if r.random() < 0.5:
                kind = r.choice(["iso", "gam", "pm"])
                items[r.randrange(len(items))] = strip(conflicting(kind, r.choice(["scaled", "count", "metadata"])), r.choice(hows))
                tag += "-with-conflict"
            out.append((items, tag))

    import random
    family(random.Random(99), 2, 2)
    for _ in range(n_random):
        sub_start = len(out)
        family(rng, rng.choice([1, 3, 4]), rng.choice([1, 3]))
        picked = rng.sample(out[sub_start:], 25)
        del out[sub_start:]
        out += picked
    out.append(([{"fixture": "isoAA"}, {"fixture": "isoAB", "delete": "ALL"}], "boundary-fixture-purged"))
    out.append(([{"fixture": "isoAA", "delete": "ALL"}, {"fixture": "gamAA", "delete": "ALL-BUT-ONE"}, {"fixture": "pmAA", "delete": "ALL"}],
                "boundary-fixture-all-purged"))
    out.append(([{"fixture": "isoAA", "delete": "ALL"}, {"fixture": "isoAA"}], "boundary-fixture-purged-then-full"))
    return out


def directed_scenarios():
    """fixed scenarios that run first on every seed: group-structure conflicts where ONLY the write-once energy bounds
    differ (same group count, bounds scaled by 1.05; file metadata identical), as 2nd..4th library of a chain, for neutron
    and gamma groups, with different-count and identical-bounds controls."""
    import random
    out = []
    for k, (ng, ngam) in enumerate([(2, 2), (4, 3), (33, 21)]):
        r = random.Random(1000 + k)
        isoA = gen_lib(r, "iso", "AA", ["U235", "FE56"], ng, ngam, "ISOAA")
        isoB = gen_lib(r, "iso", "AB", ["U235", "NA23"], ng, ngam, "ISOAB")
        gamA = gen_lib(r, "gam", "AA", ["U235"], ng, ngam, "AA.gamiso")
        pmA = gen_lib(r, "pm", "AA", ["U235", "FE56"], ng, ngam, "AA.pmatrx", dcf=True)
        for x in (isoA, isoB):
            x["isotxsMetadata"]["data"]["libraryLabel"] = ""
        isoB["isotxsMetadata"]["data"] = json.loads(json.dumps(isoA["isotxsMetadata"]["data"]))
        out.append(([isoA, gamA, pmA, isoB], "directed-control-identical-bounds"))
        for kind, donor, mname, prop in (("iso", isoA, "isotxsMetadata", "neutronEnergyUpperBounds"),
                                         ("pm", pmA, "pmatrxMetadata", "neutronEnergyUpperBounds"),
                                         ("gam", gamA, "gamisoMetadata", "gammaEnergyUpperBounds"),
                                         ("pm", pmA, "pmatrxMetadata", "gammaEnergyUpperBounds")):
            for mode in ("scaled", "count"):
                gamma = prop.startswith("gamma")
                x = gen_lib(r, kind, "QQ", ["O16", "B10"], ng + (1 if mode == "count" and not gamma else 0),
                            ngam + (1 if mode == "count" and gamma else 0), "QQ." + kind, dcf=False)
                if mode == "scaled":
                    x["props"][prop] = [b * 1.05 for b in donor["props"][prop]]
                x[mname]["data"] = json.loads(json.dumps(donor[mname]["data"]))
                tag = f"directed-{'gamma' if gamma else 'neutron'}-bounds-{mode}-{kind}"
                out.append(([isoA, donor, x] if donor is not isoA else [isoA, x], tag))
                out.append(([isoA, gamA, pmA, x], tag + "-chain4"))
    out += exactness_ladder()
    return out


def exactness_ladder():
    """EXACTNESS of the group-structure comparison: same group count, boundaries (or a float-array metadata entry) differing
    by a relative 1e-3 ... 1e-8 or by one ulp in a single entry must be rejected in every order; identical = control."""
    import random
    out = []
    r = random.Random(4242)

    def perturb(v, mode):
        a = np.array(v, dtype=float)
        if mode == "ulp":
            a[len(a) // 2] = np.nextafter(a[len(a) // 2], np.inf)
        elif mode != "same":
            a = a * (1.0 + float(mode))
        return [float(x) for x in a]

    for ng, ngam in ((3, 2), (33, 21)):
        base = {"iso": gen_lib(r, "iso", "AA", ["U235", "FE56"], ng, ngam, "ISOAA"),
                "gam": gen_lib(r, "gam", "AA", ["U235"], ng, ngam, "AA.gamiso"),
                "pm": gen_lib(r, "pm", "AA", ["U235", "FE56"], ng, ngam, "AA.pmatrx")}
        base["iso"]["isotxsMetadata"]["data"]["libraryLabel"] = ""
        # non-dyadic boundaries (as in real files) so that every perturbation is a different double
        base["iso"]["props"]["neutronEnergyUpperBounds"] = [b * 1.0123456789 for b in base["iso"]["props"]["neutronEnergyUpperBounds"]]
        base["pm"]["props"]["neutronEnergyUpperBounds"] = list(base["iso"]["props"]["neutronEnergyUpperBounds"])
        base["gam"]["props"]["gammaEnergyUpperBounds"] = [b * 0.987654321 for b in base["gam"]["props"]["gammaEnergyUpperBounds"]]
        base["pm"]["props"]["gammaEnergyUpperBounds"] = list(base["gam"]["props"]["gammaEnergyUpperBounds"])
        base["gam"]["gamisoMetadata"]["data"]["gammaVelocity..NOT"] = [1.0e9 / (g + 1.3) for g in range(ngam)]
        pairs = (("iso", "iso", "isotxsMetadata", "neutronEnergyUpperBounds"), ("iso", "pm", "pmatrxMetadata", "neutronEnergyUpperBounds"),
                 ("gam", "gam", "gamisoMetadata", "gammaEnergyUpperBounds"), ("gam", "pm", "pmatrxMetadata", "gammaEnergyUpperBounds"),
                 ("pm", "pm", "pmatrxMetadata", "gammaEnergyUpperBounds"))
        for mode in ("same", "1e-3", "1e-5", "3e-6", "1e-6", "1e-8", "ulp"):
            for ka, kb, mname, prop in pairs:
                x = gen_lib(r, kb, "QQ", ["O16", "B10"], ng, ngam, "QQ." + kb)
                for pn in x["props"]:
                    if pn in base[kb]["props"] and pn != "neutronVelocity":
                        x["props"][pn] = list(base[kb]["props"][pn])
                x["props"][prop] = perturb(base[ka]["props"][prop], mode)
                own = {"iso": "isotxsMetadata", "gam": "gamisoMetadata", "pm": "pmatrxMetadata"}[kb]
                x[own]["data"] = json.loads(json.dumps(base[kb][own]["data"]))
                tag = f"exact-{prop[:5]}-{ka}+{kb}-{mode}"
                out.append(([base[ka], x], tag))
                if ng == 3:
                    third = base["pm"] if "pm" not in (ka, kb) else base["gam"] if ka != "gam" else base["iso"]
                    out.append(([base[ka], third, x], tag + "-chain3"))
            # float-array metadata compared by _Metadata.merge: file level (gamma velocities) and nuclide level
            y = json.loads(json.dumps(base["gam"]))
            y["nucs"] = gen_lib(r, "gam", "QQ", ["O16"], ng, ngam, "x")["nucs"]
            y["gamisoMetadata"]["files"] = ["QQ.gamiso"]
            y["gamisoMetadata"]["data"]["gammaVelocity..NOT"] = perturb(base["gam"]["gamisoMetadata"]["data"]["gammaVelocity..NOT"], mode)
            out.append(([base["gam"], y], f"exact-file-metadata-array-{mode}"))
            a = json.loads(json.dumps(base["iso"]))
            arr = [0.1 * (g + 1) for g in range(ng)]
            a["nucs"][0][1]["isotxsMetadata"]["floatArray"] = arr
            z = gen_lib(r, "gam", "AA", ["U235"], ng, ngam, "z.gamiso")
            z["props"] = {}
            z.pop("gamisoMetadata", None)
            z["nucs"][0][1]["isotxsMetadata"] = json.loads(json.dumps(a["nucs"][0][1]["isotxsMetadata"]))
            z["nucs"][0][1]["isotxsMetadata"]["floatArray"] = perturb(arr, mode)
            out.append(([a, z], f"exact-nuclide-metadata-array-{mode}"))
    return out


def combined_reference(ctx, it, attrs, fx, rng, sink):
    import os
    import armi
    from armi.nuclearDataIO import xsLibraries
    from armi.nuclearDataIO.cccc import gamiso, isotxs, pmatrx
    d = os.path.join(os.path.dirname(armi.__file__), "nuclearDataIO", "tests", "fixtures")
    refs = [snap(it, rd(os.path.join(d, "combined-AA-AB." + ext)), attrs)
            for rd, ext in ((isotxs.readBinary, "isotxs"), (gamiso.readBinary, "gamiso"), (pmatrx.readBinary, "pmatrx"))]
    want = {}
    for r, fields in zip(refs, ((1, 4), (2, 5), (3, 6))):
        for n in r[2]:
            for f in fields:
                want[(n[0], f)] = n[f]
    for _ in range(ctx.pick(2, 12)):
        order = rng.sample(fx, len(fx))
        t = xsLibraries.IsotxsLibrary()
        for name in order:
            t.merge(load_fixture(name))
        got = snap(it, t, attrs)
        bad = [(n[0], f) for n in got[2] for f in range(1, 7) if want.get((n[0], f)) != n[f]]
        if bad or len(got[2]) * 6 != len(want):
            sink("merge-fixtures-differ-from-shipped-combined-library",
                 "merging ISOAA/ISOAB/AA.gamiso/AB.gamiso/AA.pmatrx/AB.pmatrx gives the nuclide data of combined-AA-AB.*",
                 {"libs": [{"fixture": n} for n in order], "order": list(range(len(order))), "tag": "fixtures-combined"},
                 bad[:5], None)
        ctx.count("fixtures merged and compared with the shipped combined library")
        ctx.case(("combined", tuple(order)))


def merge_orders(n, rng, cap):
    perms = list(itertools.permutations(range(n)))
    if len(perms) > cap:
        perms = rng.sample(perms, cap)
    return perms


def run_merge(ctx):
    rng = ctx.rng
    it = Intern()
    attrs = coll_attrs()
    req, impl, cases = [], [], []

    def sink(key, clause, case, obs, exp):
        ctx.count("oracle failure: " + key)
        if ctx.hist["oracle failure: " + key] <= 3:
            ctx.fail(key, clause, case, observed=obs, expected=exp)

    wfset = {}

    def one(items, tag, orders):
        srcs, results, conflict = oracle_scenario(ctx, it, attrs, items, tag, None, orders, sink)
        for x in srcs:
            wfset.setdefault(enc_lib(x), tag)
        ctx.count("scenario " + ("-".join(tag.split("-")[:2]) if tag.startswith(("boundary-", "positioned-")) else tag))
        if conflict:
            ctx.count("expected conflict: " + conflict)
        for order in orders:
            r = results[order]
            req.append(op("mergeseq") + " " + " ".join(enc_lib(srcs[i]) for i in order))
            impl.append(f"{r['nok']} {'T' if r['ok'] else 'F'} {enc_lib(r['final'])}")
            cases.append({"libs": items, "order": list(order), "tag": tag})
            ctx.count("merge sequence accepted" if r["ok"] else f"merge sequence rejected ({r['err']})")
            ctx.case(("merge", hash((tuple(srcs[i] for i in order)))), nontrivial=len(order) > 1,
                     sample={"tag": tag, "order": list(order), "ok": r["ok"], "labels": [len(srcs[i][2]) for i in order]}
                     if len(ctx.samples) < 3 else None)
        return results

    # (a) fixture libraries
    fx = ["isoAA", "isoAB", "gamAA", "gamAB", "pmAA", "pmAB"]
    nf = ctx.pick(6, 40)
    for _ in range(nf):
        names = rng.sample(fx, rng.choice([2, 3, 4]))
        one([{"fixture": n} for n in names], "fixtures", merge_orders(len(names), rng, ctx.pick(4, 24)))
    # independent reference: the shipped combined-AA-AB.* files hold what merging the six files must give
    combined_reference(ctx, it, attrs, fx, rng, sink)
    one([{"fixture": "isoAA"}, {"fixture": "isoAA"}], "fixtures-duplicate", [(0, 1)])
    # excluded point F7: the rejected merge of DESIGN section 6
    one([{"fixture": "isoAA"}, {"fixture": "f7:"}], "fixtures-f7", [(0, 1), (1, 0)])
    # (b) directed group-structure scenarios (same on every seed), every order
    for items, tag in directed_scenarios():
        one(items, tag, merge_orders(len(items), rng, 24))
    # (b2) boundary sizes of the nuclide set (zero / one nuclide with group structure and metadata), every order
    bscen = boundary_scenarios(rng, n_random=ctx.pick(1, 3))
    if not ctx.thorough:   # quick: every (kind, size) pair stays represented; the full grid runs in the thorough tier
        bscen = rng.sample(bscen[:150], 75) + bscen[150:]
    for k, (items, tag) in enumerate(bscen):
        one(items, tag, merge_orders(len(items), rng, ctx.pick(4, 12)))
        ctx.count("boundary-size scenario: " + tag.split("-")[1])
    # (c) generated scenarios, every order
    ns = ctx.pick(120, 2000)
    for _ in range(ns):
        items, tag = gen_scenario(rng, ctx)
        one(items, tag, merge_orders(len(items), rng, 24))
    # (d) five libraries, sampled orders
    for _ in range(ctx.pick(5, 80)):
        items, tag = gen_scenario(rng, ctx, cap=5)
        one(items, tag + "/cap5", merge_orders(len(items), rng, ctx.pick(6, 24)))
        ctx.count(f"scenario size {len(items)}")
    # (e) every nuclide-level conflict kind x position of the conflicting nuclide in the other library; a conflict on the
    #     FIRST nuclide of a library that brings nothing else must leave the target's content exactly as it was
    import random
    second = positioned_conflicts(rng, ng=rng.choice([1, 3]), ngam=rng.choice([1, 3]))
    for items, tag, pos in positioned_conflicts(random.Random(77)) + (second if ctx.thorough else rng.sample(second, 9)):
        orders = [(0, 1, 2, 3), tuple(rng.sample([0, 1, 2], 3)) + (3,), (3, 0, 1, 2)]
        results = one(items, tag, orders)
        for order in orders:
            if order[-1] != 3:
                continue
            r = results[order]
            ctx.count(f"positioned conflict ({pos}): " + ("accepted" if r["ok"] else "rejected"))
            if r["ok"]:
                continue   # already reported by the oracle as merge-conflict-accepted
            if pos == "first" and (r["nok"] != 3 or norm_props(r["before"]) != norm_props(r["after"])):
                sink("rejected-merge-mutates-target-before-first-conflict",
                     "a merge rejected on the first statement that can conflict leaves the target's content unchanged",
                     {"libs": items, "order": list(order), "tag": tag}, {"error": r["err"], "merges_ok_before": r["nok"]},
                     "target content unchanged")
    # (f) sequences that GO ON after a rejected merge (model: mergeAll)
    req2, impl2, cases2 = [], [], []

    def go_on(items, tag, order):
        srcs = [snap(it, make_lib(x), attrs, keep_order=True) for x in items]
        steps, final = run_all(it, attrs, items, order)
        case = {"libs": items, "order": list(order), "tag": tag, "continue_after_rejection": True}
        oracle_steps(it, steps, case, sink)
        req2.append(op("mergeall") + " " + " ".join(enc_lib(srcs[i]) for i in order))
        impl2.append("[" + ",".join("T" if st["ok"] else "F" for st in steps) + "] " + enc_lib(final))
        cases2.append(case)
        flags = [st["ok"] for st in steps]
        late = any(not a and any(flags[i + 1:]) for i, a in enumerate(flags))
        ctx.count("go-on sequence: " + ("accepted merge after a rejected one" if late else "nothing rejected" if all(flags) else "rejections only at the end"))
        ctx.case(("go-on", hash(tuple(srcs[i] for i in order))), nontrivial=late)

    go_on([{"fixture": "isoAA"}, {"fixture": "isoAA"}, {"fixture": "isoAB"}, {"fixture": "gamAA"}], "fixtures-go-on", (0, 1, 2, 3))
    go_on([{"fixture": "isoAA"}, {"fixture": "f7:"}, {"fixture": "gamAB"}, {"fixture": "pmAA"}], "fixtures-f7-go-on", (0, 1, 2, 3))
    bnd = [x for x in boundary_scenarios(rng) if len(x[0]) >= 2]
    for items, tag in rng.sample(bnd, ctx.pick(15, 120)):
        items = items + [json.loads(json.dumps(rng.choice(items)))] if rng.random() < 0.5 else items
        go_on(items, tag + "/go-on", tuple(rng.sample(range(len(items)), len(items))))
    for _ in range(ctx.pick(45, 800)):
        items, tag = gen_scenario(rng, ctx, cap=rng.choice([3, 4, 5]))
        if tag == "clean" and rng.random() < 0.7:
            items.insert(rng.randrange(len(items) + 1), json.loads(json.dumps(rng.choice(items))))   # a duplicate somewhere
            tag = "dup-somewhere"
        for order in merge_orders(len(items), rng, 2):
            go_on(items, tag, order)
    model = lean_run("XsLib", req + req2)
    if any(m in ("bad-op", "out-of-domain") for m in model):
        from harness.common import Infra
        raise Infra("XsLib driver refused a request: " + str([r[:200] for r, m in zip(req + req2, model) if m in ("bad-op", "out-of-domain")][:2]))
    ctx.compare("Model/XsLib.lean mergeAll vs IsotxsLibrary.merge going on after rejections", cases2, model[len(req):], impl2)
    model = model[:len(req)]
    ctx.compare("Model/XsLib.lean mergeSeq vs IsotxsLibrary.merge", cases, model, impl)
    # the hypotheses of the merge theorems (Lib.WF, no file-wide chi) evaluated on every library that was merged
    libs = list(wfset)
    verdicts = []
    for k in range(0, len(libs), 40):
        verdicts += lean_run("XsLib", ["wf " + " ".join(libs[k:k + 40])])[0].split(" ")
    for enc, v in zip(libs, verdicts):
        ctx.count("theorem hypothesis Lib.WF on a merged library: " + ("holds" if v == "T" else "FAILS (" + wfset[enc] + ")"))
    if len(verdicts) != len(libs) or any(v not in ("T", "F") for v in verdicts):
        from harness.common import Infra
        raise Infra("XsLib driver: wf answer malformed")
    ctx.samples.append({"request": req[-1][:300], "model": model[-1][:300], "impl": impl[-1][:300]})


# ----------------------------------------------------------------------------- macroscopic layer
def rel_close(f, q, tol=1e-9):
    q = Fraction(q)
    return abs(frac(f) - q) <= Fraction(tol) * abs(q) + Fraction(1, 10 ** 300)


def vec_close(arr, qs, tol=1e-9):
    """every component within tol * (largest exact component) of the exact value (the model is fed the exact value of
    every input double, so only the rounding of the implementation's own few operations is left)"""
    arr = np.asarray(arr, dtype=float).ravel()
    if len(arr) != len(qs):
        return False
    scale = max([abs(Fraction(q)) for q in qs] or [Fraction(0)])
    bound = Fraction(tol) * scale + Fraction(1, 10 ** 300)
    return all(abs(frac(a) - Fraction(q)) <= bound for a, q in zip(arr, qs))


NAMES = ["U235", "U238", "PU239", "FE56", "NA23", "ZR90", "O16", "B10", "C", "MO", "U234", "AM241", "HE4"]
RXN1 = ["nGamma", "nalph", "np", "nd", "nt", "fission", "n2n"]


def gen_macro_lib(rng, ctx, names=None, suf=None, ng=None):
    from armi.nucDirectory import nuclideBases
    ng = ng or (rng.choice([1, 2, 3, 4, 5]) if not ctx.thorough else rng.choice([1, 2, 3, 4, 5, 8, 12]))
    suf = suf or rng.choice(["AA", "AB", "ZC"])
    names = names or rng.sample(NAMES, rng.randint(1, 7))
    nucs = []
    for nm in names:
        lab = nuclideBases.byName[nm].label + suf
        micros = {}
        for r in RXN1 + ["neutronsPerFission", "chi"]:
            micros[r] = [dy(rng, 0, 4) if rng.random() < 0.8 else 0.0 for _ in range(ng)]
        for r in RXN1 + ["neutronsPerFission", "chi"]:
            if rng.random() < 0.25:
                micros[r] = ["DEFAULT", ng]   # absent reaction: the reader's shared zero vector
        if rng.random() < 0.15:
            micros[rng.choice(RXN1)] = [0.0] * ng
        micros["total"] = [[dy(rng, 0, 8), dy(rng, 0, 8)] for _ in range(ng)]
        micros["transport"] = [[dy(rng, 1, 8)] for _ in range(ng)]
        for a in ("elasticScatter", "inelasticScatter", "n2nScatter"):
            if rng.random() < 0.8:
                micros[a] = [[dy(rng, 0, 2) if rng.random() < 0.5 else 0.0 for _ in range(ng)] for _ in range(ng)]
        meta = {"nuclideId": nm}
        if rng.random() < 0.85:
            meta["efiss"] = dy(rng, 0, 4, 6)
            meta["ecapt"] = dy(rng, 0, 4, 6)
        n = {"isotxsMetadata": meta, "micros": micros, "attrs": {}}
        if rng.random() < 0.75:
            n["attrs"]["neutronHeating"] = [dy(rng, 0, 4) for _ in range(ng)]
            n["attrs"]["gammaHeating"] = [dy(rng, 0, 4) for _ in range(ng + 1)]
        nucs.append([lab, n])
    # a second suffix that must not leak into the sums
    if rng.random() < 0.5:
        nm = rng.choice(names)
        other = "QQ"
        micros = {r: [dy(rng, 1, 4) for _ in range(ng)] for r in RXN1 + ["neutronsPerFission", "chi"]}
        micros["total"] = [[1.0, 1.0] for _ in range(ng)]
        micros["transport"] = [[1.0] for _ in range(ng)]
        micros["elasticScatter"] = [[1.0] * ng for _ in range(ng)]
        nucs.append([nuclideBases.byName[nm].label + other, {"isotxsMetadata": {"nuclideId": nm, "efiss": 1.0, "ecapt": 1.0},
                                                             "micros": micros, "attrs": {}}])
    spec = {"props": {"neutronEnergyUpperBounds": gen_bounds(rng, ng), "gammaEnergyUpperBounds": gen_bounds(rng, ng + 1)},
            "nucs": nucs}
    return spec, ng, suf, names


def gen_composition(rng, names):
    comp = {}
    pool = list(names)
    for nm in rng.sample(pool, rng.randint(0, len(pool))):
        comp[nm] = dy(rng, 0, 4, 4) if rng.random() < 0.85 else 0.0
    r = rng.random()
    if r < 0.12:
        comp[rng.choice([n for n in NAMES if n not in names] or ["HE4"])] = rng.choice([0.0, dy(rng, 0, 2, 4)])
    elif r < 0.17:
        comp["XX999"] = rng.choice([0.0, 1.5])
    return comp


class StubBlock:
    """the four Block methods MacroscopicCrossSectionCreator / computeBlockAverageChi call"""

    def __init__(self, dens, suffix):
        self.dens, self.suffix = dict(dens), suffix

    def getNuclides(self):
        return list(self.dens)

    def getNuclideNumberDensities(self, names):
        return [self.dens.get(n, 0.0) for n in names]   # a real block answers 0.0 for a nuclide it does not hold

    def getMicroSuffix(self):
        return self.suffix

    def getNumberDensities(self):
        return dict(self.dens)

    def __repr__(self):
        return "<StubBlock>"


def lookup(lib, name, suffix):
    """what lib.getNuclide gives, by the public API; None = KeyError"""
    try:
        return lib.getNuclide(name, suffix)
    except KeyError:
        return None


def get_attr_arr(nuc, rxn, libtype):
    obj = getattr(nuc, libtype) if libtype else nuc
    v = getattr(obj, rxn)
    return None if v is None else np.asarray(v, dtype=float).ravel()


def enc_vec(a):
    return "[" + ",".join(rat(x) for x in a) + "]"


def enc_mat(m):
    return "[" + ",".join(enc_vec(r) for r in np.asarray(m, dtype=float)) + "]"


def entries(lib, comp, suffix, rxn, libtype, mult):
    """the model's view of one computeMacroscopicGroupConstants call (lookups done through the public API)"""
    out = []
    for name, d in sorted(comp.items()):
        nuc = lookup(lib, name, suffix)
        if nuc is None:
            out.append(f"[M,{rat(d)}]")
            continue
        v = get_attr_arr(nuc, rxn, libtype)
        if mult is None:
            m = "[U]"
        elif libtype and getattr(getattr(nuc, libtype), mult, None) is not None and hasattr(getattr(nuc, libtype), mult):
            m = "[V," + enc_vec(np.asarray(getattr(getattr(nuc, libtype), mult), dtype=float).ravel()) + "]"
        else:
            mv = nuc.isotxsMetadata[mult]
            m = "[N]" if mv is None else f"[S,{rat(mv)}]"
        out.append(f"[P,{rat(d)},{'N' if v is None else enc_vec(v)},{m}]")
    return "[" + ",".join(out) + "]"


def mixed_missing_data(lib, comp, suffix, rxn, libtype):
    """some contributing nuclide lacks the data (attribute None) while another has it: what the code does then depends on
    which of them comes first in the loop (TypeError vs treated as zero) - accidental behaviour the property does not
    speak about; judged by the oracle alone, not by model equality"""
    have = set()
    for name, d in comp.items():
        nuc = lookup(lib, name, suffix) if d else None
        if nuc is not None:
            have.add(get_attr_arr(nuc, rxn, libtype) is None)
    return len(have) == 2


def direct_sum(lib, comp, suffix, rxn, libtype, mult):
    """independent oracle: sum_n N_n sigma_n nu_n in exact arithmetic; None when not defined
    (a nuclide with non-zero density that the library lacks, or missing data)"""
    total = None
    for name, d in comp.items():
        if d == 0:
            continue
        nuc = lookup(lib, name, suffix)
        if nuc is None:
            return None
        v = get_attr_arr(nuc, rxn, libtype)
        if v is None:
            continue
        if mult is None:
            mv = [Fraction(1)] * len(v)
        elif libtype and getattr(getattr(nuc, libtype), mult, None) is not None:
            mv = [frac(x) for x in np.asarray(getattr(getattr(nuc, libtype), mult), dtype=float).ravel()]
        else:
            s = nuc.isotxsMetadata[mult]
            if s is None:
                return None
            mv = [frac(s)] * len(v)
        term = [frac(d) * frac(x) * m for x, m in zip(v, mv)]
        total = term if total is None else [a + b for a, b in zip(total, term)]
    return total


def call(f, *a, **k):
    try:
        return ("ok", f(*a, **k))
    except Exception as e:  # noqa
        return ("reject", type(e).__name__)


def show_impl(res):
    kind, v = res
    if kind == "reject":
        return "reject"
    if v is None:
        return "none"
    return v


def compare_vec(ctx, what, case, model_line, res):
    """model line (exact rationals) vs implementation result (floats)"""
    im = show_impl(res)
    if isinstance(im, str) or model_line in ("reject", "none"):
        if im is not model_line and (not isinstance(im, str) or im != model_line):
            ctx.disagree(what, case, model_line[:200], str(im)[:200])
        return
    qs = [Fraction(x) for x in model_line.strip("[]").replace("[", "").replace("]", "").split(",") if x]
    if not vec_close(im.toarray() if hasattr(im, "toarray") else im, qs):
        ctx.disagree(what, case, model_line[:300], str(np.asarray(im.toarray() if hasattr(im, "toarray") else im).ravel().tolist())[:300])


def load_real_block():
    import os
    from harness import common
    from armi.reactor.tests.test_reactors import loadTestReactor
    from armi.tests import TEST_ROOT
    with common.scratch_dir(), common.quiet():
        _o, r = loadTestReactor(os.path.join(TEST_ROOT, "smallestTestReactor"), inputFileName="armiRunSmallest.yaml")
    return r.core.getFirstBlock()


def macro_libs(libid):
    """(library handed to the implementation, independent reference copy used for the model / oracle)"""
    import copy
    from armi.nuclearDataIO import xsLibraries
    if "merged_fixtures" in libid:
        # ISOAA merged with ISOAB whose scatter matrices are scaled so that the two XS IDs visibly differ
        lib = xsLibraries.IsotxsLibrary()
        for name in libid["merged_fixtures"]:
            part = load_fixture(name)
            if name == "isoAB":
                for n in part.nuclides:
                    for a in ("elasticScatter", "inelasticScatter", "n2nScatter"):
                        if getattr(n.micros, a) is not None:
                            setattr(n.micros, a, getattr(n.micros, a) * libid.get("scale", 1.5))
            lib.merge(part)
        return lib, copy.deepcopy(lib)
    if "merged_libs" in libid:
        out = []
        for fresh in (False, True):
            lib = xsLibraries.IsotxsLibrary()
            for spec in libid["merged_libs"]:
                lib.merge(build(spec, fresh_defaults=fresh))
            for n in lib.nuclides:
                n.updateBaseNuclide()
            out.append(lib)
        return out[0], out[1]
    if "fixture" in libid:
        lib = load_fixture(libid["fixture"])
        ref = copy.deepcopy(lib)
        # deepcopy keeps the copy's zero vectors shared among the copy's nuclides but separate from the class cache
        return lib, ref
    lib = build(libid["lib"])
    ref = build(libid["lib"], fresh_defaults=True)
    for x in (lib, ref):
        for n in x.nuclides:
            n.updateBaseNuclide()
    return lib, ref


def micro_fingerprint(lib):
    out = []
    for lab in lib.nuclideLabels:
        n = lib[lab]
        for coll in (n.micros, n.gammaXS):
            for k, v in sorted(coll.__dict__.items()):
                if k != "source" and v is not None and not isinstance(v, dict):
                    out.append((str(lab), k, Intern.ckey(v)))
        for a in ATTRS:
            if getattr(n, a) is not None:
                out.append((str(lab), a, Intern.ckey(getattr(n, a))))
    return hash(tuple(out))


def run_macro(ctx):
    from armi.nuclearDataIO import xsCollections as xc
    from armi.utils import units
    rng = ctx.rng
    jpe = units.JOULES_PER_eV
    pending = []  # (request, what, case, impl result)

    def fail(key, clause, case, obs, exp=None):
        ctx.count("oracle failure: " + key)
        if ctx.hist["oracle failure: " + key] <= 3:
            ctx.fail(key, clause, case, observed=obs, expected=exp)

    nlib = ctx.pick(40, 400)
    jobs = [("fixture", None), ("block", None)] + [("gen", None)] * nlib
    real_block = None
    for li, (jkind, _) in enumerate(jobs):
        if jkind == "block":
            # a real HexBlock of the smallest test reactor (its own getNuclides / getNuclideNumberDensities /
            # getMicroSuffix / getNumberDensities) on a generated library covering its nuclides
            real_block = load_real_block()
            bnames = sorted(real_block.getNuclides())
            spec, ng, suf, names = gen_macro_lib(rng, ctx, names=bnames, suf=real_block.getMicroSuffix())
            libid = {"lib": spec}
            lib, ref = macro_libs(libid)
            ncomp = ctx.pick(2, 6)
        elif jkind == "fixture":
            # the ISOAA fixture as the reader builds it (absent reactions share XSCollection's zero vectors):
            # several creator calls in sequence on one library object
            libid = {"fixture": "isoAA"}
            lib, ref = macro_libs(libid)
            ng, suf = lib.numGroups, "AA"
            names = [n.name for n in ref.nuclides]
            ncomp = ctx.pick(3, 10)
        else:
            spec, ng, suf, names = gen_macro_lib(rng, ctx)
            libid = {"lib": spec}
            lib, ref = macro_libs(libid)
            ncomp = ctx.pick(5, 8)
        fp0 = micro_fingerprint(ref)
        for ci in range(ncomp):
            comp = gen_composition(rng, names)
            if jkind == "block":
                if ci:
                    for nm in rng.sample(names, 3):
                        real_block.setNumberDensity(nm, dy(rng, 0, 2, 6) * 1e-2)
                comp = dict(zip(names, (float(x) for x in real_block.getNuclideNumberDensities(names))))
            if jkind == "fixture":
                comp = {k: v for k, v in comp.items() if k in names and v > 0} or {names[0]: 0.5}
            nonzero = {k: v for k, v in comp.items() if v}
            base = dict(libid, suffix=suf, composition=comp)
            ctx.case(("macro", li, ci, json.dumps(comp, sort_keys=True)), nontrivial=bool(nonzero))
            ctx.count("composition: " + ("empty/all-zero" if not nonzero else
                                        "with nuclide missing from library" if any(lookup(ref, k, suf) is None for k in nonzero)
                                        else "zero-density missing nuclide" if any(lookup(ref, k, suf) is None for k in comp)
                                        else "regular"))
            # --- computeMacroscopicGroupConstants, every flavour
            flavours = [(r, "micros", None) for r in rng.sample(RXN1, 3)] + [("fission", "micros", "neutronsPerFission"),
                        ("fission", "micros", "efiss"), (rng.choice(["nGamma", "np"]), "micros", "ecapt"),
                        ("total", "micros", None), ("neutronHeating", None, None)]
            for rxn, lt, mult in flavours:
                case = dict(base, reaction=rxn, libType=lt, multConstant=mult)
                res = call(xc.computeMacroscopicGroupConstants, rxn, comp, lib, suf, libType=lt, multConstant=mult)
                if mixed_missing_data(ref, comp, suf, rxn, lt):
                    ctx.count("oracle-only: some contributing nuclides lack the data")
                else:
                    pending.append(("macro " + entries(ref, comp, suf, rxn, lt, mult), "macroXS vs computeMacroscopicGroupConstants", case, res))
                # oracle: direct exact sum
                want = direct_sum(ref, comp, suf, rxn, lt, mult)
                if res[0] == "ok" and res[1] is not None:
                    if want is None or not vec_close(res[1], want):
                        fail("macro-weighted-sum", "macroscopic constant = sum_n N_n * sigma_n (* multiplier)", case,
                             np.asarray(res[1]).ravel().tolist(), None if want is None else [float(x) for x in want])
                    # linearity and additivity on the real function
                    c = rng.choice([0.5, 2.0, 3.0])
                    r2 = call(xc.computeMacroscopicGroupConstants, rxn, {k: c * v for k, v in comp.items()}, lib, suf, libType=lt, multConstant=mult)
                    if r2[0] != "ok" or r2[1] is None or not np.allclose(r2[1], c * res[1], rtol=1e-12, atol=0):
                        fail("macro-linear", "scaling every density by c scales the constant by c", dict(case, c=c), str(r2)[:200])
                    ka = {k: v * rng.choice([0.0, 0.25, 0.5, 1.0]) for k, v in comp.items()}
                    kb = {k: comp[k] - ka[k] for k in comp}
                    ra = call(xc.computeMacroscopicGroupConstants, rxn, ka, lib, suf, libType=lt, multConstant=mult)
                    rb = call(xc.computeMacroscopicGroupConstants, rxn, kb, lib, suf, libType=lt, multConstant=mult)
                    if ra[0] == "ok" and rb[0] == "ok" and ra[1] is not None and rb[1] is not None:
                        if ra[1].shape == rb[1].shape == res[1].shape and not np.allclose(ra[1] + rb[1], res[1], rtol=1e-12, atol=1e-300):
                            fail("macro-additive", "constant of a + b = constant of a + constant of b", dict(case, a=ka, b=kb),
                                 (ra[1] + rb[1]).ravel().tolist(), res[1].ravel().tolist())
                elif res[0] == "ok" and res[1] is None and nonzero:
                    fail("macro-none-for-nonempty", "a composition with non-zero densities yields an array", case, None)
            # --- energy deposition / generation constants
            for fn, rxn in ((xc.computeNeutronEnergyDepositionConstants, "neutronHeating"),
                            (xc.computeGammaEnergyDepositionConstants, "gammaHeating")):
                res = call(fn, comp, lib, suf)
                case = dict(base, function=fn.__name__)
                if mixed_missing_data(ref, comp, suf, rxn, None):
                    ctx.count("oracle-only: some contributing nuclides lack the data")
                else:
                    pending.append((f"edep {rat(jpe)} " + entries(ref, comp, suf, rxn, None, None), "energyDeposition vs " + fn.__name__, case, res))
                want = direct_sum(ref, comp, suf, rxn, None, None)
                if res[0] == "ok" and (want is None or not vec_close(res[1], [w * frac(jpe) for w in want])):
                    fail("energy-deposition-weighted-sum", "energy deposition constant = J/eV * sum_n N_n * heating_n", case,
                         np.asarray(res[1]).tolist())
            res = call(xc.computeFissionEnergyGenerationConstants, comp, lib, suf)
            pending.append(("macro " + entries(ref, comp, suf, "fission", "micros", "efiss"),
                            "macroXS vs computeFissionEnergyGenerationConstants", dict(base, function="fissionEnergy"), res))
            res = call(xc.computeCaptureEnergyGenerationConstants, comp, lib, suf)
            pending.append(("capture " + entries(ref, comp, suf, xc.CAPTURE_XS[0], "micros", None) + " [" +
                            ",".join(entries(ref, comp, suf, r, "micros", "ecapt") for r in xc.CAPTURE_XS) + "]",
                            "captureEnergy vs computeCaptureEnergyGenerationConstants", dict(base, function="captureEnergy"), res))
            if res[0] == "ok":
                parts = [direct_sum(ref, comp, suf, r, "micros", "ecapt") for r in xc.CAPTURE_XS]
                if any(p is None for p in parts) or not vec_close(res[1], [sum(x) for x in zip(*parts)]):
                    fail("capture-energy-sum", "capture energy constant = sum over capture reactions of ecapt-weighted macros",
                         dict(base, function="captureEnergy"), np.asarray(res[1]).tolist())
            # --- the creator
            block = real_block if jkind == "block" else StubBlock(comp, suf)
            mc = xc.MacroscopicCrossSectionCreator()
            res = call(mc.createMacrosFromMicros, lib, block)
            case = dict(base, function="createMacrosFromMicros")
            ctx.count("creator " + ("ok" if res[0] == "ok" else "rejected"))
            dens = {k: v for k, v in comp.items() if v > 0.0}
            if res[0] == "ok":
                m = res[1]
                for rxn in RXN1:
                    pending.append(("macro " + entries(ref, dens, suf, rxn, "micros", None), "creator." + rxn, dict(case, reaction=rxn), ("ok", getattr(m, rxn))))
                pending.append(("macro " + entries(ref, dens, suf, "fission", "micros", "neutronsPerFission"), "creator.nuSigF", case, ("ok", m.nuSigF)))
                pending.append((f"absorption {ng} [" + ",".join(enc_vec(getattr(m, r)) for r in ("nGamma", "fission", "nalph", "np", "nd", "nt", "n2n")) + "]",
                                "creator.absorption", case, ("ok", m.absorption)))
                libnucs = ref.getNuclides(suf)
                for a in ("elasticScatter", "inelasticScatter", "n2nScatter"):
                    items = ",".join(f"[{rat(dens.get(n.name, 0.0))},{'N' if getattr(n.micros, a) is None else enc_mat(getattr(n.micros, a).toarray())}]"
                                     for n in libnucs)
                    pending.append((f"scatter {ng} [{items}]", "creator." + a, dict(case, matrix=a), ("ok", getattr(m, a))))
                pending.append((f"totscat {enc_mat(m.elasticScatter.toarray())} {enc_mat(m.inelasticScatter.toarray())} {enc_mat(m.n2nScatter.toarray())}",
                                "creator.totalScatter", case, ("ok", m.totalScatter)))
                pending.append((f"removal {ng} {enc_vec(m.absorption)} {enc_vec(m.n2n)} {enc_mat(m.totalScatter.toarray())}",
                                "creator.removal", case, ("ok", m.removal)))
                chi_items = ",".join(f"[{rat(comp.get(n.name, 0.0))},{enc_vec(n.micros.chi)},{enc_vec(n.micros.neutronsPerFission)},{enc_vec(n.micros.fission)}]"
                                     for n in libnucs)
                pending.append((f"chi {ng} [{chi_items}]", "creator.chi", case, ("ok", m.chi)))
                # oracle: defining sums on the returned object + direct sums from the library
                absum = sum(getattr(m, r) for r in ("nGamma", "fission", "nalph", "np", "nd", "nt", "n2n"))
                if not np.allclose(m.absorption, absum, rtol=1e-12, atol=0):
                    fail("derived-absorption", "absorption = nGamma+fission+nalph+np+nd+nt+n2n", case, m.absorption.tolist(), absum.tolist())
                ts = (m.elasticScatter + m.inelasticScatter + 2.0 * m.n2nScatter).toarray()
                if not np.allclose(m.totalScatter.toarray(), ts, rtol=1e-12, atol=0):
                    fail("derived-total-scatter", "totalScatter = elastic + inelastic + 2*n2n", case, None)
                rem = m.absorption - m.n2n + ts.sum(axis=0) - np.diag(ts)
                if not np.allclose(m.removal, rem, rtol=1e-12, atol=1e-300):
                    fail("derived-removal", "removal = absorption - n2n + out-scatter", case, m.removal.tolist(), rem.tolist())
                if not np.allclose(m.diffusionConstants, 1.0 / (3.0 * m.transport), rtol=1e-12):
                    fail("derived-diffusion", "D = 1/(3 transport)", case, None)
                for a in ("elasticScatter", "inelasticScatter", "n2nScatter"):
                    want = np.zeros((ng, ng))
                    for k, v in dens.items():
                        nuc = lookup(ref, k, suf)
                        if nuc is not None and getattr(nuc.micros, a) is not None:
                            want = want + v * getattr(nuc.micros, a).toarray()
                    if not np.allclose(getattr(m, a).toarray(), want, rtol=1e-12, atol=0):
                        fail("macro-scatter-weighted-sum", "macroscopic scatter matrix = sum_n N_n * matrix_n", dict(case, matrix=a), None)
                for rxn in RXN1:
                    want = direct_sum(ref, dens, suf, rxn, "micros", None)
                    if want is None or not vec_close(getattr(m, rxn), want):
                        fail("macro-weighted-sum", "creator reaction = sum_n N_n * sigma_n", dict(case, reaction=rxn), getattr(m, rxn).tolist())
            else:
                # the creator may only refuse when some basic constant is refused / undefined
                okall = all(direct_sum(ref, dens, suf, r, "micros", None) is not None for r in RXN1)
                if okall and dens:
                    fail("creator-rejects-valid-composition", "macros exist for a composition fully covered by the library", case, res[1])
                for rxn in RXN1 + ["total", "transport"]:
                    pending.append(("macro " + entries(ref, dens, suf, rxn, "micros", None), "creator rejected", case, ("group", (li, ci))))
                pending.append(("macro " + entries(ref, dens, suf, "fission", "micros", "neutronsPerFission"), "creator rejected", case, ("group", (li, ci))))
        # state carried between calls: the library's microscopic data (incl. the shared zero vectors of absent
        # reactions) must be what they were before the calls
        if micro_fingerprint(lib) != fp0:
            fail("macro-creation-mutates-microscopic-data", "computing macroscopic constants never changes the library's microscopic data",
                 dict(libid, suffix=suf, composition=comp, function="createMacrosFromMicros"), "microscopic arrays changed")
        # excluded point: the empty composition (property: zero; code: None / TypeError)
        if 1 <= li <= 3:
            r0 = call(xc.computeMacroscopicGroupConstants, "fission", {}, lib, suf, libType="micros")
            if not (r0[0] == "ok" and r0[1] is not None and not np.any(r0[1])):
                fail("macro-empty-composition-not-zero", "macroscopic constants of an empty composition are zero",
                     dict(libid, suffix=suf, composition={}, reaction="fission"), str(r0))
            r1 = call(xc.MacroscopicCrossSectionCreator().createMacrosFromMicros, lib, StubBlock({}, suf))
            if r1[0] != "ok":
                fail("macro-empty-composition-not-zero", "macroscopic constants of an empty composition are zero",
                     dict(libid, suffix=suf, composition={}, function="createMacrosFromMicros"), str(r1))
    model = lean_run("XsLib", [p[0] for p in pending])
    bad = [p[0][:200] for p, m in zip(pending, model) if m == "bad-op"]
    if bad:
        from harness.common import Infra
        raise Infra("XsLib driver refused a macro request: " + str(bad[:2]))
    groups = {}
    for (rq, what, case, res), ml in zip(pending, model):
        ctx.evaluations += 1
        ctx.count("macro request: " + rq.split(" ")[0])
        if res[0] == "group":
            g = groups.setdefault(res[1], [case, False])
            g[1] = g[1] or ml in ("reject", "none")
            continue
        compare_vec(ctx, what, case, ml, res)
        ctx.count("macro outcome: " + ("reject" if res[0] == "reject" else "none" if res[1] is None else "array"))
    for gid, (case, any_bad) in groups.items():
        if not any_bad:
            ctx.disagree("creator rejected but the model computes every basic constant", case, "ok", "reject")
    ctx.samples.append({"request": pending[0][0][:300], "model": model[0][:200], "impl": str(show_impl(pending[0][3]))[:200]})


# ----------------------------------------------------------------------------- the creator as a whole, multiplier library
RXN9 = ["nGamma", "nalph", "np", "nd", "nt", "fission", "n2n", "total", "transport"]


def add_gamma_collections(rng, spec, ng):
    """give every nuclide of a gen_macro_lib spec a gammaXS collection over ng + 1 gamma groups (all reactions present)"""
    ngam = ng + 1
    for _lab, n in spec["nucs"]:
        g = {r: [dy(rng, 0, 4) if rng.random() < 0.8 else 0.0 for _ in range(ngam)] for r in RXN1 + ["neutronsPerFission", "chi"]}
        g["total"] = [[dy(rng, 0, 8)] for _ in range(ngam)]
        g["transport"] = [[dy(rng, 1, 8)] for _ in range(ngam)]
        for a in ("elasticScatter", "inelasticScatter", "n2nScatter"):
            if rng.random() < 0.8:
                g[a] = [[dy(rng, 0, 2) if rng.random() < 0.5 else 0.0 for _ in range(ngam)] for _ in range(ngam)]
        n["gammaXS"] = g
        n["gamisoMetadata"] = {"nuclideId": n["isotxsMetadata"]["nuclideId"]}
    return ngam


def opt_vec(v):
    return "N" if v is None else enc_vec(np.asarray(v, dtype=float).ravel())


def opt_mat(m):
    return "N" if m is None else enc_mat(m.toarray() if hasattr(m, "toarray") else m)


def creator_request(ref, suf, lib_type, ng, min_dens, build_scatter, nuc_names, dens_of):
    """the model's view of one createMacrosFromMicros call: names interned by their rank in str order"""
    libnucs = ref.getNuclides(suf)
    rank = {nm: i for i, nm in enumerate(sorted(set(nuc_names) | {n.name for n in libnucs}))}
    items = ",".join(f"[{rank[nm]},{rat(dens_of[nm])}]" for nm in nuc_names)
    rows = []
    for n in libnucs:
        c = getattr(n, lib_type)
        rows.append(f"[{rank[n.name]},[" + ",".join(opt_vec(getattr(c, r)) for r in RXN9) + f"],{opt_vec(c.neutronsPerFission)},"
                    f"{opt_mat(c.elasticScatter)},{opt_mat(c.inelasticScatter)},{opt_mat(c.n2nScatter)}]")
    return f"creator {ng} {rat(min_dens)} {'T' if build_scatter else 'F'} [{items}] [{','.join(rows)}]"


def exact_chi(ref, suf, dens_all, ng):
    """block-average chi by its defining formula in exact arithmetic (None when some library nuclide lacks the data)"""
    num = [Fraction(0)] * ng
    den = Fraction(0)
    for n in ref.getNuclides(suf):
        m = n.micros
        if m.chi is None or m.neutronsPerFission is None or m.fission is None:
            return None
        d = frac(dens_all.get(n.name, 0.0))
        f = sum(frac(a) * frac(b) for a, b in zip(np.asarray(m.neutronsPerFission, dtype=float), np.asarray(m.fission, dtype=float)))
        num = [x + frac(c) * d * f for x, c in zip(num, np.asarray(m.chi, dtype=float))]
        den += d * f
    return [x / den for x in num] if den != 0 else [Fraction(0)] * ng


def creator_clauses(lib, ref, suf, comp, lib_type, passed, min_dens, build_scatter, ng, groups, case):
    """one createMacrosFromMicros call on the real classes + the property's clauses on what it returns.
    Returns (call result, [(key, clause, case, observed, expected), ...])"""
    from armi.nuclearDataIO import xsCollections as xc
    out = []
    nuc_names = list(comp) if passed is None else list(passed)
    eff = {nm: comp[nm] for nm in nuc_names if comp.get(nm, 0.0) > min_dens}
    mc = xc.MacroscopicCrossSectionCreator(buildScatterMatrix=build_scatter, minimumNuclideDensity=min_dens)
    res = call(mc.createMacrosFromMicros, lib, StubBlock(comp, suf), passed, libType=lib_type)
    if res[0] != "ok":
        okall = all(direct_sum(ref, eff, suf, r9, lib_type, None) is not None for r9 in RXN9)
        if okall and eff:
            out.append(("creator-rejects-valid-composition", "macros exist for a composition fully covered by the library", case, res[1], None))
        return res, out
    m = res[1]
    # every reaction over the EFFECTIVE composition, derived sums, scatter sums, chi
    for r9 in RXN9[:7]:
        want = direct_sum(ref, eff, suf, r9, lib_type, None)
        if want is None or not vec_close(getattr(m, r9), want):
            out.append(("macro-weighted-sum", "creator reaction = sum_n N_n * sigma_n over nucNames with density above the minimum",
                        dict(case, reaction=r9), np.asarray(getattr(m, r9)).tolist(), None if want is None else [float(x) for x in want]))
    want = direct_sum(ref, eff, suf, "fission", lib_type, "neutronsPerFission")
    if want is None or not vec_close(m.nuSigF, want):
        out.append(("macro-weighted-sum", "nuSigF = sum_n N_n * nu_n * sigma_f,n", dict(case, reaction="nuSigF"), np.asarray(m.nuSigF).tolist(), None))
    absum = sum(getattr(m, r9) for r9 in ("nGamma", "fission", "nalph", "np", "nd", "nt", "n2n"))
    if not np.allclose(m.absorption, absum, rtol=1e-12, atol=0):
        out.append(("derived-absorption", "absorption = nGamma+fission+nalph+np+nd+nt+n2n", case, m.absorption.tolist(), absum.tolist()))
    ts = (m.elasticScatter + m.inelasticScatter + 2.0 * m.n2nScatter).toarray()
    if not np.allclose(m.totalScatter.toarray(), ts, rtol=1e-12, atol=0):
        out.append(("derived-total-scatter", "totalScatter = elastic + inelastic + 2*n2n", case, None, None))
    rem = m.absorption - m.n2n + ts.sum(axis=0) - np.diag(ts)
    if not np.allclose(m.removal, rem, rtol=1e-12, atol=1e-300):
        out.append(("derived-removal", "removal = absorption - n2n + out-scatter", case, m.removal.tolist(), rem.tolist()))
    if build_scatter:
        for a in ("elasticScatter", "inelasticScatter", "n2nScatter"):
            want = np.zeros((groups, groups))
            for k, v in eff.items():
                nuc = lookup(ref, k, suf)
                if nuc is not None and getattr(getattr(nuc, lib_type), a) is not None:
                    want = want + v * getattr(getattr(nuc, lib_type), a).toarray()
            if not np.allclose(getattr(m, a).toarray(), want, rtol=1e-12, atol=0):
                out.append(("macro-scatter-weighted-sum", "macroscopic scatter matrix = sum_n N_n * matrix_n", dict(case, matrix=a), None, None))
    chi = exact_chi(ref, suf, comp, ng)
    if chi is not None and not vec_close(m.chi, chi):
        out.append(("macro-chi-weighted-average", "block chi = sum_n chi_n N_n F_n / sum_n N_n F_n with F_n = sum_g nu_g sigma_f,g",
                    case, np.asarray(m.chi).tolist(), [float(x) for x in chi]))
    return res, out


def multlib_clause(lib, ref, mlib, mref, suf, comp, rxn, mult, case):
    """computeMacroscopicGroupConstants(..., multLib=mlib): (call result, model entries, failure or None)"""
    from armi.nuclearDataIO import xsCollections as xc
    res = call(xc.computeMacroscopicGroupConstants, rxn, comp, lib, suf, libType="micros", multConstant=mult, multLib=mlib)
    ents, total, undefined = [], None, False
    for name, d in sorted(comp.items()):
        nuc = lookup(ref, name, suf)
        if nuc is None:
            ents.append(f"[[M,{rat(d)}],F]")
            undefined = undefined or bool(d)
            continue
        mn = lookup(mref, name, suf)
        v = get_attr_arr(nuc, rxn, "micros")
        if mn is None:
            ents.append(f"[[P,{rat(d)},{opt_vec(v)},[U]],F]")
            continue
        mv = getattr(mn.micros, mult, None) if mult == "neutronsPerFission" else mn.isotxsMetadata[mult]
        mm = "[N]" if mv is None else ("[V," + enc_vec(np.asarray(mv, dtype=float).ravel()) + "]" if mult == "neutronsPerFission" else f"[S,{rat(mv)}]")
        ents.append(f"[[P,{rat(d)},{opt_vec(v)},{mm}],T]")
        if d and mv is not None and v is not None:
            mvec = [frac(x) for x in np.asarray(mv, dtype=float).ravel()] if mult == "neutronsPerFission" else [frac(mv)] * len(v)
            term = [frac(d) * frac(x) * k for x, k in zip(v, mvec)]
            total = term if total is None else [a + b for a, b in zip(total, term)]
        elif d:
            undefined = True
    f = None
    if res[0] == "ok" and res[1] is not None and (undefined or total is None or not vec_close(res[1], total)):
        f = ("macro-weighted-sum", "constant = sum over nuclides held by both libraries of N_n * sigma_n(lib) * multiplier_n(multLib); "
             "a nuclide with non-zero density missing from lib is refused", case, np.asarray(res[1]).tolist(),
             None if total is None else [float(x) for x in total])
    return res, ents, f


def run_creator(ctx):
    """createMacrosFromMicros as ONE model call (densities filter, nucNames, sorted lookups, every reaction, absorption,
    scatter matrices, total scatter, removal) for neutron and gamma libraries; computeMacroscopicGroupConstants with a
    separate multiplier library."""
    from armi.nuclearDataIO import xsCollections as xc
    rng = ctx.rng
    pending = []   # (request, what, case, parts-or-result)

    def fail(key, clause, case, obs, exp=None):
        ctx.count("oracle failure: " + key)
        if ctx.hist["oracle failure: " + key] <= 3:
            ctx.fail(key, clause, case, observed=obs, expected=exp)

    for li in range(ctx.pick(30, 300)):
        spec, ng, suf, names = gen_macro_lib(rng, ctx)
        ngam = add_gamma_collections(rng, spec, ng)
        libid = {"lib": spec}
        lib, ref = macro_libs(libid)
        fp0 = micro_fingerprint(ref)
        for ci in range(ctx.pick(4, 6)):
            comp = {nm: (dy(rng, 0, 4, 4) if rng.random() < 0.85 else 0.0) for nm in rng.sample(names, rng.randint(1, len(names)))}
            r = rng.random()
            if r < 0.08:
                comp[rng.choice([n for n in NAMES if n not in names] or ["HE4"])] = rng.choice([0.0, dy(rng, 0, 2, 4)])
            lib_type = "micros" if rng.random() < 0.65 else "gammaXS"
            groups = ng if lib_type == "micros" else ngam
            r = rng.random()
            min_dens = 0.0 if r < 0.5 else rng.choice(sorted(comp.values())[:-1] or [0.0]) if r < 0.9 else dy(rng, 0, 2, 4)
            build_scatter = rng.random() < 0.8
            r = rng.random()
            if r < 0.45:
                nuc_names, passed = list(comp), None
            else:
                nuc_names = rng.sample(sorted(comp), rng.randint(1, len(comp)))
                if rng.random() < 0.3:
                    nuc_names.append(rng.choice(nuc_names))
                passed = nuc_names
            eff = {nm: comp[nm] for nm in nuc_names if comp.get(nm, 0.0) > min_dens}
            case = dict(libid, suffix=suf, composition=comp, function="createMacrosFromMicros(whole)", libType=lib_type,
                        nucNames=passed, minimumNuclideDensity=min_dens, buildScatterMatrix=build_scatter)
            ctx.case(("creator", li, ci), nontrivial=bool(eff))
            ctx.count(f"creator call: libType={lib_type}, nucNames={'given' if passed else 'default'}, "
                      f"minDens={'0' if not min_dens else '>0'}, scatter={'built' if build_scatter else 'skipped'}")
            # hypotheses of the macroscopic theorems on the real arrays: vectors of `groups` entries, square matrices
            shapes_ok = all((getattr(getattr(n, lib_type), r9) is None or np.asarray(getattr(getattr(n, lib_type), r9)).shape[0] == groups)
                            for n in ref.getNuclides(suf) for r9 in RXN9) and \
                all((getattr(getattr(n, lib_type), a) is None or getattr(getattr(n, lib_type), a).shape == (groups, groups))
                    for n in ref.getNuclides(suf) for a in ("elasticScatter", "inelasticScatter", "n2nScatter"))
            ctx.count("theorem hypothesis (vector lengths = ng, Mat.square ng) on the library: " + ("holds" if shapes_ok else "FAILS"))
            res, fails = creator_clauses(lib, ref, suf, comp, lib_type, passed, min_dens, build_scatter, ng, groups, case)
            req = creator_request(ref, suf, lib_type, groups, min_dens, build_scatter, nuc_names, comp)
            ctx.count("creator(whole) " + ("ok" if res[0] == "ok" else "rejected " + str(res[1])))
            for f in fails:
                fail(*f)
            if res[0] != "ok":
                pending.append((req, "creator (whole) vs createMacrosFromMicros", case, None))
                continue
            m = res[1]
            parts = [np.concatenate([np.asarray(getattr(m, r9), dtype=float).ravel() for r9 in RXN9[:7]]), m.nuSigF,
                     np.asarray(m.total).ravel(), np.asarray(m.transport).ravel(), m.absorption, m.elasticScatter.toarray(),
                     m.inelasticScatter.toarray(), m.n2nScatter.toarray(), m.totalScatter.toarray(), m.removal]
            pending.append((req, "creator (whole) vs createMacrosFromMicros", case, parts))
        # --- computeMacroscopicGroupConstants with a separate multiplier library
        sub = rng.sample(names, rng.randint(1, len(names)))
        spec2, _, _, _ = gen_macro_lib(rng, ctx, names=sub, suf=suf, ng=ng)
        spec2["nucs"] = [x for x in spec2["nucs"] if not x[0].endswith("QQ")]
        mlib, mref = macro_libs({"lib": spec2})
        for ci in range(ctx.pick(3, 5)):
            comp = gen_composition(rng, names)
            rxn = rng.choice(RXN1)
            mult = rng.choice(["neutronsPerFission", "efiss", "ecapt"])
            case = dict(libid, suffix=suf, composition=comp, reaction=rxn, libType="micros", multConstant=mult, multLib={"lib": spec2})
            res, ents, f = multlib_clause(lib, ref, mlib, mref, suf, comp, rxn, mult, case)
            pending.append(("macromult [" + ",".join(ents) + "]", "macroXSMult vs computeMacroscopicGroupConstants(multLib)", case, ("res", res)))
            ctx.case(("multlib", li, ci), nontrivial=any(comp.values()))
            ctx.count("multLib call: " + ("rejected" if res[0] != "ok" else "None" if res[1] is None else "array"))
            if f:
                fail(*f)
        if micro_fingerprint(lib) != fp0:
            fail("macro-creation-mutates-microscopic-data", "computing macroscopic constants never changes the library's microscopic data",
                 dict(libid, suffix=suf, composition=comp, function="createMacrosFromMicros"), "microscopic arrays changed")
    model = lean_run("XsLib", [p[0] for p in pending])
    bad = [p[0][:200] for p, ml in zip(pending, model) if ml == "bad-op"]
    if bad:
        from harness.common import Infra
        raise Infra("XsLib driver refused a creator request: " + str(bad[:2]))
    for (rq, what, case, parts), ml in zip(pending, model):
        ctx.evaluations += 1
        ctx.count("macro request: " + rq.split(" ")[0])
        if isinstance(parts, tuple) and parts and isinstance(parts[0], str) and parts[0] == "res":
            compare_vec(ctx, what, case, ml, parts[1])
            continue
        if parts is None or ml == "reject":
            if not (parts is None and ml == "reject"):
                ctx.disagree(what, case, ml[:200], "reject" if parts is None else "ok")
            continue
        mparts = ml.split(" ")
        if len(mparts) != len(parts):
            ctx.disagree(what, case, ml[:200], "10 parts")
            continue
        for name, mp, ip in zip(("basics", "nuSigF", "total", "transport", "absorption", "elasticScatter", "inelasticScatter",
                                 "n2nScatter", "totalScatter", "removal"), mparts, parts):
            compare_vec(ctx, what + "." + name, case, mp, ("ok", np.asarray(ip, dtype=float)))
    if pending:
        ctx.samples.append({"request": pending[0][0][:300], "model": model[0][:200]})


def macros_vs_reference(m, ref, comp, suf):
    """clauses of one createMacrosFromMicros result against an independent reference library: every reaction, the three
    scatter matrices, total scatter, absorption and removal = the sums over THIS suffix's nuclides. Returns failures."""
    out = []
    dens = {k: v for k, v in comp.items() if v > 0.0}
    ng = len(m.absorption)
    for rxn in RXN1:
        want = direct_sum(ref, dens, suf, rxn, "micros", None)
        if want is None or not vec_close(getattr(m, rxn), want):
            out.append(("macro-weighted-sum", "creator reaction = sum_n N_n * sigma_n over the block's own XS ID", rxn))
    mats = {}
    for a in ("elasticScatter", "inelasticScatter", "n2nScatter"):
        want = np.zeros((ng, ng))
        for k, v in dens.items():
            nuc = lookup(ref, k, suf)
            if nuc is not None and getattr(nuc.micros, a) is not None:
                want = want + v * getattr(nuc.micros, a).toarray()
        mats[a] = want
        if not np.allclose(getattr(m, a).toarray(), want, rtol=1e-12, atol=1e-300):
            out.append(("macro-scatter-weighted-sum", "macroscopic scatter matrix = sum_n N_n * matrix_n over the block's own XS ID", a))
    ts = mats["elasticScatter"] + mats["inelasticScatter"] + 2.0 * mats["n2nScatter"]
    if not np.allclose(m.totalScatter.toarray(), ts, rtol=1e-12, atol=1e-300):
        out.append(("derived-total-scatter", "totalScatter = elastic + inelastic + 2*n2n (of this block)", None))
    absum = sum(np.array([float(x) for x in direct_sum(ref, dens, suf, r, "micros", None)])
                for r in ("nGamma", "fission", "nalph", "np", "nd", "nt", "n2n")) if dens else None
    if absum is not None:
        if not np.allclose(m.absorption, absum, rtol=1e-12, atol=1e-300):
            out.append(("derived-absorption", "absorption = sum of the absorption reactions (of this block)", m.absorption.tolist()))
        n2n = np.array([float(x) for x in direct_sum(ref, dens, suf, "n2n", "micros", None)])
        rem = absum - n2n + ts.sum(axis=0) - np.diag(ts)
        if not np.allclose(m.removal, rem, rtol=1e-11, atol=1e-300):
            out.append(("derived-removal", "removal = absorption - n2n + out-scatter (of this block)", m.removal.tolist()))
    return out


def same_macros(a, b):
    for k in ("nGamma", "fission", "nalph", "np", "nd", "nt", "n2n", "nuSigF", "absorption", "removal", "chi", "total", "transport"):
        if not np.array_equal(np.asarray(getattr(a, k)), np.asarray(getattr(b, k))):
            return k
    for k in ("elasticScatter", "inelasticScatter", "n2nScatter", "totalScatter"):
        if not np.array_equal(getattr(a, k).toarray(), getattr(b, k).toarray()):
            return k
    return None


def reuse_sequence(libid, blocks, how, sink, pending=None):
    """ONE MacroscopicCrossSectionCreator reused over blocks [(composition, suffix), ...] whose XS IDs alternate, on a merged
    library holding both IDs. Every block's result must equal a fresh creator's and the reference sums of its own suffix."""
    from armi.nuclearDataIO import xsCollections as xc
    lib, ref = macro_libs(libid)
    fp0 = micro_fingerprint(ref)
    mc = xc.MacroscopicCrossSectionCreator()
    stubs = [StubBlock(c, s) for c, s in blocks]
    if how == "blocklist":
        res = call(mc.createMacrosOnBlocklist, lib, stubs)
        results = [("ok", b.macros) if res[0] == "ok" else res for b in stubs]
    else:
        results = [call(mc.createMacrosFromMicros, lib, b) for b in stubs]
    for i, ((comp, suf), res) in enumerate(zip(blocks, results)):
        case = dict(libid, blocks=[[c, s] for c, s in blocks], index=i, how=how, suffix=suf, composition=comp,
                    function="reused MacroscopicCrossSectionCreator")
        if res[0] != "ok":
            sink("creator-rejects-valid-composition", "macros exist for a composition fully covered by the library", case, str(res[1]), None)
            continue
        m = res[1]
        for key, clause, obs in macros_vs_reference(m, ref, comp, suf):
            sink(key, clause + " [reused creator, block %d of %d, XS ID %s]" % (i + 1, len(blocks), suf), case, obs, None)
        lib2, _ = macro_libs(libid)
        fresh = call(xc.MacroscopicCrossSectionCreator().createMacrosFromMicros, lib2, StubBlock(comp, suf))
        if fresh[0] != "ok" or same_macros(m, fresh[1]):
            sink("creator-reuse-differs-from-fresh-creator", "a reused creator gives what a fresh creator gives for the same block",
                 case, same_macros(m, fresh[1]) if fresh[0] == "ok" else str(fresh), None)
        if pending is not None:
            ng = len(m.absorption)
            dens = {k: v for k, v in comp.items() if v > 0.0}
            libnucs = ref.getNuclides(suf)
            for a in ("elasticScatter", "inelasticScatter", "n2nScatter"):
                items = ",".join(f"[{rat(dens.get(n.name, 0.0))},{'N' if getattr(n.micros, a) is None else enc_mat(getattr(n.micros, a).toarray())}]"
                                 for n in libnucs)
                pending.append((f"scatter {ng} [{items}]", "reused creator." + a, dict(case, matrix=a), ("ok", getattr(m, a))))
            pending.append((f"totscat {enc_mat(m.elasticScatter.toarray())} {enc_mat(m.inelasticScatter.toarray())} {enc_mat(m.n2nScatter.toarray())}",
                            "reused creator.totalScatter", case, ("ok", m.totalScatter)))
            pending.append((f"removal {ng} {enc_vec(m.absorption)} {enc_vec(m.n2n)} {enc_mat(m.totalScatter.toarray())}",
                            "reused creator.removal", case, ("ok", m.removal)))
    if micro_fingerprint(lib) != fp0:
        sink("macro-creation-mutates-microscopic-data", "computing macroscopic constants never changes the library's microscopic data",
             dict(libid, blocks=[[c, s] for c, s in blocks], how=how, suffix=blocks[-1][1], composition=blocks[-1][0]), "arrays changed", None)


def blocklist_sets(rng, names, sufs):
    """block lists whose blocks hold DIFFERENT nuclide sets: first block the smallest / the largest / disjoint from the
    others / nested chains / identical sets, XS IDs alternating or all the same"""
    def comp_of(ns):
        c = {nm: dy(rng, 0, 4, 4) for nm in ns}
        c[rng.choice(list(c))] = dy(rng, 1, 4, 4) / 4
        return c
    names = list(names)
    out = []
    for shape in ("first-smallest", "first-largest", "disjoint", "nested", "identical"):
        k = rng.randint(2, 4)
        if shape == "first-smallest":
            sets = [names[:1]] + [rng.sample(names, rng.randint(1, len(names))) for _ in range(k - 1)] + [names]
        elif shape == "first-largest":
            sets = [names] + [rng.sample(names, rng.randint(1, max(1, len(names) - 1))) for _ in range(k - 1)]
        elif shape == "disjoint":
            sh = rng.sample(names, len(names))
            cut = max(1, len(sh) // 2)
            sets = [sh[:cut], sh[cut:] or sh[:1], sh[:cut]]
        elif shape == "nested":
            sets = [names[:i] for i in range(1, len(names) + 1)][:5]
        else:
            sets = [names] * k
        same = rng.random() < 0.4
        start = rng.randrange(len(sufs))
        out.append((shape, [(comp_of(ns), sufs[start] if same else sufs[(start + i) % len(sufs)]) for i, ns in enumerate(sets)]))
    return out


def blocklist_check(libid, blocks, nuc_names, lib_type, sink):
    """createMacrosOnBlocklist(lib, blocks, nucNames, libType): every block's macros are what a FRESH creator gives for that
    block alone, and that is the density-weighted sum over the block's own effective composition"""
    from armi.nuclearDataIO import xsCollections as xc
    lib, ref = macro_libs(libid)
    fp0 = micro_fingerprint(ref)
    stubs = [StubBlock(c, s) for c, s in blocks]
    res = call(xc.MacroscopicCrossSectionCreator().createMacrosOnBlocklist, lib, stubs, nuc_names, libType=lib_type)
    ng = ref.numGroups
    groups = ng if lib_type == "micros" else ref.numGroupsGamma
    freshes = []
    for i, (comp, suf) in enumerate(blocks):
        case = dict(libid, blocks=[[c, s] for c, s in blocks], index=i, how="blocklist", suffix=suf, composition=comp,
                    nucNames=nuc_names, libType=lib_type, function="createMacrosOnBlocklist")
        lib2, ref2 = macro_libs(libid)
        fresh, fails = creator_clauses(lib2, ref2, suf, comp, lib_type, nuc_names, 0.0, True, ng, groups, case)
        for f in fails:
            sink(*f)
        freshes.append((fresh, case))
    if res[0] != "ok":
        # the list call may only fail when some block of the list fails on its own (e.g. an empty effective composition)
        if all(f[0] == "ok" for f, _c in freshes):
            sink("creator-rejects-valid-composition", "macros exist for every block of a list fully covered by the library",
                 freshes[0][1], str(res[1]), None)
        return
    for i, (fresh, case) in enumerate(freshes):
        if fresh[0] != "ok":
            continue
        diff = same_macros(stubs[i].macros, fresh[1])
        if diff:
            sink("creator-reuse-differs-from-fresh-creator",
                 "createMacrosOnBlocklist gives every block what createMacrosFromMicros gives for that block alone", case, diff, None)
    if micro_fingerprint(lib) != fp0:
        sink("macro-creation-mutates-microscopic-data", "computing macroscopic constants never changes the library's microscopic data",
             dict(libid, blocks=[[c, s] for c, s in blocks], how="blocklist", suffix=blocks[-1][1], composition=blocks[-1][0]), "arrays changed", None)


def run_reuse(ctx):
    """creator reuse across XS IDs (createMacrosOnBlocklist / a generator looping over blocks)"""
    rng = ctx.rng
    pending = []

    def sink(key, clause, case, obs, exp):
        ctx.count("oracle failure: " + key)
        if ctx.hist["oracle failure: " + key] <= 3:
            ctx.fail(key, clause, case, observed=obs, expected=exp)

    jobs = [{"merged_fixtures": ["isoAA", "isoAB"], "scale": 1.5}]
    for _ in range(ctx.pick(8, 80)):
        ng = rng.choice([1, 2, 3, 4])
        names = rng.sample(NAMES, rng.randint(1, 5))
        sa, _, _, _ = gen_macro_lib(rng, ctx, names=names, suf="AA", ng=ng)
        sb, _, _, _ = gen_macro_lib(rng, ctx, names=names, suf="AB", ng=ng)
        for spec in (sa, sb):   # the second-suffix decoy of gen_macro_lib would collide between the two
            spec["nucs"] = [x for x in spec["nucs"] if not x[0].endswith("QQ")]
        specs = [sa, sb]
        if rng.random() < 0.4:
            sc, _, _, _ = gen_macro_lib(rng, ctx, names=names, suf="BA", ng=ng)
            sc["nucs"] = [x for x in sc["nucs"] if not x[0].endswith("QQ")]
            specs.append(sc)
        for spec in specs:
            add_gamma_collections(rng, spec, ng)
        jobs.append({"merged_libs": specs})
    for libid in jobs:
        if "merged_fixtures" in libid:
            _lib, ref = macro_libs(libid)
            names = sorted({n.name for n in ref.nuclides})
            sufs = ["AA", "AB"]
        else:
            names = [n[1]["isotxsMetadata"]["nuclideId"] for n in libid["merged_libs"][0]["nucs"]]
            sufs = [sp["nucs"][0][0][-2:] for sp in libid["merged_libs"]]
        for nblocks in (2, rng.choice([3, 4, 5])):
            start = rng.randrange(len(sufs))
            blocks = []
            for i in range(nblocks):
                comp = {nm: dy(rng, 0, 4, 4) for nm in rng.sample(names, rng.randint(1, min(len(names), 6)))}
                comp[rng.choice(list(comp))] = dy(rng, 1, 4, 4) / 4
                blocks.append((comp, sufs[(start + i) % len(sufs)]))
            small = "merged_libs" in libid
            for order, how in ((blocks, "blocklist"), (blocks[::-1], "loop")):
                reuse_sequence(libid, order, how, sink, pending if small else None)
                ctx.case(("reuse", json.dumps([b[1] for b in order]), how, hash(json.dumps(libid, sort_keys=True, default=str))))
                ctx.count(f"creator reused over {len(order)} blocks ({how})")
        # block-list API over blocks with DIFFERENT nuclide sets, nucNames defaulted or given, neutron or gamma
        if "merged_libs" in libid:
            for shape, blocks in rng.sample(blocklist_sets(rng, names, sufs), ctx.pick(2, 5)):
                r = rng.random()
                nuc_names = None if r < 0.6 else rng.sample(names, rng.randint(1, len(names)))
                lib_type = "micros" if rng.random() < 0.7 else "gammaXS"
                blocklist_check(libid, blocks, nuc_names, lib_type, sink)
                ctx.case(("blocklist", shape, json.dumps(blocks, sort_keys=True), json.dumps(nuc_names), lib_type))
                ctx.count(f"block list ({shape}), nucNames={'default' if nuc_names is None else 'given'}, {lib_type}")
    if pending:
        model = lean_run("XsLib", [p[0] for p in pending])
        for (rq, what, case, res), ml in zip(pending, model):
            compare_vec(ctx, what, case, ml, res)
            ctx.evaluations += 1
            ctx.count("macro request (reuse): " + rq.split(" ")[0])


# ----------------------------------------------------------------------------- function-level correspondence of the merge layer
def run_functions(ctx):
    """the callees of IsotxsLibrary.merge ONE BY ONE against the model definition each transcribes, same inputs on both
    sides: createImmutableProperty's setter (Prop'.set, exhaustive), NuclideMetadata.merge (Meta.merge),
    NuclideXSMetadata.merge incl. file-wide chi (FileMeta.mergeChi), XSCollection.merge (Coll.merge), XSNuclide.merge
    (Nuc.merge, post-state of the target nuclide also when it raises)."""
    from armi.nuclearDataIO import nuclearFileMetadata as nfm
    from armi.nuclearDataIO import xsCollections, xsLibraries, xsNuclides
    rng = ctx.rng
    it = Intern()
    attrs = coll_attrs()
    req, impl, cases = [], [], []

    def outcome(f):
        try:
            return f()
        except Exception:  # noqa
            return None

    # --- write-once properties: every (state, value) pair, every property
    va, vb = [1.0, 2.0], [1.0, 2.5]
    enc_v = {"N": "N", "a": str(it.val(np.array(va))), "b": str(it.val(np.array(vb))), "a2": str(it.val(np.array(va)))}
    for pname in PROPS:
        for cur in ("_", "N", "a", "b"):
            for v in ("N", "a", "b", "a2"):
                lib = xsLibraries.IsotxsLibrary()
                if cur != "_":
                    setattr(lib, pname, None if cur == "N" else np.array(va if cur == "a" else vb))
                val = None if v == "N" else np.array(va if v in ("a", "a2") else vb)
                ok = outcome(lambda: (setattr(lib, pname, val), True)[1])
                st = read_prop(lib, pname)
                req.append(f"propset {cur if cur in ('_', 'N') else enc_v[cur]} {enc_v[v]}")
                impl.append("reject" if not ok else (st if isinstance(st, str) else str(it.val(st))))
                cases.append({"function": "createImmutableProperty setter", "property": pname, "state": cur, "value": v})
                ctx.case(("propset", pname, cur, v))
                ctx.count("function level: write-once setter " + ("accepted" if ok else "rejected"))

    # --- nuclide / library metadata
    pool = {"nuclideId": ["A", "B"], "amass": [1.5, 2.5], "ords": [[1, 1], [1, 2]], "flag": [0, 1], "arr": [[0.5, 0.25], [0.5, 0.75]]}

    def gen_meta(keys, p=0.6):
        return {k: rng.choice(pool[k]) for k in keys if rng.random() < p}

    def fill(md, d):
        for k, v in d.items():
            md[k] = to_payload(k, v)
        return md

    for _ in range(ctx.pick(150, 1500)):
        keys = rng.sample(sorted(pool), rng.randint(1, 4))
        da = gen_meta(keys, 0.8) if rng.random() < 0.85 else {}
        db = {k: (da[k] if (k in da and rng.random() < 0.8) else rng.choice(pool[k])) for k in keys if rng.random() < 0.7} if rng.random() < 0.85 else {}
        a, b = fill(nfm.NuclideMetadata(), da), fill(nfm.NuclideMetadata(), db)
        res = outcome(lambda: a.merge(b, "x", "y", "ISOTXS", AttributeError))
        req.append(f"metamerge {enc(snap_meta(it, a))} {enc(snap_meta(it, b))}")
        impl.append("reject" if res is None else enc(snap_meta(it, res)))
        cases.append({"function": "NuclideMetadata.merge", "self": da, "other": db})
        ctx.case(("metamerge", json.dumps([da, db], sort_keys=True)), nontrivial=bool(da and db))
        ctx.count("function level: NuclideMetadata.merge " + ("rejected" if res is None else "one side empty" if not (da and db) else "agree"))
    for _ in range(ctx.pick(150, 1500)):
        keys = rng.sample(sorted(pool), rng.randint(0, 3))

        def lib_meta():
            d = gen_meta(keys, 0.8)
            if rng.random() < 0.5:
                d["libraryLabel"] = rng.choice(["", "", "libX", "libY"])
            if rng.random() < 0.35:
                d["chi"] = rng.choice([[0.5, 0.5], [0.75, 0.25]])
                d["fileWideChiFlag"] = 1
            elif rng.random() < 0.5:
                d["fileWideChiFlag"] = 0
            return d if rng.random() < 0.85 else {}
        da = lib_meta()
        db = lib_meta()
        if da and db and rng.random() < 0.7:    # mostly agreeing on the ordinary keys
            for k in keys:
                if k in da:
                    db[k] = da[k]
                else:
                    db.pop(k, None)
        a, b = fill(nfm.NuclideXSMetadata(), da), fill(nfm.NuclideXSMetadata(), db)
        a.fileNames, b.fileNames = ["fa"], ["fb", "fc"]
        ca, cb = xsLibraries.IsotxsLibrary(), xsLibraries.IsotxsLibrary()
        sa = (snap_meta(it, a), tuple(sorted(it.file(f) for f in a.fileNames)))
        sb = (snap_meta(it, b), tuple(sorted(it.file(f) for f in b.fileNames)))
        res = outcome(lambda: a.merge(b, ca, cb, "ISOTXS", OSError))
        req.append(f"filemetamerge {enc(sa)} {enc(sb)}")
        impl.append("reject" if res is None else enc((snap_meta(it, res), tuple(sorted(it.file(f) for f in res.fileNames)))))
        cases.append({"function": "NuclideXSMetadata.merge", "self": da, "other": db})
        ctx.case(("filemetamerge", json.dumps([da, db], sort_keys=True)), nontrivial=bool(da and db))
        ctx.count("function level: NuclideXSMetadata.merge " + ("rejected" if res is None else "one side empty" if not (da and db)
                                                                  else "drops a file-wide chi" if ("chi" in da or "chi" in db) else "agree"))

    # --- collections and nuclides
    def gen_coll(ng, p):
        c = gen_collection(rng, ng) if rng.random() < p else {}
        c.pop("higherOrderScatter", None)
        return c

    def fill_coll(coll, d):
        for k, v in d.items():
            setattr(coll, k, to_payload(k, v))
        return coll

    for _ in range(ctx.pick(120, 1200)):
        ng = rng.choice([1, 2, 3])
        da, db = gen_coll(ng, 0.6), gen_coll(ng, 0.6)
        a, b = fill_coll(xsCollections.XSCollection(parent=None), da), fill_coll(xsCollections.XSCollection(parent=None), db)
        sa, sb = snap_coll(it, a, attrs), snap_coll(it, b, attrs)
        full = lambda t: t if t else tuple("N" for _ in attrs)   # noqa
        ok = outcome(lambda: (a.merge(b), True)[1])
        req.append(f"collmerge {enc(full(sa))} {enc(full(sb))}")
        impl.append("reject" if not ok else enc(snap_coll(it, a, attrs)) if snap_coll(it, a, attrs) else "[]")
        cases.append({"function": "XSCollection.merge", "self": da, "other": db})
        ctx.case(("collmerge", json.dumps([da, db], sort_keys=True)), nontrivial=bool(da or db))
        ctx.count("function level: XSCollection.merge " + ("rejected" if not ok else "accepted"))

    def gen_nuc(ng, ngam, donor=None):
        n = {}
        if rng.random() < 0.6:
            n["isotxsMetadata"] = dict(donor["isotxsMetadata"]) if donor and "isotxsMetadata" in donor and rng.random() < 0.7 else gen_nuc_meta(rng, "iso")
            if rng.random() < 0.8:
                n["micros"] = gen_coll(ng, 1.0)
        if rng.random() < 0.5:
            n["gamisoMetadata"] = dict(donor["gamisoMetadata"]) if donor and "gamisoMetadata" in donor and rng.random() < 0.7 else gen_nuc_meta(rng, "gam")
            if rng.random() < 0.8:
                n["gammaXS"] = gen_coll(ngam, 1.0)
        if rng.random() < 0.5:
            n["pmatrxMetadata"] = dict(donor["pmatrxMetadata"]) if donor and "pmatrxMetadata" in donor and rng.random() < 0.7 else gen_nuc_meta(rng, "pm")
            n["attrs"] = {a: [dy(rng, 0, 4) for _ in range(ng)] for a in ATTRS[:3] if rng.random() < 0.5}
        return n

    def snap_nuc(n):
        return (it.label("X1AA"), snap_meta(it, n.isotxsMetadata), snap_meta(it, n.gamisoMetadata), snap_meta(it, n.pmatrxMetadata),
                snap_coll(it, n.micros, attrs), snap_coll(it, n.gammaXS, attrs),
                tuple("N" if getattr(n, a) is None else it.val(getattr(n, a)) for a in ATTRS))

    for _ in range(ctx.pick(200, 2000)):
        ng, ngam = rng.choice([1, 2, 3]), rng.choice([1, 2])
        da = gen_nuc(ng, ngam)
        db = gen_nuc(ng, ngam, donor=da)
        la = build({"nucs": [["X1AA", da]]})
        lb = build({"nucs": [["X1AA", db]]})
        a, b = la["X1AA"], lb["X1AA"]
        sa, sb = snap_nuc(a), snap_nuc(b)
        ok = outcome(lambda: (a.merge(b), True)[1])
        req.append(f"nucmerge {enc(sa)} {enc(sb)}")
        impl.append(("T " if ok else "F ") + enc(snap_nuc(a)))
        cases.append({"function": "XSNuclide.merge", "self": da, "other": db})
        ctx.case(("nucmerge", json.dumps([da, db], sort_keys=True)), nontrivial=bool(da and db))
        ctx.count("function level: XSNuclide.merge " + ("accepted" if ok else "rejected, target nuclide " + ("unchanged" if snap_nuc(a) == sa else "partly merged")))
    model = lean_run("XsLib", req)
    if any(m == "bad-op" for m in model):
        from harness.common import Infra
        raise Infra("XsLib driver refused a function-level request: " + str([r[:200] for r, m in zip(req, model) if m == "bad-op"][:2]))
    ctx.compare("Model/XsLib.lean definitions vs the callees of IsotxsLibrary.merge, function by function", cases, model, impl)
    ctx.samples.append({"request": req[-1][:300], "model": model[-1][:300], "impl": impl[-1][:300]})


# ----------------------------------------------------------------------------- merging the files of a working directory
def workdir_flow(case):
    """run mergeXSLibrariesInWorkingDirectory on a scratch directory holding case['files'] (fixture -> name) and decoys;
    returns (error or None, snapshot of the library, snapshot of reading + merging case['expect'] directly)"""
    import os
    import shutil
    import armi
    from harness import common
    from armi.nuclearDataIO import xsLibraries
    from armi.nuclearDataIO.cccc import gamiso, isotxs, pmatrx
    it = Intern()
    attrs = coll_attrs()
    fx = os.path.join(os.path.dirname(armi.__file__), "nuclearDataIO", "tests", "fixtures")
    with common.scratch_dir() as _d:
        d = os.getcwd()
        for src, dst in case["files"]:
            shutil.copy(os.path.join(fx, src), os.path.join(d, dst))
        for dst in case.get("decoys", []):
            with open(os.path.join(d, dst), "w") as f:
                f.write("not a library")
        lib = xsLibraries.IsotxsLibrary()
        err = None
        try:
            for suffix in case["calls"]:
                xsLibraries.mergeXSLibrariesInWorkingDirectory(lib, suffix, mergeGammaLibs=case["gamma"], alternateDirectory=d)
        except Exception as e:  # noqa
            err = type(e).__name__ + ": " + str(e)[:80]
        ref = xsLibraries.IsotxsLibrary()
        for name in case["expect"]:
            rd = gamiso if name.endswith("gamiso") else pmatrx if name.endswith("pmatrx") else isotxs
            ref.merge(rd.readBinary(os.path.join(d, name)))
        return err, snap(it, lib, attrs), snap(it, ref, attrs)


def workdir_judge(case, key=None):
    """the property's clauses on one working-directory merge: [(key, clause, case, observed, expected)]"""
    err, got, want = workdir_flow(case)
    if err:
        return [(key or "workdir-merge-raises", "the files selected in the working directory merge into the library", case, err, None)], err
    if {n[0] for n in got[2]} != {n[0] for n in want[2]}:
        return [(key or "workdir-merge-labels", "library = union of the nuclides of the selected files", case, len(got[2]), len(want[2]))], err
    if content(got)[2] != content(want)[2] or content(got)[0] != content(want)[0]:
        return [(key or "workdir-merge-content", "nuclide data and group structure identical to reading and merging the files directly",
                 case, None, None)], err
    return [], err


def selection_clause(sfx, names, prefix):
    """getISOTXSLibrariesToMerge: which files are merged does not depend on the directory they are listed with"""
    import os
    from armi.nuclearDataIO import xsLibraries
    plain = xsLibraries.getISOTXSLibrariesToMerge(sfx, list(names))
    full = xsLibraries.getISOTXSLibrariesToMerge(sfx, [os.path.join(prefix, n) for n in names])
    extra = {os.path.basename(f) for f in full} - set(plain)
    missing = set(plain) - {os.path.basename(f) for f in full}
    if extra or missing or len(full) != len(plain):
        return ("workdir-merge-unsuffixed-file-not-shadowed" if (sfx and extra and not missing and all("-" not in e for e in extra))
                else "workdir-selection-depends-on-directory",
                "which library files are merged does not depend on the directory they are listed with",
                {"suffix": sfx, "names": list(names), "prefix": prefix}, sorted(os.path.basename(f) for f in full), sorted(plain))
    return None


def run_workdir(ctx):
    """mergeXSLibrariesInWorkingDirectory / getISOTXSLibrariesToMerge on scratch copies of the fixture files: the library
    ends up with exactly what reading the selected files and merging them one by one gives (union of labels, same content),
    decoy files are left alone, files merged earlier are skipped."""
    import os
    rng = ctx.rng

    def fail(key, clause, case, obs, exp=None):
        ctx.count("oracle failure: " + key)
        if ctx.hist["oracle failure: " + key] <= 3:
            ctx.fail(key, clause, case, observed=obs, expected=exp)

    def judge(case, key=None):
        fails, err = workdir_judge(case, key)
        ctx.case(("workdir", json.dumps(case, sort_keys=True)))
        ctx.count("working-directory merge: " + ("ok" if not err else "raised"))
        for f in fails:
            fail(*f)

    iso = {"AA": "ISOAA", "AB": "ISOAB"}
    cases = []
    for _ in range(ctx.pick(5, 30)):
        ids = rng.sample(["AA", "AB"], rng.choice([1, 2, 2]))
        gamma = rng.random() < 0.5
        sfx = rng.choice(["", "", "-n1", "-doppler"])
        files, expect = [], []
        for x in sorted(ids):
            files.append((iso[x], "ISO" + x + sfx))
            expect.append("ISO" + x + sfx)
            if gamma:
                files += [(x + ".gamiso", x + ".gamiso"), (x + ".pmatrx", x + ".pmatrx")]
                expect += [x + ".gamiso", x + ".pmatrx"]
        decoys = rng.sample(["ISOTXS", "ISOAA.ascii", "ISOTXS.BCD", "ISOAB.BCD", "ISOTXS-c2"], rng.randint(0, 3))
        if sfx:
            other = [x for x in ("AA", "AB") if x not in ids]
            if other and rng.random() < 0.6:     # an XS ID that only exists without the suffix is merged too
                files.append((iso[other[0]], "ISO" + other[0]))
                expect.append("ISO" + other[0])
                if gamma:
                    files += [(other[0] + ".gamiso", other[0] + ".gamiso"), (other[0] + ".pmatrx", other[0] + ".pmatrx")]
                    expect += [other[0] + ".gamiso", other[0] + ".pmatrx"]
            decoys.append("ISO" + ids[0] + "-zz9")  # another suffix: not to be merged
        # a second call finds everything already merged (only without suffix: with one, the function re-reads the library
        # from a file it wrote under another name, "ISOAA--n1", so the "already merged" test never matches - not C10's subject)
        calls = [sfx] if (sfx or rng.random() < 0.5) else [sfx, sfx]
        cases.append({"files": [list(f) for f in files], "decoys": decoys, "expect": expect, "calls": calls, "gamma": gamma})
    for case in cases:
        judge(case)
    # file selection, function level: the choice does not depend on the directory the names are prefixed with
    for _ in range(ctx.pick(40, 400)):
        sfx = rng.choice(["", "-n1", "-doppler", "-n23"])
        names = set()
        for x in rng.sample(["AA", "AB", "BA", "CA", "DA"], rng.randint(1, 4)):
            for form in rng.sample(["", sfx, "-zz9", "F" + sfx, ".BCD", ".ascii"], rng.randint(1, 3)):
                names.add("ISO" + x + form)
        names |= set(rng.sample(["ISOTXS", "ISOTXS-c2", "dummyISOTXS", "ISOTXS.BCD"], rng.randint(0, 2)))
        names = sorted(names)
        shadowed = sfx and any(("ISO" + n[3:5]) in names and n.endswith(sfx) and "-" in n and not n[5:].startswith("F") for n in names)
        for prefix in ("some-dir", os.path.join(os.sep, "tmp", "run1")):
            ctx.case(("select", sfx, tuple(names), prefix))
            ctx.count("file selection: " + ("suffix shadows an unsuffixed file" if shadowed else "no shadowing"))
            f = selection_clause(sfx, names, prefix)
            if f:
                fail(*f)
    # excluded point: ISOAA and ISOAA-n1 side by side, suffix -n1: documented choice = ISOAA-n1 (+ ISOAB); the code also merges ISOAA
    judge({"files": [["ISOAA", "ISOAA"], ["ISOAA", "ISOAA-n1"], ["ISOAB", "ISOAB"]], "decoys": [], "expect": ["ISOAA-n1", "ISOAB"],
           "calls": ["-n1"], "gamma": False}, key="workdir-merge-unsuffixed-file-not-shadowed")


# ----------------------------------------------------------------------------- file-wide chi (oracle side)
CHI_FIX = {}


def chi_fixture(name):
    """'fwAA' / 'fwAB': ISOAA / ISOAB turned into legitimate FILE-WIDE-chi libraries (chi once in the file header, fissile
    nuclides with chiFlag = 0), obtained by setting the metadata as the reader would and a write / read round trip.
    Other names: the plain fixtures."""
    import copy
    from harness import common
    from armi.nuclearDataIO.cccc import isotxs
    if name not in ("fwAA", "fwAB"):
        return load_fixture(name)
    if name not in CHI_FIX:
        lib = load_fixture("iso" + name[2:])
        src = next(n for n in lib.nuclides if n.isotxsMetadata["fisFlag"] > 0)
        chi = np.array(src.micros.chi, dtype=float)
        if name == "fwAB":
            chi = np.roll(chi, 1)
        chi = chi / chi.sum()
        lib.isotxsMetadata["fileWideChiFlag"] = 1
        lib.isotxsMetadata["chi"] = chi
        for n in lib.nuclides:
            if n.isotxsMetadata["fisFlag"] > 0:
                n.isotxsMetadata["chiFlag"] = 0
                n.micros.chi = chi
        with common.scratch_dir():
            isotxs.writeBinary(lib, "FW")
            CHI_FIX[name] = isotxs.readBinary("FW")
    return copy.deepcopy(CHI_FIX[name])


def gen_chi_lib(rng, suffix, bases, ng, filewide):
    spec = gen_lib(rng, "iso", suffix, bases, ng, 2, "ISO" + suffix)
    spec["isotxsMetadata"]["data"]["libraryLabel"] = ""
    chi = [dy(rng, 0, 2) + 0.125 for _ in range(ng)]
    for k, (_lab, n) in enumerate(spec["nucs"]):
        n["isotxsMetadata"]["nuclideId"] = "A"
        n["isotxsMetadata"]["fisFlag"] = 1 if (k == 0 or rng.random() < 0.5) else 0
        if n["isotxsMetadata"]["fisFlag"]:
            n["isotxsMetadata"]["chiFlag"] = 0 if filewide else 1
            n["micros"]["chi"] = chi if filewide else [dy(rng, 0, 2) for _ in range(ng)]
    if filewide:
        spec["isotxsMetadata"]["data"]["fileWideChiFlag"] = 1
        spec["isotxsMetadata"]["data"]["chi"] = chi
    return spec


def has_filewide_chi(lib):
    return lib.isotxsMetadata["chi"] is not None


def chi_state(lib):
    """label -> (chiFlag, fisFlag, chi array bytes) for the nuclides carrying ISOTXS data"""
    out = {}
    for lab in lib.nuclideLabels:
        n = lib[lab]
        if n.isotxsMetadata["fisFlag"] is not None:
            out[str(lab)] = (n.isotxsMetadata["chiFlag"], n.isotxsMetadata["fisFlag"],
                             None if n.micros.chi is None else np.asarray(n.micros.chi, dtype=float).tobytes())
    return out


def chi_oracle(ctx, make, names, orders, sink, roundtrip):
    """the file-wide-chi clauses on the real classes, for every given order, starting from an empty target"""
    from harness import common
    from armi.nuclearDataIO import xsLibraries
    from armi.nuclearDataIO.cccc import isotxs
    src_chi, nfw = {}, 0
    for nm in names:
        lib = make(nm)
        nfw += has_filewide_chi(lib)
        for lab, st in chi_state(lib).items():
            src_chi[lab] = st
    outcomes = {}
    for order in orders:
        case = {"chi_libs": [names[i] if isinstance(names[i], str) else names[i] for i in order], "order": list(range(len(order)))}
        t = xsLibraries.IsotxsLibrary()
        err = None
        for i in order:
            other = make(names[i])
            before = chi_state(t)
            try:
                t.merge(other)
            except Exception as e:  # noqa
                err = type(e).__name__
                if chi_state(t) != before:
                    sink("rejected-merge-rewrites-chiflags", "a rejected merge leaves the target unchanged", case,
                         {"error": err}, "chiFlags of the target's nuclides unchanged")
                break
        outcomes[order] = (err, None if err else chi_state(t))
        ctx.count(f"file-wide-chi sequence ({nfw} of {len(names)} libraries with file-wide chi): " + ("accepted" if not err else "rejected " + err))
        if err:
            continue
        st = chi_state(t)
        if not has_filewide_chi(t):
            left = [lab for lab, (cf, ff, _c) in st.items() if ff and ff > 0 and cf == 0]
            if left:
                sink("merge-filewide-chi-fissile-nuclide-left-without-chi",
                     "after a merge that drops the file-wide chi every fissile nuclide carries its own chi (chiFlag != 0)", case, left[:6], [])
        wrong = [lab for lab in st if lab in src_chi and st[lab][2] != src_chi[lab][2]]
        if wrong or set(st) != set(src_chi):
            sink("merge-payload-identity", "each nuclide's chi equals its source's", case, wrong[:6], [])
        if roundtrip:
            try:
                with common.scratch_dir():
                    isotxs.writeBinary(t, "MERGED")
                    back = isotxs.readBinary("MERGED")
                bst = chi_state(back)
                wrong = [lab for lab in src_chi if lab not in bst or bst[lab][2] != src_chi[lab][2]]
                if wrong:
                    sink("merge-filewide-chi-lost-on-write-read", "the merged library written and read back gives each nuclide its source's chi",
                         case, wrong[:6], [])
            except Exception as e:  # noqa
                sink("merge-filewide-chi-not-writable-readable", "the merged library can be written and read back", case,
                     type(e).__name__ + ": " + str(e)[:120], "round trip")
    oks = {o: v[0] is None for o, v in outcomes.items()}
    if len(set(oks.values())) > 1:
        bad = next(o for o in orders if not oks[o])
        good = next(o for o in orders if oks[o])
        key = ("merge-order-dependent-filewide-chi-typeerror" if outcomes[bad][0] == "TypeError" and nfw
               else "merge-success-order-dependent")
        sink(key, "whether a set of libraries merges does not depend on the order",
             {"chi_libs": [names[i] for i in bad], "order": list(range(len(bad)))},
             {"rejected": [str(names[i])[:20] for i in bad], "error": outcomes[bad][0], "accepted": [str(names[i])[:20] for i in good]}, None)
    states = {}
    for o, (err, st) in outcomes.items():
        if not err:
            states.setdefault(json.dumps(sorted((k, str(v[0]), str(v[1]), hash(v[2])) for k, v in st.items())), o)
    if len(states) > 1:
        a, b = list(states.values())[:2]
        sink("merge-content-order-dependent", "content (chi, chiFlag) of the merged library does not depend on the merge order",
             {"chi_libs": [names[i] for i in b], "order": list(range(len(b)))}, {"orders": [list(a), list(b)]}, None)


def chi_correspondence(it, attrs, make, names, orders, req, impl, cases):
    """Model/XsLib.lean mergeAllChi (file-wide chi + chiFlag side effect transcribed) vs the real merges, going on after
    rejections; the whole canonical state is compared (chiFlag / fileWideChiFlag / chi entries included)"""
    from armi.nuclearDataIO import xsLibraries
    for order in orders:
        target = xsLibraries.IsotxsLibrary()
        srcs = [snap(it, make(names[i]), attrs, keep_order=True) for i in order]
        flags = []
        for i in order:
            try:
                target.merge(make(names[i]))
                flags.append("T")
            except Exception:  # noqa
                flags.append("F")
        req.append(op("mergeallchi") + " " + " ".join(enc_lib(x) for x in srcs))
        impl.append("[" + ",".join(flags) + "] " + enc_lib(snap(it, target, attrs)))
        cases.append({"chi_libs": [names[i] for i in order], "order": list(range(len(order)))})


def run_chi(ctx):
    """file-wide chi: the oracle clauses on the real classes (every fissile nuclide keeps a usable chi, chi = source's,
    write / read round trip, all orders) AND the correspondence with Lib.mergeChi / mergeAllChi of the Lean model"""
    rng = ctx.rng
    it = Intern()
    attrs = coll_attrs()
    req, impl, cases = [], [], []

    def sink(key, clause, case, obs, exp):
        ctx.count("oracle failure: " + key)
        if ctx.hist["oracle failure: " + key] <= 3:
            ctx.fail(key, clause, case, observed=obs, expected=exp)

    sets = [["fwAA", "fwAB"], ["fwAA", "isoAB"], ["isoAA", "fwAB"], ["isoAA", "isoAB"], ["fwAA", "fwAB", "pmAA"],
            ["fwAA", "isoAB", "gamAA"], ["fwAA", "gamAA"], ["fwAA", "fwAB", "gamAB"]]
    if ctx.thorough:
        sets += [["fwAA", "fwAB", "gamAA"], ["isoAA", "fwAB", "gamAB"], ["fwAA", "gamAB", "isoAB"], ["fwAA", "fwAB", "pmAB"]]
    for names in sets:
        chi_oracle(ctx, chi_fixture, names, list(itertools.permutations(range(len(names)))), sink, roundtrip=True)
        chi_correspondence(it, attrs, chi_fixture, names, list(itertools.permutations(range(len(names)))), req, impl, cases)
        ctx.case(("chi-fixtures", tuple(names)))
    # excluded point: a merge rejected by a LATER nuclide collision after _mergeMetadata has already rewritten chiFlags
    chi_oracle(ctx, chi_fixture, ["fwAA", "fwAA"], [(0, 1)], sink, roundtrip=False)
    chi_oracle(ctx, chi_fixture, ["fwAA", "gamAA", "fwAB", "fwAA"], [(0, 1, 2, 3), (1, 2, 0, 3)], sink, roundtrip=False)
    chi_correspondence(it, attrs, chi_fixture, ["fwAA", "fwAA", "fwAB"], [(0, 1, 2)], req, impl, cases)
    chi_correspondence(it, attrs, chi_fixture, ["fwAA", "gamAA", "fwAB", "fwAA", "isoAB"], [(0, 1, 2, 3, 4), (1, 2, 0, 3, 4)], req, impl, cases)
    for _ in range(ctx.pick(25, 300)):
        ng = rng.choice([1, 2, 3])
        k = rng.choice([2, 2, 3])
        specs = [gen_chi_lib(rng, suf, rng.sample(BASES, rng.randint(1, 3)), ng, rng.random() < 0.55)
                 for suf in rng.sample(["AA", "AB", "BA", "ZZ"], k)]
        if rng.random() < 0.3:
            suf = specs[0]["nucs"][0][0][-2:]
            specs.append(gen_lib(rng, "gam", suf, [specs[0]["nucs"][0][0][:-2]], ng, 2, suf + ".gamiso"))
        chi_oracle(ctx, build, specs, list(itertools.permutations(range(len(specs)))), sink, roundtrip=False)
        if rng.random() < 0.4:   # a duplicate somewhere: rejected merges in the middle of a file-wide-chi sequence
            specs = specs + [json.loads(json.dumps(rng.choice(specs)))]
        chi_correspondence(it, attrs, build, specs, merge_orders(len(specs), rng, ctx.pick(3, 6)), req, impl, cases)
        ctx.case(("chi-generated", hash(json.dumps(specs, sort_keys=True))))
    model = lean_run("XsLib", req)
    if any(m == "bad-op" for m in model):
        from harness.common import Infra
        raise Infra("XsLib driver refused a file-wide-chi request: " + str([r[:200] for r, m in zip(req, model) if m == "bad-op"][:2]))
    keep = [i for i, m in enumerate(model) if m != "out-of-domain"]
    ctx.count("file-wide-chi sequences compared with mergeAllChi", len(keep))
    ctx.count("file-wide-chi sequences outside the model (fisFlag not in {absent, 0, 1})", len(model) - len(keep))
    ctx.compare("Model/XsLib.lean mergeAllChi vs IsotxsLibrary.merge with file-wide chi", [cases[i] for i in keep],
                [model[i] for i in keep], [impl[i] for i in keep])


def run(ctx):
    import logging
    logging.disable(logging.CRITICAL)  # runLog.error chatter of the refused calls
    try:
        run_merge(ctx)
        run_macro(ctx)
        run_creator(ctx)
        run_reuse(ctx)
        run_chi(ctx)
        run_workdir(ctx)
        run_functions(ctx)
    finally:
        logging.disable(logging.NOTSET)
    ctx.rule = ("merge: seeded scenarios of 2-5 libraries (iso/gamiso/pmatrx-like and pre-merged mixes, 1-33 groups, 1-4 nuclides "
                "per suffix, optional reactions, sparse scatter, higher-order scatter / n-order production payloads, 8 kinds of "
                "injected conflict) + the six fixture libraries, every merge order (<= 24); every nuclide-level conflict kind x "
                "position (first/middle/last) of the conflicting nuclide; boundary sizes of the nuclide set (libraries with zero / one "
                "nuclide, built so or purged, that still carry group structure and file metadata: as other, as target, both, in "
                "sequences of 3-5, consistent or conflicting); sequences that go on after rejected merges; one case = "
                "one ordered merge sequence, distinct by the canonical source snapshots, non-trivial when >= 2 libraries (go-on: "
                "when an accepted merge follows a rejected one). macros: seeded libraries x compositions (zero densities, missing "
                "nuclides, missing reactions); one case = one composition on one library, non-trivial when some density is "
                "non-zero. creator: one createMacrosFromMicros call (neutron / gamma libType, nucNames given or not, minimum "
                "density, scatter built or not) or one computeMacroscopicGroupConstants call with a multiplier library. "
                "reuse: one creator over 2-5 blocks with alternating XS IDs on merged two/three-ID libraries, both block orders; "
                "createMacrosOnBlocklist over block lists with different nuclide sets (first smallest / largest, disjoint, nested, "
                "identical), nucNames defaulted or given, neutron or gamma. "
                "chi: 0-3 file-wide-chi libraries in every order, oracle + mergeAllChi. workdir: scratch directories of fixture "
                "files (suffixes, decoys, gamma on/off) and generated file-name lists.")


# ----------------------------------------------------------------------------- search / replay
def search(ctx, disagreements, broken):
    """Evaluate the property's clauses on the real classes around every disagreeing case: all orders of the
    scenario and of each of its sub-scenarios (merge); the scaled / split compositions (macros)."""
    from armi.nuclearDataIO import xsCollections as xc
    out = []
    it = Intern()
    attrs = coll_attrs()

    def sink(key, clause, case, obs, exp):
        out.append(Failure(key, clause, case, obs, exp))

    seen = set()
    for d in disagreements[:20]:
        c = d.case
        if isinstance(c, dict) and "libs" in c and "order" in c:
            k = json.dumps(c["libs"], sort_keys=True, default=str)
            if k in seen:
                continue
            seen.add(k)
            items = c["libs"]
            n = len(items)
            for size in range(2, n + 1):
                for sub in itertools.combinations(range(n), size):
                    subitems = [items[i] for i in sub]
                    oracle_scenario(ctx, it, attrs, subitems, c.get("tag", "?"), None,
                                    list(itertools.permutations(range(size))), sink)
        elif isinstance(c, dict) and str(c.get("function", "")) in ("XSNuclide.merge", "XSCollection.merge", "NuclideMetadata.merge",
                                                                      "NuclideXSMetadata.merge", "createImmutableProperty setter"):
            # lift the function-level inputs into two libraries and judge the property's clauses on their merge, both orders
            fn = c["function"]
            if fn == "XSNuclide.merge":
                pair = [{"nucs": [["X1AA", c["self"]]]}, {"nucs": [["X1AA", c["other"]]]}]
            elif fn == "XSCollection.merge":
                pair = [{"nucs": [["X1AA", {"micros": c["self"]}]]}, {"nucs": [["X1AA", {"micros": c["other"]}]]}]
            elif fn == "NuclideMetadata.merge":
                pair = [{"nucs": [["X1AA", {"isotxsMetadata": c["self"]}]]}, {"nucs": [["X1AA", {"isotxsMetadata": c["other"]}]]}]
            elif fn == "NuclideXSMetadata.merge":
                pair = [{"isotxsMetadata": {"data": c["self"], "files": ["fa"]}, "nucs": []},
                        {"isotxsMetadata": {"data": c["other"], "files": ["fb"]}, "nucs": []}]
            else:
                vals = {"N": None, "a": [1.0, 2.0], "a2": [1.0, 2.0], "b": [1.0, 2.5]}
                pair = [{"props": ({} if c["state"] == "_" else {c["property"]: vals[c["state"]]}), "nucs": []},
                        {"props": {c["property"]: vals[c["value"]]}, "nucs": []}]
            if any("chi" in (x.get("isotxsMetadata", {}).get("data", {})) for x in pair):
                sub = type(ctx)(ctx.prop, "quick", ctx.seed)
                chi_oracle(sub, build, pair, [(0, 1), (1, 0)], sink, roundtrip=False)
            else:
                oracle_scenario(ctx, it, attrs, pair, "function-level", None, [(0, 1), (1, 0)], sink)
        elif isinstance(c, dict) and "chi_libs" in c:
            names = c["chi_libs"]
            k = json.dumps(sorted(json.dumps(x, sort_keys=True, default=str) for x in names))
            if k in seen:
                continue
            seen.add(k)
            fixtures = all(isinstance(x, str) for x in names)
            sub = type(ctx)(ctx.prop, "quick", ctx.seed)
            chi_oracle(sub, chi_fixture if fixtures else build, names, list(itertools.permutations(range(len(names))))[:24], sink,
                       roundtrip=fixtures)
        elif isinstance(c, dict) and "blocks" in c:
            libid = {k: c[k] for k in ("merged_libs", "merged_fixtures", "scale") if k in c}
            for order in (c["blocks"], c["blocks"][::-1]):
                reuse_sequence(libid, [(x, sfx) for x, sfx in order], "loop", sink)
        elif isinstance(c, dict) and "composition" in c and c.get("function") == "createMacrosFromMicros(whole)":
            lib, ref = macro_libs(c)
            ng = ref.numGroups
            for lt in ("micros", "gammaXS"):
                for names in (c.get("nucNames"), None):
                    for md in (c["minimumNuclideDensity"], 0.0):
                        for bs in (True, False):
                            cv = dict(c, libType=lt, nucNames=names, minimumNuclideDensity=md, buildScatterMatrix=bs)
                            _res, fails = creator_clauses(lib, ref, c["suffix"], c["composition"], lt, names, md, bs, ng,
                                                          ng if lt == "micros" else ref.numGroupsGamma, cv)
                            out.extend(Failure(f[0], f[1], f[2], f[3], f[4]) for f in fails[:2])
        elif isinstance(c, dict) and "composition" in c and "multLib" in c:
            lib, ref = macro_libs(c)
            mlib, mref = macro_libs(c["multLib"])
            for rxn in RXN1:
                for mult in ("neutronsPerFission", "efiss", "ecapt"):
                    cv = dict(c, reaction=rxn, multConstant=mult)
                    _res, _ents, f = multlib_clause(lib, ref, mlib, mref, c["suffix"], c["composition"], rxn, mult, cv)
                    if f:
                        out.append(Failure(f[0], f[1], f[2], f[3], f[4]))
        elif isinstance(c, dict) and "composition" in c:
            lib, _ref = macro_libs(c)
            comp, suf = c["composition"], c["suffix"]
            variants = [comp] + [{k: v * s for k, v in comp.items()} for s in (0.5, 2.0)] + \
                       [{k: v for k, v in comp.items() if k != drop} for drop in comp]
            for cv in variants:
                for rxn, lt, mult in [(r, "micros", None) for r in RXN1] + [("fission", "micros", "neutronsPerFission"),
                                                                           ("fission", "micros", "efiss"), ("neutronHeating", None, None)]:
                    res = call(xc.computeMacroscopicGroupConstants, rxn, cv, lib, suf, libType=lt, multConstant=mult)
                    want = direct_sum(lib, cv, suf, rxn, lt, mult)
                    if res[0] == "ok" and res[1] is not None and (want is None or not vec_close(res[1], want)):
                        out.append(Failure("macro-weighted-sum", "macroscopic constant = sum_n N_n * sigma_n (* multiplier)",
                                           dict(c, composition=cv, reaction=rxn, libType=lt, multConstant=mult),
                                           np.asarray(res[1]).ravel().tolist(), None if want is None else [float(x) for x in want]))
                r = replay_creator(c, cv, suf)
                if r:
                    out.append(Failure(r[0], r[1], dict(c, composition=cv, function="createMacrosFromMicros"), r[2]))
    return out


def replay_creator(libid, comp, suf):
    """several creator calls in sequence (the last one on `comp`), every clause against a reference copy"""
    from armi.nuclearDataIO import xsCollections as xc
    lib_impl, lib = macro_libs(libid)
    names = [n.name for n in lib.nuclides]
    for warm in ({names[0]: 1.0}, {n: 0.5 for n in names[:3]}):
        call(xc.MacroscopicCrossSectionCreator().createMacrosFromMicros, lib_impl, StubBlock(warm, suf))
    if micro_fingerprint(lib_impl) != micro_fingerprint(lib):
        return ("macro-creation-mutates-microscopic-data", "macro creation never changes microscopic data", "arrays changed")
    res = call(xc.MacroscopicCrossSectionCreator().createMacrosFromMicros, lib_impl, StubBlock(comp, suf))
    if res[0] != "ok":
        return None
    m = res[1]
    absum = sum(getattr(m, r) for r in ("nGamma", "fission", "nalph", "np", "nd", "nt", "n2n"))
    if not np.allclose(m.absorption, absum, rtol=1e-12, atol=0):
        return ("derived-absorption", "absorption = sum of absorption reactions", m.absorption.tolist())
    ts = (m.elasticScatter + m.inelasticScatter + 2.0 * m.n2nScatter).toarray()
    if not np.allclose(m.totalScatter.toarray(), ts, rtol=1e-12, atol=0):
        return ("derived-total-scatter", "totalScatter = elastic + inelastic + 2*n2n", None)
    rem = m.absorption - m.n2n + ts.sum(axis=0) - np.diag(ts)
    if not np.allclose(m.removal, rem, rtol=1e-12, atol=1e-300):
        return ("derived-removal", "removal = absorption - n2n + out-scatter", m.removal.tolist())
    dens = {k: v for k, v in comp.items() if v > 0.0}
    ng = len(m.absorption)
    for a in ("elasticScatter", "inelasticScatter", "n2nScatter"):
        want = np.zeros((ng, ng))
        for k, v in dens.items():
            nuc = lookup(lib, k, suf)
            if nuc is not None and getattr(nuc.micros, a) is not None:
                want = want + v * getattr(nuc.micros, a).toarray()
        if not np.allclose(getattr(m, a).toarray(), want, rtol=1e-12, atol=0):
            return ("macro-scatter-weighted-sum", "macroscopic scatter matrix = sum_n N_n * matrix_n", a)
    for rxn in RXN1:
        want = direct_sum(lib, dens, suf, rxn, "micros", None)
        if want is None or not vec_close(getattr(m, rxn), want):
            return ("macro-weighted-sum", "creator reaction = sum_n N_n * sigma_n", rxn)
    return None


def replay(ctx, payload):
    """Re-evaluate the recorded clause on the real code."""
    from armi.nuclearDataIO import xsCollections as xc
    key, case = payload["key"], payload["case"]
    if key == "merge-fixtures-differ-from-shipped-combined-library":
        import random
        hits = []
        combined_reference(type(ctx)(ctx.prop, "quick", ctx.seed), Intern(), coll_attrs(),
                           [x["fixture"] for x in case["libs"]], random.Random(0),
                           lambda k, cl, c, o, e: hits.append({"key": k, "observed": o}))
        return hits[0] if hits else None
    if isinstance(case, dict) and "files" in case and "calls" in case:
        fails, _err = workdir_judge(case, key if key == "workdir-merge-unsuffixed-file-not-shadowed" else None)
        hit = [f for f in fails if f[0] == key]
        return {"key": key, "observed": hit[0][3]} if hit else None
    if isinstance(case, dict) and "names" in case and "prefix" in case:
        f = selection_clause(case["suffix"], case["names"], case["prefix"])
        return {"key": f[0], "observed": f[3], "expected": f[4]} if f and f[0] == key else None
    if isinstance(case, dict) and case.get("continue_after_rejection"):
        it = Intern()
        hits = []
        steps, _final = run_all(it, coll_attrs(), case["libs"], tuple(case["order"]))
        oracle_steps(it, steps, case, lambda k, cl, c, o, e: hits.append({"key": k, "clause": cl, "observed": o, "step": c.get("step")}))
        hit = [h for h in hits if h["key"] == key]
        return hit[0] if hit else None
    if key == "rejected-merge-mutates-target-before-first-conflict":
        r = run_order(Intern(), coll_attrs(), case["libs"], tuple(case["order"]))
        if not r["ok"] and (r["nok"] != len(case["order"]) - 1 or norm_props(r["before"]) != norm_props(r["after"])):
            return {"key": key, "observed": {"error": r["err"], "merges_ok_before": r["nok"]}}
        return None
    if isinstance(case, dict) and "libs" in case:
        it = Intern()
        hits = []
        n = len(case["libs"])
        orders = [tuple(case["order"])] if key.startswith("rejected-") or key in ("merge-labels-union", "merge-payload-identity") \
            else list(itertools.permutations(range(n)))
        oracle_scenario(ctx, it, coll_attrs(), case["libs"], case.get("tag", "?"), None, orders,
                        lambda k, cl, c, o, e: hits.append({"key": k, "clause": cl, "observed": o, "order": c["order"]}))
        hit = [h for h in hits if h["key"] == key]
        return hit[0] if hit else None
    if isinstance(case, dict) and "chi_libs" in case:
        hits = []
        names = case["chi_libs"]
        fixtures = all(isinstance(x, str) for x in names)
        orders = list(itertools.permutations(range(len(names)))) if "order-dependent" in key else [tuple(range(len(names)))]
        chi_oracle(type(ctx)(ctx.prop, "quick", ctx.seed), chi_fixture if fixtures else build, names, orders,
                   lambda k, cl, c, o, e: hits.append({"key": k, "clause": cl, "observed": o}), roundtrip=fixtures)
        hit = [h for h in hits if h["key"] == key]
        return hit[0] if hit else None
    if isinstance(case, dict) and "blocks" in case and case.get("function") == "createMacrosOnBlocklist":
        hits = []
        libid = {k: case[k] for k in ("merged_libs", "merged_fixtures", "scale") if k in case}
        blocklist_check(libid, [(c, sfx) for c, sfx in case["blocks"]], case.get("nucNames"), case.get("libType", "micros"),
                        lambda k, cl, c, o, e: hits.append({"key": k, "clause": cl, "observed": o}))
        hit = [h for h in hits if h["key"] == key]
        return hit[0] if hit else None
    if isinstance(case, dict) and "blocks" in case:
        hits = []
        libid = {k: case[k] for k in ("merged_libs", "merged_fixtures", "scale") if k in case}
        reuse_sequence(libid, [(c, sfx) for c, sfx in case["blocks"]], case.get("how", "loop"),
                       lambda k, cl, c, o, e: hits.append({"key": k, "clause": cl, "observed": o}))
        hit = [h for h in hits if h["key"] == key]
        return hit[0] if hit else None
    if isinstance(case, dict) and "composition" in case and case.get("function") == "createMacrosFromMicros(whole)":
        lib, ref = macro_libs(case)
        lt = case["libType"]
        ng = ref.numGroups
        res, fails = creator_clauses(lib, ref, case["suffix"], case["composition"], lt, case.get("nucNames"),
                                     case["minimumNuclideDensity"], case["buildScatterMatrix"], ng,
                                     ng if lt == "micros" else ref.numGroupsGamma, case)
        hit = [f for f in fails if f[0] == key]
        return {"key": key, "observed": hit[0][3], "expected": hit[0][4]} if hit else None
    if isinstance(case, dict) and "composition" in case and "multLib" in case:
        lib, ref = macro_libs(case)
        mlib, mref = macro_libs(case["multLib"])
        _res, _ents, f = multlib_clause(lib, ref, mlib, mref, case["suffix"], case["composition"], case["reaction"], case["multConstant"], case)
        return {"key": f[0], "observed": f[3], "expected": f[4]} if f and f[0] == key else None
    if isinstance(case, dict) and "composition" in case:
        lib, _ref = macro_libs(case)
        comp, suf = case["composition"], case["suffix"]
        if key == "macro-empty-composition-not-zero":
            if case.get("function") == "createMacrosFromMicros":
                r = call(xc.MacroscopicCrossSectionCreator().createMacrosFromMicros, lib, StubBlock({}, suf))
                return None if r[0] == "ok" else {"observed": str(r)}
            r = call(xc.computeMacroscopicGroupConstants, "fission", {}, lib, suf, libType="micros")
            return None if (r[0] == "ok" and r[1] is not None and not np.any(r[1])) else {"observed": str(r)}
        if "reaction" in case and case.get("function") is None:
            rxn, lt, mult = case["reaction"], case.get("libType"), case.get("multConstant")
            res = call(xc.computeMacroscopicGroupConstants, rxn, comp, lib, suf, libType=lt, multConstant=mult)
            want = direct_sum(lib, comp, suf, rxn, lt, mult)
            if res[0] == "ok" and res[1] is not None and (want is None or not vec_close(res[1], want)):
                return {"observed": np.asarray(res[1]).ravel().tolist(), "expected": None if want is None else [float(x) for x in want]}
            if key in ("macro-linear", "macro-additive") and res[0] == "ok" and res[1] is not None:
                c = case.get("c", 2.0)
                r2 = call(xc.computeMacroscopicGroupConstants, rxn, {k: c * v for k, v in comp.items()}, lib, suf, libType=lt, multConstant=mult)
                if r2[0] != "ok" or r2[1] is None or not np.allclose(r2[1], c * res[1], rtol=1e-12, atol=0):
                    return {"observed": str(r2)[:300]}
            return None
        r = replay_creator(case, comp, suf)
        return {"key": r[0], "observed": r[2]} if r else None
    sub = type(ctx)(ctx.prop, "quick", ctx.seed)
    run(sub)
    hit = [f for f in sub.failures if f.key == key]
    return hit[0].to_json() if hit else None
