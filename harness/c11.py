"""C11 - re-meshing an assembly axially conserves atoms and integrated quantities.

Theorems: lean/ArmiVerif/Props/C11.lean (model lean/ArmiVerif/Model/Mesh.lean).
Tie (correspondence, same inputs through the real code and the Lean model):
  * real HexAssemblies of the reference test reactor and of the detailedAxialExpansion fixture (dyadic
    block heights) x UniformMeshGeometryConverter.makeAssemWithUniformMesh onto identical / finer /
    coarser / shifted dyadic target meshes, chained (the product of one mapping is the source of the
    next) and mapped back; Assembly.getBlocksBetweenElevations, getBlockAtElevation,
    setNumberDensitiesFromOverlaps, setAssemblyStateFromOverlaps (integrated, averaged, peak kinds,
    scalar / array / None values);
  * UniformMeshGenerator._filterMesh, mathematics.resampleStepwise, mathematics.average1DWithinTolerance
    called directly on generated inputs;
  * the public path end to end (run_converter): UniformMeshGeometryConverter.convert / applyStateToOriginal of the
    neutronics and gamma converters on whole cores (build-a-new-core path and non-uniform-assemblies path):
    _setParamsToUpdate both directions, generateCommonMesh, _buildAllUniformAssemblies, _mapStateFromReactorToOther
    both directions; the model is asked for sampled (assembly, parameter / nuclide) pairs of both directions.
Implementation-side oracle: the clauses of the property evaluated with independent interval arithmetic on
the real objects (atoms per nuclide, integrated totals, height-weighted means, constants, peaks,
partition of the window, round trip, filterMesh specification, resampling totals / means).
"""
import warnings
from fractions import Fraction

import numpy as np

from harness import common
from harness.common import Failure, lean_run, rat, ratlist

PROP_MODULES = ["ArmiVerif.Props.C11"]
PARTIAL = ("rounding error of the floating-point sums is not modelled (exact rationals; inputs are short dyadics or tiny "
           "offsets, comparison 1e-9..1e-11 relative); XS-type selection of makeAssemWithUniformMesh and "
           "createHomogenizedCopy are outside the property; the re-meshing theorems assume no sliver thinner than 1e-10 of "
           "a block (NoSliver) - such slivers are judged by the oracle only; resampleStepwise theorems are for strictly "
           "increasing meshes whose output cells start inside the input range (cells left of the first input point follow "
           "Python negative-index slicing and are tied by correspondence only); peak parameters only for non-negative "
           "values (known finding F8); the component volume caches are modelled for the mass-conserving height change "
           "(VComp / clearCache / setHeightOne, one nuclide, component by component) - cache invalidation elsewhere "
           "(temperature or dimension changes) is exercised by the oracle only")
ASSUMPTIONS = [
    "Block.setNumberDensities / getNumberDensity on a homogenized block store and return the mapped densities "
    "(checked on every case to 1e-9 relative)",
    "np.digitize on an increasing list counts the entries <= x; sorted(set(...)) is modelled by an insertion sort "
    "with duplicate removal (both checked by the correspondence on every generated input)",
    "near-coincident mesh points (1e-9 .. 1e-11 apart) are judged by the implementation-side oracle only",
]

INT_P, INT_ARR, AVG_P, AVG_C, PEAK_P, INT_G = "power", "mgFlux", "pdens", "percentBu", "percentBuPeak", "powerGamma"
KIND = {INT_P: "int", INT_ARR: "int", AVG_P: "avg", AVG_C: "avg", PEAK_P: "peak", INT_G: "int"}


def relclose(f, q, tol=1e-9):
    q = Fraction(q)
    return abs(Fraction(float(f)) - q) <= Fraction(tol) * abs(q) + Fraction(1, 10 ** 30)


def fclose(a, b, tol=1e-9):
    return abs(a - b) <= tol * max(abs(a), abs(b)) + 1e-300


# --------------------------------------------------------------------------- fixtures
_FIX = {}


def fixtures():
    if _FIX:
        return _FIX
    import os
    from armi.reactor.tests.test_reactors import loadTestReactor
    from armi.tests import TEST_ROOT

    with common.scratch_dir(), common.quiet():
        _o, r = loadTestReactor(TEST_ROOT)
        _o2, r2 = loadTestReactor(os.path.join(TEST_ROOT, "detailedAxialExpansion"))
    assems = []
    seen = set()
    for rr in (r, r2):
        for a in rr.core:
            key = (a.getType(), tuple(b.getHeight() for b in a))
            if key not in seen:
                seen.add(key)
                assems.append(a)
    _FIX.update(r=r, r2=r2, assems=assems)
    return _FIX


def check_kinds(b):
    """the location kinds of the parameters used, read from the parameter definitions"""
    from armi.reactor import parameters

    out = {}
    for name in KIND:
        pd = b.p.paramDefs[name]
        if pd.atLocation(parameters.ParamLocation.MAX):
            out[name] = "peak"
        elif pd.atLocation(parameters.ParamLocation.VOLUME_INTEGRATED):
            out[name] = "int"
        else:
            out[name] = "avg"
    return out


# --------------------------------------------------------------------------- generators
def gen_mesh(rng, H, src_pts, kind):
    """target mesh (list of boundaries from 0 to H), dyadic points k/8"""
    inner = [z for z in src_pts[1:-1]]
    if kind == "identical":
        pts = set(inner)
    elif kind == "finer":
        pts = set(inner)
        for _ in range(rng.randint(1, 6)):
            pts.add(rng.randint(1, int(H * 8) - 1) / 8.0)
    elif kind == "coarser":
        pts = set(z for z in inner if rng.random() < 0.5)
    elif kind == "shifted":
        pts = set()
        for z in inner:
            s = rng.randint(-24, 24) / 8.0
            pts.add(min(H - 0.125, max(0.125, z + s)))
    elif kind == "nearsame":
        # same number of points, nearly coincident but not identical: relative offsets 1e-6 .. 1e-4
        pts = set()
        for z in inner:
            d = rng.choice([-1, 1]) * 10.0 ** rng.uniform(-6, -4)
            pts.add(z * (1.0 + d) if rng.random() < 0.8 else z)
    elif kind == "tiny":
        # tiny deltas: points 2^-k beside source boundaries, cells 2^-k thin, exact coincidences
        pts = set()
        for z in inner:
            u = rng.random()
            d = 2.0 ** -rng.randint(10, 22)
            if u < 0.3:
                pts.add(z)
            elif u < 0.55:
                pts.add(z + d)
            elif u < 0.8:
                pts.add(z - d)
            else:
                pts.update((z, z + d))
        if rng.random() < 0.5:
            z = rng.randint(1, int(H * 8) - 1) / 8.0
            pts.update((z, z + 2.0 ** -rng.randint(10, 20)))
    else:  # random
        pts = set(rng.randint(1, int(H * 8) - 1) / 8.0 for _ in range(rng.randint(1, 11)))
    pts.discard(0.0)
    pts.discard(H)
    return [0.0] + sorted(pts) + [H]


def assign_profiles(rng, a, negative_peak=False, with_none=True, const=None):
    for b in a:
        b.p[INT_P] = rng.randint(0, 4096) / 16.0
        b.p[INT_G] = rng.randint(0, 4096) / 32.0
        b.p[AVG_P] = rng.randint(0, 4096) / 16.0
        b.p[AVG_C] = const if const is not None else rng.randint(0, 64) / 4.0
        b.p[PEAK_P] = (-rng.randint(1, 64) / 4.0) if negative_peak else rng.randint(0, 64) / 4.0
        b.p[INT_ARR] = np.array([rng.randint(0, 1024) / 8.0 for _ in range(3)])
        if with_none:
            u = rng.random()
            if u < 0.08:
                b.p[INT_P] = None
            elif u < 0.16:
                b.p[INT_ARR] = None
            elif u < 0.22:
                b.p[PEAK_P] = None
            elif u < 0.28:
                b.p[AVG_P] = None


class Bad:
    """a value read from the real code that is not of the kind the parameter holds (wrong type / shape)"""

    def __init__(self, v):
        self.r = f"{type(v).__name__}: {repr(v)[:60]}"

    def __repr__(self):
        return f"<wrong-kind {self.r}>"


def scal(v):
    if v is None:
        return None
    if isinstance(v, (bool, str)) or not isinstance(v, (int, float, np.integer, np.floating)):
        return Bad(v)
    return float(v)


def vec3(v):
    if v is None:
        return None
    try:
        if not isinstance(v, (str, bytes)) and hasattr(v, "__len__") and len(v) == 3:
            return [float(x) for x in v]
    except Exception:  # noqa
        pass
    return Bad(v)


def snap(a, nucs):
    """plain-data snapshot of an assembly: per block zb, zt, h, params, densities (never raises on odd values)"""
    out = []
    for b in a:
        d = {"zb": float(b.p.zbottom), "zt": float(b.p.ztop), "h": float(b.getHeight()),
             "nd": {n: float(b.getNumberDensity(n)) for n in nucs}}
        for name in (INT_P, INT_G, AVG_P, AVG_C, PEAK_P):
            d[name] = scal(b.p[name])
        d[INT_ARR] = vec3(b.p[INT_ARR])
        out.append(d)
    return out


def kinds_ok(ctx, case, blocks, what="destination"):
    """every mapped parameter still holds a value of its kind (scalar stays a number, mgFlux stays a 3-vector)"""
    ok = True
    for ib, b in enumerate(blocks):
        for name in KIND:
            if isinstance(b[name], Bad):
                ok = False
                ctx.count("mapped parameter of the wrong kind")
                if ctx.hist["mapped parameter of the wrong kind"] > 10:
                    continue
                ctx.fail("remap-parameter-kind-preserved", "each mapped parameter receives a value of its own kind "
                         "(a scalar parameter a number, an array parameter its vector)",
                         dict(case, block=ib, param=name, assembly_role=what), observed=repr(b[name]))
    return ok


def arr_total(blocks):
    """sum of the array-valued integrated parameter over blocks; None if some block lacks a 3-vector"""
    vals = [b[INT_ARR] for b in blocks]
    if any(v is None or len(v) != 3 for v in vals):
        return None
    return np.sum(vals, axis=0)


def overlap(zb, zt, lo, hi):
    return max(0.0, min(zt, hi) - max(zb, lo))


def optlist(vals):
    return "[" + ",".join("_" if v is None else rat(v) for v in vals) + "]"


def geom(s):
    return ratlist([b["zb"] for b in s]), ratlist([b["zt"] for b in s]), ratlist([b["h"] for b in s])


# --------------------------------------------------------------------------- oracle on one mapping
def oracle_mapping(ctx, case, S, D, tol, has_none, neg_peak, hyp_ok=True):
    """S, D: snapshots of the source and the mapped destination assembly (real objects' values)."""
    Hs, Hd = S[-1]["zt"] - S[0]["zb"], D[-1]["zt"] - D[0]["zb"]
    if not fclose(Hs, Hd, 1e-12):
        ctx.fail("remap-total-height", "the new assembly spans the same height", case, observed=Hd, expected=Hs)
    for k in range(1, len(D)):
        if D[k]["zb"] != D[k - 1]["zt"]:
            ctx.fail("remap-contiguous", "destination blocks are contiguous", case, observed=[D[k - 1]["zt"], D[k]["zb"]])
    for n in S[0]["nd"]:
        a0 = sum(b["nd"][n] * b["h"] for b in S)
        a1 = sum(b["nd"][n] * b["h"] for b in D)
        if not fclose(a0, a1, tol):
            ctx.fail("remap-atoms-conserved", f"sum_b N_b({n}) h_b is the same before and after re-meshing", case,
                     observed=a1, expected=a0)
    if not has_none:
        for nm in (INT_P, INT_G):
            p0, p1 = sum(b[nm] for b in S), sum(b[nm] for b in D)
            if not fclose(p0, p1, tol):
                ctx.fail("remap-integrated-total", f"assembly total of a volume-integrated parameter ({nm}) is conserved",
                         case, observed=p1, expected=p0)
        f0, f1 = arr_total(S), arr_total(D)
        if f0 is not None and (f1 is None or not all(fclose(x, y, tol) for x, y in zip(f0, f1))):
            ctx.fail("remap-integrated-total-array", "assembly total of an array-valued integrated parameter is conserved",
                     case, observed=None if f1 is None else list(f1), expected=list(f0))
        for d in D:
            ws = [(overlap(s["zb"], s["zt"], d["zb"], d["zt"]), s) for s in S]
            H = d["zt"] - d["zb"]
            exp = sum(w * s[AVG_P] for w, s in ws) / H
            scale = max(abs(s[AVG_P]) for w, s in ws if w > 0)
            if not (fclose(d[AVG_P], exp, tol) or abs(d[AVG_P] - exp) <= tol * scale):
                ctx.fail("remap-average-is-weighted-mean", "averaged parameter = height-weighted mean of the overlapped "
                         "source values", case, observed=d[AVG_P], expected=exp)
            vals = [s[AVG_C] for w, s in ws if w > 0]
            if not (min(vals) - tol * abs(min(vals)) <= d[AVG_C] <= max(vals) + tol * abs(max(vals))):
                ctx.fail("remap-average-between-min-max", "averaged value lies between the overlapped extremes", case,
                         observed=d[AVG_C], expected=[min(vals), max(vals)])
            pk = [s[PEAK_P] for w, s in ws if w > 1e-9 * (s["zt"] - s["zb"])]
            if pk and d[PEAK_P] != max(pk):
                if neg_peak:
                    ctx.count("negative-peak blocks mapped to 0.0 (F8 class)")
                    if ctx.hist["negative-peak blocks mapped to 0.0 (F8 class)"] <= 3:
                        ctx.fail("peak-negative-values-map-to-zero", "peak parameter = largest overlapped source value",
                                 {"source_peaks": pk}, observed=d[PEAK_P], expected=max(pk))
                elif hyp_ok:
                    ctx.fail("remap-peak-is-max", "peak parameter = largest overlapped source value", case,
                             observed=d[PEAK_P], expected=max(pk))


def oracle_between(ctx, case, a, S, windows, tol=1e-9):
    """partition clause on the real getBlocksBetweenElevations"""
    res = []
    blocks = list(a)
    for (zl, zu) in windows:
        try:
            got = a.getBlocksBetweenElevations(zl, zu)
        except Exception as e:  # noqa
            res.append(None)
            ctx.fail("between-raises-inside-assembly", "blocks between two elevations inside the assembly are reported",
                     dict(case, zl=zl, zu=zu), observed=repr(e)[:200])
            continue
        ix = [(blocks.index(b), float(h)) for b, h in got]
        res.append(ix)
        hs = [h for _, h in ix]
        if any(h <= 0 for h in hs):
            ctx.fail("between-heights-positive", "overlap heights are positive", dict(case, zl=zl, zu=zu), observed=hs)
        if not fclose(sum(hs), zu - zl, tol):
            ctx.fail("between-heights-sum", "overlap heights sum to the window length", dict(case, zl=zl, zu=zu),
                     observed=sum(hs), expected=zu - zl)
        exp = [(i, overlap(s["zb"], s["zt"], zl, zu)) for i, s in enumerate(S)]
        exp = [(i, w) for i, w in exp if w > 1e-9 * S[i]["h"]]
        if [i for i, _ in exp] != [i for i, _ in ix] or not all(fclose(w, h, tol) for (_, w), (_, h) in zip(exp, ix)):
            ctx.fail("between-blocks-are-the-overlapping-ones", "reported blocks are exactly those overlapping the window, "
                     "with their overlap heights", dict(case, zl=zl, zu=zu), observed=ix, expected=exp)
    return res


# --------------------------------------------------------------------------- stream A: assemblies
def run_assemblies(ctx):
    from armi.reactor.converters import uniformMesh

    fx = fixtures()
    UM = uniformMesh.UniformMeshGeometryConverter
    npairs = ctx.pick(250, 3000)
    names = list(KIND)
    req, chk = [], []     # request lines, (case, kind, expected-impl payload)
    kinds_seen = None
    n_done = attempts = 0
    while n_done < npairs and attempts < 2 * npairs:
        attempts += 1
        a0 = ctx.rng.choice(fx["assems"])
        H = a0.getTotalHeight()
        if kinds_seen is None:
            kinds_seen = check_kinds(a0[0])
            if kinds_seen != KIND:
                raise common.Infra(f"parameter location kinds changed: {kinds_seen}")
        pm = uniformMesh.ParamMapper([], names, a0[0])
        allnucs = sorted(a0.getNuclides())
        nucs = ctx.rng.sample(allnucs, min(4, len(allnucs)))
        src = a0
        chain = ctx.rng.randint(1, 3)
        mode = ctx.rng.choice(["plain", "plain", "none", "negpeak", "const", "zeros"])
        has_none, neg_peak = mode == "none", mode == "negpeak"
        const = ctx.rng.randint(1, 64) / 4.0 if mode == "const" else None
        assign_profiles(ctx.rng, src, negative_peak=neg_peak, with_none=has_none, const=const)
        if mode == "zeros":     # exact zeros are legitimate values
            for b in src:
                for name in (INT_P, AVG_P, AVG_C, PEAK_P):
                    if ctx.rng.random() < 0.5:
                        b.p[name] = 0.0
                if ctx.rng.random() < 0.5:
                    b.p[INT_ARR] = np.zeros(3)
        try:
            for step in range(chain):
                srcmesh = [0.0] + [float(b.p.ztop) for b in src]
                mk = ctx.rng.choice(["identical", "finer", "coarser", "shifted", "random", "finer", "shifted", "tiny",
                                     "nearsame", "nearsame"])
                mesh = gen_mesh(ctx.rng, H, srcmesh, mk)
                case = {"assembly": a0.getType(), "source_mesh": srcmesh, "target_mesh": mesh, "mode": mode, "step": step}
                S = snap(src, nucs)
                try:
                    with common.quiet():
                        for b_ in src:      # the source blocks in arbitrary cache states
                            if ctx.rng.random() < 0.25:
                                set_cache_state(ctx.rng, b_, ctx.rng.choice(CACHE_STATES))
                    new = UM.makeAssemWithUniformMesh(src, mesh[1:], paramMapper=pm, mapNumberDensities=True)
                except Exception as e:  # noqa
                    ctx.fail("remap-raises-on-valid-mesh", "re-meshing onto a mesh spanning the same height succeeds", case,
                             observed=repr(e)[:300])
                    break
                D = snap(new, nucs)
                n_done += 1
                if not (kinds_ok(ctx, case, S, "source") and kinds_ok(ctx, case, D)):
                    break
                ctx.count(f"mesh kind {mk}")
                ctx.count(f"profile mode {mode}")
                if len(D) != len(mesh) - 1 or D[0]["zb"] != 0.0 or not all(fclose(d["zt"], z, 1e-13) for d, z in zip(D, mesh[1:])):
                    ctx.fail("remap-mesh-applied", "the new assembly has the requested mesh", case, observed=[d["zt"] for d in D])
                oracle_mapping(ctx, case, S, D, 1e-11, has_none, neg_peak)
                if const is not None:
                    for d in D:
                        if not fclose(d[AVG_C], const, 1e-12):
                            ctx.fail("remap-constant-stays-constant", "a constant profile stays constant", case,
                                     observed=d[AVG_C], expected=const)
                # partition clause + correspondence of getBlocksBetweenElevations
                wins = [(d["zb"], d["zt"]) for d in D]
                for _ in range(2):
                    x, y = sorted(ctx.rng.sample(range(0, int(H * 8) + 1), 2))
                    wins.append((x / 8.0, y / 8.0))
                got = oracle_between(ctx, case, src, S, wins)
                zb, zt, hh = geom(S)
                dzb, dzt, dh = geom(D)
                for (zl, zu), g in zip(wins, got):
                    if g is not None:
                        req.append(f"between {zb} {zt} {hh} {rat(zl)} {rat(zu)}")
                        chk.append((dict(case, zl=zl, zu=zu), "between", g))
                for n in nucs:
                    req.append(f"remapnd {zb} {zt} {hh} {ratlist([s['nd'][n] for s in S])} {dzb} {dzt} {dh}")
                    chk.append((dict(case, nuclide=n), "vals", [d["nd"][n] for d in D]))
                for name in (INT_P, INT_G, AVG_P, AVG_C, PEAK_P):
                    req.append(f"remap {KIND[name]} {zb} {zt} {hh} {optlist([s[name] for s in S])} {dzb} {dzt} {dh}")
                    # destination blocks are homogenized copies: "unchanged" cannot be observed reliably -> None = skip
                    chk.append((dict(case, param=name), "optvals", [d[name] for d in D]))
                for j in range(3):
                    req.append(f"remap int {zb} {zt} {hh} {optlist([None if s[INT_ARR] is None else s[INT_ARR][j] for s in S])} "
                               f"{dzb} {dzt} {dh}")
                    chk.append((dict(case, param=INT_ARR, index=j), "optvals",
                                [None if d[INT_ARR] is None or len(d[INT_ARR]) != 3 else d[INT_ARR][j] for d in D]))
                # getBlockAtElevation
                blocks = list(src)
                for _ in range(3):
                    e = ctx.rng.choice([ctx.rng.randint(0, int(H * 8)) / 8.0, ctx.rng.choice(srcmesh), 0.0, H,
                                        ctx.rng.choice(srcmesh) + 2.0 ** -ctx.rng.randint(10, 30)])
                    bb = src.getBlockAtElevation(e)
                    ix = None if bb is None else blocks.index(bb)
                    req.append(f"atelev {hh} {rat(e)}")
                    chk.append((dict(case, elevation=e), "atelev", ix))
                    if (ix is None and 0 < e <= H) or (ix is not None and not (S[ix]["zb"] < e <= S[ix]["zt"] * (1 + 2e-10))):
                        ctx.fail("block-at-elevation", "the block at an elevation contains it (bottom exclusive, top "
                                 "inclusive); none outside (0, H]", dict(case, elevation=e), observed=ix)
                # map the parameters back onto the real (heterogeneous) source assembly: totals restored
                if step == chain - 1 and not has_none:
                    try:
                        UM.setAssemblyStateFromOverlaps(new, src, pm, mapNumberDensities=False)
                        back = UM.makeAssemWithUniformMesh(new, srcmesh[1:], paramMapper=pm, mapNumberDensities=True)
                    except Exception as e:  # noqa
                        ctx.fail("remap-back-raises", "mapping a state back onto the original mesh succeeds", case,
                                 observed=repr(e)[:300])
                        break
                    B = snap(src, nucs)
                    Bk = snap(back, nucs)
                    if not (kinds_ok(ctx, case, B, "mapped back") and kinds_ok(ctx, case, Bk, "mapped back")):
                        break
                    p0, p2 = sum(s[INT_P] for s in S), sum(s[INT_P] for s in B)
                    if not fclose(p0, p2, 1e-11):
                        ctx.fail("roundtrip-integrated-total", "mapping back restores the integrated total", case,
                                 observed=p2, expected=p0)
                    req.append(f"remap int {dzb} {dzt} {dh} {optlist([d[INT_P] for d in D])} {zb} {zt} {hh}")
                    chk.append((dict(case, param=INT_P, direction="back"), "optvals", [s[INT_P] for s in B]))
                    # and the densities back onto a uniform assembly with the source's mesh
                    for n in nucs:
                        a0_, a2 = sum(s["nd"][n] * s["h"] for s in S), sum(s["nd"][n] * s["h"] for s in Bk)
                        if not fclose(a0_, a2, 1e-11):
                            ctx.fail("roundtrip-atoms", "mapping there and back restores the atoms of every nuclide", case,
                                     observed=a2, expected=a0_)
                ctx.case(("remap", a0.getType(), tuple(srcmesh), tuple(mesh), mode),
                         nontrivial=(mesh != srcmesh), sample={"case": case, "dest_power": [d[INT_P] for d in D]})
                src = new
                if n_done >= npairs:
                    break
        except common.Infra:
            raise
        except Exception as e:  # noqa  (a value read from the real code could not be evaluated)
            del req[len(chk):]
            ctx.fail("remap-state-not-evaluable", "the mapped state can be read back and compared (numbers where "
                     "numbers are expected)", {"assembly": a0.getType(), "mode": mode}, observed=repr(e)[:300])
    model = lean_run("Mesh", req)
    ndis = 0
    for (case, kind, impl), line, rq in zip(chk, model, req):
        ok = True
        if line in ("reject", "bad-op", "fuel"):
            ok = False
        elif kind == "between":
            m = common.parse_list(line)
            ok = len(m) == len(impl) and all(int(x[0]) == i and relclose(h, x[1], 1e-12) for x, (i, h) in zip(m, impl))
        elif kind == "atelev":
            ok = line == ("none" if impl is None else str(impl))
        else:
            m = common.parse_list(line)
            ok = len(m) == len(impl)
            if ok:
                for x, v in zip(m, impl):
                    if x == "_" or v is None:
                        continue     # not written by the code / not observable on a fresh homogenized block
                    if not relclose(v, x, 1e-9):
                        ok = False
        if not ok:
            ndis += 1
            ctx.disagree("Model/Mesh.lean vs getBlocksBetweenElevations/setAssemblyStateFromOverlaps",
                         dict(case, request=rq[:400]), line[:400], str(impl)[:400])
    ctx.evaluations += len(req)
    ctx.count("assembly-stream model requests", len(req))
    if req:
        ctx.samples.append({"request": req[0][:300], "model": model[0][:200], "impl": str(chk[0][2])[:200]})


# --------------------------------------------------------------------------- stream A'': repeated application
def run_repeated(ctx):
    """10-30 successive re-meshings of one state (alternating / wandering meshes, tiny deltas): after EVERY step the
    atoms of every sampled nuclide and the integrated totals equal those of the ORIGINAL assembly (no drift)."""
    from armi.reactor.converters import uniformMesh

    fx = fixtures()
    UM = uniformMesh.UniformMeshGeometryConverter
    names = list(KIND)
    req, chk = [], []
    for _ in range(ctx.pick(6, 80)):
        a0 = ctx.rng.choice(fx["assems"])
        H = a0.getTotalHeight()
        pm = uniformMesh.ParamMapper([], names, a0[0])
        allnucs = sorted(a0.getNuclides())
        nucs = ctx.rng.sample(allnucs, min(4, len(allnucs)))
        const = ctx.rng.randint(1, 64) / 4.0
        assign_profiles(ctx.rng, a0, with_none=False, const=const)
        S0 = snap(a0, nucs)
        srcmesh0 = [0.0] + [b["zt"] for b in S0]
        atoms0 = {n: sum(b["nd"][n] * b["h"] for b in S0) for n in nucs}
        p0 = sum(b[INT_P] for b in S0)
        f0 = arr_total(S0)
        pool = [gen_mesh(ctx.rng, H, srcmesh0, k) for k in ("tiny", "shifted", "finer", "tiny", "coarser")] + [srcmesh0]
        src = a0
        nsteps = ctx.rng.randint(10, 30)
        try:
            for step in range(nsteps):
                mesh = ctx.rng.choice(pool) if step < nsteps - 1 else srcmesh0
                S = snap(src, nucs)
                case = {"assembly": a0.getType(), "mode": "repeated", "step": step, "source_mesh": [0.0] + [b["zt"] for b in S],
                        "target_mesh": mesh}
                try:
                    new = UM.makeAssemWithUniformMesh(src, mesh[1:], paramMapper=pm, mapNumberDensities=True)
                except Exception as e:  # noqa
                    ctx.fail("remap-raises-on-valid-mesh", "re-meshing onto a mesh spanning the same height succeeds", case,
                             observed=repr(e)[:300])
                    break
                D = snap(new, nucs)
                if not kinds_ok(ctx, case, D):
                    break
                for n in nucs:
                    a1 = sum(b["nd"][n] * b["h"] for b in D)
                    if not fclose(atoms0[n], a1, 1e-9):
                        ctx.fail("repeated-remap-atoms-drift", f"after {step + 1} successive re-meshings the atoms of {n} still "
                                 "equal the original", case, observed=a1, expected=atoms0[n])
                p1 = sum(b[INT_P] for b in D)
                f1 = arr_total(D)
                if not fclose(p0, p1, 1e-9) or f1 is None or not all(fclose(x, y, 1e-9) for x, y in zip(f0, f1)):
                    ctx.fail("repeated-remap-integrated-drift", f"after {step + 1} successive re-meshings the integrated totals "
                             "still equal the original", case, observed=[p1, None if f1 is None else list(f1)],
                             expected=[p0, list(f0)])
                for d in D:
                    if not fclose(d[AVG_C], const, 1e-11):
                        ctx.fail("remap-constant-stays-constant", "a constant profile stays constant", case,
                                 observed=d[AVG_C], expected=const)
                if len(D) != len(mesh) - 1 or not all(fclose(d["zt"], z, 1e-13) for d, z in zip(D, mesh[1:])):
                    ctx.fail("remap-mesh-applied", "the new assembly has the requested mesh", case, observed=[d["zt"] for d in D])
                oracle_mapping(ctx, case, S, D, 1e-11, False, False)
                zb, zt, hh = geom(S)
                dzb, dzt, dh = geom(D)
                n = nucs[step % len(nucs)]
                req.append(f"remapnd {zb} {zt} {hh} {ratlist([b['nd'][n] for b in S])} {dzb} {dzt} {dh}")
                chk.append((dict(case, nuclide=n), [d["nd"][n] for d in D]))
                req.append(f"remap int {zb} {zt} {hh} {optlist([b[INT_P] for b in S])} {dzb} {dzt} {dh}")
                chk.append((dict(case, param=INT_P), [d[INT_P] for d in D]))
                ctx.case(("repeated", a0.getType(), tuple(mesh), step, _), nontrivial=True)
                src = new
        except common.Infra:
            raise
        except Exception as e:  # noqa  (a value read from the real code could not be evaluated)
            del req[len(chk):]
            ctx.fail("remap-state-not-evaluable", "the mapped state can be read back and compared (numbers where "
                     "numbers are expected)", {"assembly": a0.getType(), "mode": "repeated"}, observed=repr(e)[:300])
        ctx.count("repeated-application sequences (10-30 re-meshings each)")
    model = lean_run("Mesh", req)
    for (case, impl), line, rq in zip(chk, model, req):
        ok = line not in ("reject", "bad-op")
        if ok:
            m = common.parse_list(line)
            ok = len(m) == len(impl) and all(x != "_" and relclose(v, x, 1e-9) for x, v in zip(m, impl))
        if not ok:
            ctx.disagree("Model/Mesh.lean vs setAssemblyStateFromOverlaps (repeated application)",
                         dict(case, request=rq[:400]), line[:400], str(impl)[:400])
    ctx.evaluations += len(req)


# --------------------------------------------------------------------------- stream A3: unset values x listing order
POOL = (INT_P, INT_ARR, AVG_P, INT_G, PEAK_P, AVG_C)


def expected_param(name, S, d, j=None):
    """independent expectation of one mapped parameter on destination block d, ignoring unset (None) sources;
    returns None when every overlapped source value is unset (the code then leaves the block alone)"""
    H = d["zt"] - d["zb"]
    acc, seen = 0.0, False
    for s in S:
        w = overlap(s["zb"], s["zt"], d["zb"], d["zt"])
        if w <= 1e-9 * s["h"]:
            continue
        v = s[name]
        if v is None:
            continue
        if j is not None:
            v = v[j]
        seen = True
        if KIND[name] == "peak":
            acc = max(acc, v)
        elif KIND[name] == "int":
            acc += v * w / s["h"]
        else:
            acc += v * w / H
    return acc if seen else None


def run_none_patterns(ctx):
    """UNSET values in specific positions (first / middle / last overlapped source block, per parameter independently)
    x lists of 2-4 mapped parameters in every listing order: each parameter receives its own mapped value."""
    import itertools

    from armi.reactor.converters import uniformMesh

    fx = fixtures()
    UM = uniformMesh.UniformMeshGeometryConverter
    req, chk = [], []
    combos = []
    for k in (2, 3, 4):
        subsets = list(itertools.combinations(POOL, k))
        ctx.rng.shuffle(subsets)
        for sub in subsets[:ctx.pick(6, len(subsets))]:
            perms = list(itertools.permutations(sub))
            ctx.rng.shuffle(perms)
            combos += perms[:ctx.pick(6, 24)]
    combos = [(INT_ARR, INT_P), (INT_P, INT_ARR), (INT_ARR, INT_P, AVG_P)] + combos
    for cnum, names in enumerate(combos):
        names = list(names)
        a0 = ctx.rng.choice(fx["assems"])
        H = a0.getTotalHeight()
        pm = uniformMesh.ParamMapper([], names, a0[0])
        assign_profiles(ctx.rng, a0, with_none=False)
        srcmesh = [0.0] + [float(b.p.ztop) for b in a0]
        # coarse target: every destination block overlaps >= 2 source blocks
        inner, i = [], 0
        while i + 2 < len(srcmesh) - 1:
            i += ctx.rng.randint(2, 3)
            if i < len(srcmesh) - 1:
                inner.append(srcmesh[i] + ctx.rng.choice([0.0, 0.0, 0.5, -0.5, 2.0 ** -12]))
        mesh = [0.0] + sorted(set(z for z in inner if 0.0 < z < H)) + [H]
        blocks = list(a0)
        groups = []   # indices of the source blocks overlapped by each destination cell
        for lo, hi in zip(mesh, mesh[1:]):
            groups.append([k for k, b in enumerate(blocks)
                           if overlap(float(b.p.zbottom), float(b.p.ztop), lo, hi) > 1e-9 * b.getHeight()])
        pattern = {}
        for name in names:
            pat = ctx.rng.choice(["first", "first", "middle", "last", "none", "first+last"])
            if cnum < 3 and name == INT_ARR:
                pat = "bottom"      # the first-listed parameter unset on the bottom block only
                blocks[0].p[name] = None
            pattern[name] = pat
            for g in groups:
                if len(g) < 2:
                    continue
                unset = []
                if "first" in pat:
                    unset.append(g[0])
                if "last" in pat:
                    unset.append(g[-1])
                if pat == "middle" and len(g) >= 3:
                    unset += g[1:-1]
                for k in unset:
                    blocks[k].p[name] = None
        nucs = sorted(a0.getNuclides())[:1]
        case = {"assembly": a0.getType(), "mode": "unset-patterns", "blockParamNames": names, "pattern": pattern,
                "source_mesh": srcmesh, "target_mesh": mesh}
        try:
            S = snap(a0, nucs)
            try:
                new = UM.makeAssemWithUniformMesh(a0, mesh[1:], paramMapper=pm, mapNumberDensities=False)
            except Exception as e:  # noqa
                ctx.fail("remap-raises-on-valid-mesh", "re-meshing with unset parameter values succeeds", case,
                         observed=repr(e)[:300])
                continue
            D = snap(new, nucs)
            if not kinds_ok(ctx, case, D):
                continue
            zb, zt, hh = geom(S)
            dzb, dzt, dh = geom(D)
            for name in names:
                idxs = [None] if name != INT_ARR else [0, 1, 2]
                for j in idxs:
                    for ib, d in enumerate(D):
                        exp = expected_param(name, S, d, j)
                        if exp is None:
                            continue
                        got = d[name] if j is None or d[name] is None else d[name][j]
                        scale = max([abs(s[name] if j is None else s[name][j]) for s in S if s[name] is not None] + [1e-300])
                        if got is None or not (fclose(got, exp, 1e-11) or abs(got - exp) <= 1e-11 * scale):
                            ctx.fail("remap-unset-values-each-parameter-own-value", "with unset source values every mapped "
                                     "parameter still receives its own overlap-weighted value",
                                     dict(case, param=name, block=ib, index=j), observed=got, expected=exp)
                    vals = [s[name] if (j is None or s[name] is None) else s[name][j] for s in S]
                    dvals = [d[name] if (j is None or d[name] is None) else d[name][j] for d in D]
                    req.append(f"remap {KIND[name]} {zb} {zt} {hh} {optlist(vals)} {dzb} {dzt} {dh}")
                    chk.append((dict(case, param=name, index=j), dvals))
            ctx.count("unset-pattern cases (per-parameter None positions x listing orders)")
            ctx.case(("unset", a0.getType(), tuple(names), tuple(sorted(pattern.items())), tuple(mesh)), nontrivial=True,
                     sample={"case": {k: v for k, v in case.items() if k != "source_mesh"}})
        except common.Infra:
            raise
        except Exception as e:  # noqa
            del req[len(chk):]
            ctx.fail("remap-state-not-evaluable", "the mapped state can be read back and compared", case, observed=repr(e)[:300])
    model = lean_run("Mesh", req)
    for (case, impl), line, rq in zip(chk, model, req):
        ok = line not in ("reject", "bad-op")
        if ok:
            m = common.parse_list(line)
            ok = len(m) == len(impl)
            if ok:
                for x, v in zip(m, impl):
                    if x == "_":
                        continue           # every overlapped source unset: not written by the code
                    if v is None or not relclose(v, x, 1e-9):
                        ok = False
        if not ok:
            ctx.disagree("Model/Mesh.lean vs setAssemblyStateFromOverlaps (unset values x listing order)",
                         dict(case, request=rq[:400]), line[:400], str(impl)[:400])
    ctx.evaluations += len(req)


# --------------------------------------------------------------------------- stream A4: different nuclide sets per block
def run_nuclide_sets(ctx):
    """neighbouring source blocks with DIFFERENT nuclide sets (nuclides removed per block, so that each side of an
    interface holds nuclides the other side lacks); destination cells straddling the interfaces: the atoms of every
    nuclide of the UNION of the source blocks are conserved"""
    import copy

    from armi.reactor.converters import uniformMesh

    fx = fixtures()
    UM = uniformMesh.UniformMeshGeometryConverter
    req, chk = [], []
    for _ in range(ctx.pick(25, 400)):
        a0 = ctx.rng.choice(fx["assems"])
        a = copy.deepcopy(a0)
        H = a.getTotalHeight()
        present = []
        for b in a:
            nucs_b = sorted(b.getNuclides())
            drop = set(ctx.rng.sample(nucs_b, int(len(nucs_b) * ctx.rng.choice([0.3, 0.5, 0.7]))))
            for c in b:
                if c.p.numberDensities:
                    c.p.numberDensities = {n: v for n, v in c.p.numberDensities.items() if n not in drop}
            present.append(set(n for n in b.getNuclides() if b.getNumberDensity(n) > 0.0))
        union = sorted(set().union(*present))
        if not union:
            continue
        srcmesh = [0.0] + [float(b.p.ztop) for b in a]
        kind = ctx.rng.choice(["cut", "cut", "shifted", "coarser", "finer"])
        if kind == "cut":     # every interior interface is straddled by a destination cell
            pts = set()
            for z in srcmesh[1:-1]:
                pts.add(z - ctx.rng.choice([1.0, 4.0, 5.5]))
                if ctx.rng.random() < 0.5:
                    pts.add(z + ctx.rng.choice([2.0, 6.0]))
            mesh = [0.0] + sorted(p for p in pts if 0.0 < p < H) + [H]
        else:
            mesh = gen_mesh(ctx.rng, H, srcmesh, kind)
        case = {"assembly": a0.getType(), "mode": "nuclide-sets", "source_mesh": srcmesh, "target_mesh": mesh,
                "nuclides_per_block": [len(p) for p in present]}
        try:
            S = snap(a, union)
            try:
                new = UM.makeAssemWithUniformMesh(a, mesh[1:], paramMapper=None, mapNumberDensities=True)
                back = UM.makeAssemWithUniformMesh(new, srcmesh[1:], paramMapper=None, mapNumberDensities=True)
            except Exception as e:  # noqa
                ctx.fail("remap-raises-on-valid-mesh", "re-meshing blocks with different nuclide sets succeeds", case,
                         observed=repr(e)[:300])
                continue
            D, Bk = snap(new, union), snap(back, union)
            only_one = []
            for n in union:
                a0_ = sum(b["nd"][n] * b["h"] for b in S)
                a1 = sum(b["nd"][n] * b["h"] for b in D)
                a2 = sum(b["nd"][n] * b["h"] for b in Bk)
                holders = sum(1 for p in present if n in p)
                if holders == 1:
                    only_one.append(n)
                if not fclose(a0_, a1, 1e-11):
                    ctx.fail("remap-atoms-conserved-nuclide-union", f"atoms of {n} (held by {holders} of {len(present)} source "
                             "blocks) are conserved when destination cells straddle blocks with different nuclide sets",
                             dict(case, nuclide=n), observed=a1, expected=a0_)
                elif not fclose(a0_, a2, 1e-11):
                    ctx.fail("roundtrip-atoms", "mapping there and back restores the atoms of every nuclide", dict(case, nuclide=n),
                             observed=a2, expected=a0_)
            zb, zt, hh = geom(S)
            dzb, dzt, dh = geom(D)
            pick = (only_one[:3] + ctx.rng.sample(union, min(3, len(union))))[:5]
            for n in pick:
                req.append(f"remapnd {zb} {zt} {hh} {ratlist([s['nd'][n] for s in S])} {dzb} {dzt} {dh}")
                chk.append((dict(case, nuclide=n), [d["nd"][n] for d in D]))
            ctx.count("nuclide-set cases (blocks with different nuclide sets)")
            ctx.count("nuclides held by exactly one source block", len(only_one))
            ctx.case(("nucsets", a0.getType(), tuple(mesh), tuple(len(p) for p in present), _), nontrivial=True)
        except common.Infra:
            raise
        except Exception as e:  # noqa
            del req[len(chk):]
            ctx.fail("remap-state-not-evaluable", "the mapped state can be read back and compared", case, observed=repr(e)[:300])
    model = lean_run("Mesh", req)
    for (case, impl), line, rq in zip(chk, model, req):
        ok = line not in ("reject", "bad-op")
        if ok:
            m = common.parse_list(line)
            ok = len(m) == len(impl) and all(x != "_" and (relclose(v, x, 1e-9) or (float(Fraction(x)) == 0.0 and v == 0.0))
                                             for x, v in zip(m, impl))
        if not ok:
            ctx.disagree("Model/Mesh.lean vs setNumberDensitiesFromOverlaps (different nuclide sets)",
                         dict(case, request=rq[:400]), line[:400], str(impl)[:400])
    ctx.evaluations += len(req)


# --------------------------------------------------------------------------- stream A5: re-mapping onto the SAME destination
def run_restate(ctx):
    """two- and three-step mappings onto the SAME destination assembly (setAssemblyStateFromOverlaps called again after the
    source changed): in later steps the source becomes EXACTLY the parameter default (0.0) over whole destination blocks -
    a value equal to the default is still a value and must overwrite the stale destination state, for every location kind"""
    from armi.reactor.converters import uniformMesh

    fx = fixtures()
    UM = uniformMesh.UniformMeshGeometryConverter
    names = [INT_P, INT_G, AVG_P, AVG_C, PEAK_P, INT_ARR]
    req, chk = [], []
    for _ in range(ctx.pick(20, 300)):
        a0 = ctx.rng.choice(fx["assems"])
        H = a0.getTotalHeight()
        order = list(names)
        ctx.rng.shuffle(order)
        pm = uniformMesh.ParamMapper([], order, a0[0])
        defaults = {n: pm.paramDefaults[n] for n in order}
        srcmesh = [0.0] + [float(b.p.ztop) for b in a0]
        mesh = gen_mesh(ctx.rng, H, srcmesh, ctx.rng.choice(["coarser", "coarser", "identical", "shifted", "finer"]))
        assign_profiles(ctx.rng, a0, with_none=False)
        for b in a0:      # step 1: everything non-default
            for n in (INT_P, INT_G, AVG_P, AVG_C, PEAK_P):
                if b.p[n] == 0.0:
                    b.p[n] = 1.5
        nucs = sorted(a0.getNuclides())[:1]
        case0 = {"assembly": a0.getType(), "mode": "re-mapping onto the same destination", "blockParamNames": order,
                 "source_mesh": srcmesh, "target_mesh": mesh}
        try:
            try:
                dst = UM.makeAssemWithUniformMesh(a0, mesh[1:], paramMapper=pm, mapNumberDensities=True)
            except Exception as e:  # noqa
                ctx.fail("remap-raises-on-valid-mesh", "re-meshing onto a mesh spanning the same height succeeds", case0,
                         observed=repr(e)[:300])
                continue
            blocks = list(a0)
            for step in range(1, ctx.rng.randint(2, 3) + 1):
                # the source turns to the exact default over whole destination cells (and over single source blocks)
                zeroed = set()
                for lo, hi in zip(mesh, mesh[1:]):
                    if ctx.rng.random() < 0.45:
                        zeroed |= {k for k, b in enumerate(blocks)
                                   if overlap(float(b.p.zbottom), float(b.p.ztop), lo, hi) > 0.0}
                zeroed |= {k for k in range(len(blocks)) if ctx.rng.random() < 0.15}
                which = [n for n in order if ctx.rng.random() < 0.7] or [order[0]]
                assign_profiles(ctx.rng, a0, with_none=False)
                for k in zeroed:
                    for n in which:
                        blocks[k].p[n] = np.zeros(3) if n == INT_ARR else (defaults[n] if isinstance(defaults[n], (int, float)) else 0.0)
                case = dict(case0, step=step, source_blocks_at_default=sorted(zeroed), params_at_default=which)
                S = snap(a0, nucs)
                try:
                    UM.setAssemblyStateFromOverlaps(a0, dst, pm, mapNumberDensities=False)
                except Exception as e:  # noqa
                    ctx.fail("remap-raises-on-valid-mesh", "mapping a changed state onto the same destination succeeds", case,
                             observed=repr(e)[:300])
                    break
                D = snap(dst, nucs)
                if not kinds_ok(ctx, case, D):
                    break
                zb, zt, hh = geom(S)
                dzb, dzt, dh = geom(D)
                for name in order:
                    for j in ([None] if name != INT_ARR else [0, 1, 2]):
                        for ib, d in enumerate(D):
                            exp = expected_param(name, S, d, j)
                            if exp is None:
                                continue
                            got = d[name] if j is None or d[name] is None else d[name][j]
                            scale = max([abs(s[name] if j is None else s[name][j]) for s in S if s[name] is not None] + [1e-300])
                            if got is None or not (fclose(got, exp, 1e-11) or abs(got - exp) <= 1e-11 * scale):
                                key = ("remap-default-valued-source-overwrites-stale-destination" if exp == 0.0
                                       else "remap-restate-matches-current-source")
                                ctx.fail(key, "after mapping again onto the same destination every parameter matches the CURRENT "
                                         "source (a source value equal to the parameter default is still a value)",
                                         dict(case, param=name, block=ib, index=j), observed=got, expected=exp)
                        vals = [s[name] if (j is None or s[name] is None) else s[name][j] for s in S]
                        dvals = [d[name] if (j is None or d[name] is None) else d[name][j] for d in D]
                        req.append(f"remap {KIND[name]} {zb} {zt} {hh} {optlist(vals)} {dzb} {dzt} {dh}")
                        chk.append((dict(case, param=name, index=j), dvals))
                for nm in (INT_P, INT_G):
                    t0, t1 = sum(s[nm] for s in S), sum(d[nm] for d in D)
                    if not (fclose(t0, t1, 1e-11) or abs(t0 - t1) < 1e-9):
                        ctx.fail("remap-restate-integrated-total", f"destination total of {nm} equals the current source total after "
                                 "every re-mapping", case, observed=t1, expected=t0)
                ctx.count("re-mapping steps onto the same destination (with default-valued source blocks)")
                ctx.case(("restate", a0.getType(), tuple(mesh), step, tuple(sorted(zeroed)), tuple(which), _), nontrivial=True)
        except common.Infra:
            raise
        except Exception as e:  # noqa
            del req[len(chk):]
            ctx.fail("remap-state-not-evaluable", "the mapped state can be read back and compared", case0, observed=repr(e)[:300])
    model = lean_run("Mesh", req)
    for (case, impl), line, rq in zip(chk, model, req):
        ok = line not in ("reject", "bad-op")
        if ok:
            m = common.parse_list(line)
            ok = len(m) == len(impl)
            if ok:
                for x, v in zip(m, impl):
                    if x == "_":
                        continue
                    if v is None or not (relclose(v, x, 1e-9) or (float(Fraction(x)) == 0.0 and v == 0.0)):
                        ok = False
        if not ok:
            ctx.disagree("Model/Mesh.lean vs setAssemblyStateFromOverlaps (re-mapping onto the same destination)",
                         dict(case, request=rq[:400]), line[:400], str(impl)[:400])
    ctx.evaluations += len(req)


# --------------------------------------------------------------------------- stream A6: mass-conserving block mesh change
HEAVY = ("U", "PU", "NP", "AM", "CM")


CACHE_STATES = ("all-cached", "none-cached", "one-invalid", "one-valid", "random-subset", "query-invalidate-prefix")


def set_cache_state(rng, b, state):
    """bring the component volume caches of a block into a given state with PURE cache operations (queries and
    clearCache; nothing physical changes): all valid, none valid, exactly one component invalid (what a temperature or
    dimension change of that component leaves behind), exactly one valid (block cache cleared, then one component asked
    for its volume / mass), a random subset, or a random prefix of queries and invalidations"""
    comps = list(b)

    def query(c):
        if rng.random() < 0.5:
            c.getVolume()
        else:
            c.getMass()

    if state == "all-cached":
        b.clearCache()
        b.getMass()
        for c in comps:
            c.getVolume()
    elif state == "none-cached":
        b.getMass()
        b.clearCache()
    elif state == "one-invalid":
        b.getMass()
        rng.choice(comps).clearCache()
    elif state == "one-valid":
        b.clearCache()
        solid = [c for c in comps if type(c).__name__ != "DerivedShape"] or comps
        query(rng.choice(solid))
    elif state == "random-subset":
        b.getMass()
        for c in comps:
            if rng.random() < 0.5:
                c.clearCache()
    else:
        for _ in range(rng.randint(1, 6)):
            u = rng.random()
            c = rng.choice(comps)
            if u < 0.35:
                query(c)
            elif u < 0.7:
                c.clearCache()
            elif u < 0.8:
                b.clearCache()
            elif u < 0.9:
                b.getMass()
            else:
                b.getVolume()


def run_cache_states(ctx):
    """Block.setHeight(h, conserveMass=True, adjustList) and Assembly.setBlockMesh from PARTIALLY CACHED blocks: after an
    optional physical change of one component (temperature), the block is measured, copied twice, and the three copies
    are brought into different cache states (the case's state, all cached, none cached) before the same call. Every
    listed nuclide keeps its mass (component by component summed, and as the block reports it), every other keeps its
    density, and all three results are equal."""
    import copy

    fx = fixtures()
    creq, cchk = [], []
    for it in range(ctx.pick(60, 600)):
        a = copy.deepcopy(ctx.rng.choice(fx["assems"]))
        ib = ctx.rng.randrange(len(a))
        b = a[ib]
        nucs = sorted(b.getNuclides())
        if not nucs or len(b) < 2:
            continue
        phys = None
        if ctx.rng.random() < 0.4:
            c = ctx.rng.choice([x for x in b if x.containsSolidMaterial()] or list(b))
            dT = ctx.rng.choice([-40.0, 15.0, 60.0])
            try:
                with common.quiet():
                    c.setTemperature(float(c.temperatureInC) + dT)
                phys = [c.name, dT]
            except Exception:  # noqa
                continue
        kind = ctx.rng.choice(["full", "full", "heavy-metal", "random-subset", "shared-only"])
        shared = [n for n in nucs if sum(1 for c in b if c.getNumberDensity(n) > 0) >= 2]
        if kind == "full":
            adjust = list(nucs)
        elif kind == "heavy-metal":
            adjust = [n for n in nucs if n.startswith(HEAVY)] or list(nucs)
        elif kind == "shared-only":
            adjust = shared or list(nucs)
        else:
            adjust = ctx.rng.sample(nucs, ctx.rng.randint(1, len(nucs)))
        state = CACHE_STATES[it % len(CACHE_STATES)]
        h0 = float(b.getHeight())
        h1 = h0 * (1.0 + ctx.rng.choice([-16, -8, -3, 2, 5, 16, 32]) / 64.0)
        case = {"assembly": a.getType(), "block": b.getType(), "mode": "setHeight from a cache state", "cache_state": state,
                "changed_before": phys, "adjustList": kind, "height": [h0, h1], "shared_nuclides": len(shared)}
        try:
            m0 = {n: float(sum(c.getMass(n) for c in b)) for n in nucs}
            nd0 = {n: float(b.getNumberDensity(n)) for n in nucs}
            # one listed nuclide component by component, for the model (areas, densities, and which volumes the harness
            # leaves cached at the old height)
            pick = ctx.rng.choice([n for n in adjust if n in shared] or list(adjust))
            held = [pick in c.getNuclides() for c in b]
            areas = [float(c.getArea()) for c in b]
            cnd = [float(c.getNumberDensity(pick)) if hd else None for c, hd in zip(b, held)]
            trip = [a, copy.deepcopy(a), copy.deepcopy(a)]
            outs = []
            for aa, st in zip(trip, (state, "all-cached", "none-cached")):
                bb = aa[ib]
                with common.quiet():
                    set_cache_state(ctx.rng, bb, st)
                    bb.setHeight(h1, conserveMass=True, adjustList=list(adjust))
                outs.append(({n: float(sum(c.getMass(n) for c in bb)) for n in nucs},
                             {n: float(bb.getNumberDensity(n)) for n in nucs}, float(bb.getHeight()),
                             [float(c.getNumberDensity(pick)) if hd else None for c, hd in zip(bb, held)]))
        except Exception as e:  # noqa
            ctx.fail("setheight-raises-from-cache-state", "a mass-conserving height change of a valid block succeeds whatever its "
                     "cache state", case, observed=repr(e)[:300])
            continue
        m1, nd1, hh, cnd1 = outs[0]
        if nd0[pick] != 0.0 and all(x > 0 for x in areas):
            caches = [(ar * h0 if ctx.rng.random() < 0.5 else None) for ar in areas]
            creq.append(f"setheightc {rat(h0)} {rat(h1)} {ratlist(areas)} {optlist(cnd)} {optlist(caches)}")
            cchk.append((dict(case, nuclide=pick), cnd1))
        for n in nucs:
            if n in adjust:
                if not (fclose(m1[n], m0[n], 1e-9) or abs(m1[n] - m0[n]) < 1e-30):
                    ctx.fail("setheight-nuclide-mass-conserved", "the mass of every nuclide in adjustList is conserved (sum over "
                             "the components), whatever the cache state of the block", dict(case, nuclide=n,
                             shared=n in shared), observed=m1[n], expected=m0[n])
                if not (fclose(nd1[n] * h1, nd0[n] * h0, 1e-9) or (nd0[n] == 0.0 and nd1[n] == 0.0)):
                    ctx.fail("setheight-listed-nuclide-conserved", "density x height of every nuclide in adjustList is "
                             "conserved", dict(case, nuclide=n), observed=nd1[n] * h1, expected=nd0[n] * h0)
            elif not (fclose(nd1[n], nd0[n], 1e-12) or (nd0[n] == 0.0 and nd1[n] == 0.0)):
                ctx.fail("setheight-unlisted-nuclide-unchanged", "the density of every nuclide NOT in adjustList is "
                         "unchanged (not wiped, not scaled)", dict(case, nuclide=n), observed=nd1[n], expected=nd0[n])
        for (mx, ndx, _h, _c), other in zip(outs[1:], ("all-cached", "none-cached")):
            bad = [n for n in nucs if not (fclose(ndx[n], nd1[n], 1e-12) or abs(ndx[n] - nd1[n]) < 1e-40)]
            if bad:
                ctx.fail("setheight-independent-of-cache-state", "the result of a height change does not depend on which "
                         "component volumes happened to be cached", dict(case, compared_with=other, nuclide=bad[0]),
                         observed=nd1[bad[0]], expected=ndx[bad[0]])
        ctx.count("setHeight from cache state " + state + (" after a temperature change" if phys else ""))
        ctx.case(("cache-setheight", a.getType(), ib, state, kind, h1, bool(phys)), nontrivial=True)
    # ---- Assembly.setBlockMesh with every block in its own cache state
    snapped = [x for x in fx["assems"] if x[-1].p.topIndex != 0]
    for it in range(ctx.pick(20, 200)):
        a = copy.deepcopy(ctx.rng.choice(snapped))
        mode = ctx.rng.choice([True, True, "auto"])
        tops0 = [float(b.p.ztop) for b in a]
        n = max(int(b.p.topIndex) for b in a) + 1
        new_tops, z = [], 0.0
        for t0, t1 in zip([0.0] + tops0, tops0):
            z += (t1 - t0) * (1.0 + ctx.rng.choice([-16, -8, -4, 0, 4, 8, 16]) / 64.0)
            new_tops.append(z)
        mesh = [None] * n
        for b, t in zip(a, new_tops):
            mesh[int(b.p.topIndex)] = t
        case = {"assembly": a.getType(), "mode": "setBlockMesh from cache states", "conserveMassFlag": mode, "new_tops": new_tops}
        try:
            trip = [a, copy.deepcopy(a), copy.deepcopy(a)]
            states = [ctx.rng.choice(CACHE_STATES) for _ in a]
            res = []
            for aa, how in zip(trip, (None, "all-cached", "none-cached")):
                with common.quiet():
                    for b, st in zip(aa, states):
                        set_cache_state(ctx.rng, b, how or st)
                    aa.setBlockMesh(list(mesh), conserveMassFlag=mode)
                res.append([[{k: float(v) for k, v in c.getNumberDensities().items()} for c in b] for b in aa])
        except Exception as e:  # noqa
            ctx.fail("setheight-raises-from-cache-state", "a block-mesh change of a valid assembly succeeds whatever the cache "
                     "states of its blocks", case, observed=repr(e)[:300])
            continue
        for other, name in zip(res[1:], ("all-cached", "none-cached")):
            for jb, (bx, by) in enumerate(zip(res[0], other)):
                for cx, cy in zip(bx, by):
                    bad = [k for k in cx if not (fclose(cx[k], cy.get(k, 0.0), 1e-12) or abs(cx[k] - cy.get(k, 0.0)) < 1e-40)]
                    if bad:
                        ctx.fail("setheight-independent-of-cache-state", "the result of a block-mesh change does not depend on which "
                                 "component volumes happened to be cached", dict(case, block=jb, compared_with=name, nuclide=bad[0],
                                 cache_state=states[jb]), observed=cx[bad[0]], expected=cy.get(bad[0]))
                        break
        ctx.count("setBlockMesh from per-block cache states")
        ctx.case(("cache-blockmesh", a.getType(), str(mode), tuple(new_tops), tuple(states)), nontrivial=True)
    model = lean_run("Mesh", creq)
    for (case, impl), line, rq in zip(cchk, model, creq):
        okk = line not in ("reject", "bad-op")
        if okk:
            m = common.parse_list(line)
            okk = len(m) == len(impl) and all((x == "_") == (v is None) and (v is None or relclose(v, x, 1e-9) or abs(v) < 1e-40)
                                              for x, v in zip(m, impl))
        if not okk:
            ctx.disagree("Model/Mesh.lean setHeightOne (component by component, with caches) vs Block.setHeight",
                         dict(case, request=rq[:300]), line[:300], str(impl)[:300])
    ctx.evaluations += len(creq)
    ctx.count("component-level setHeight model requests", len(creq))


def run_block_mesh(ctx):
    """Block.setHeight(h, conserveMass=True, adjustList) / adjustDensity with full, proper-subset (heavy metal only, random)
    and empty nuclide lists; Assembly.setBlockMesh with conserveMassFlag False / True / "auto" on fuel, control and shield
    assemblies: listed nuclides / conserved components keep density x height, everything else keeps its density"""
    import copy

    from armi.materials.material import Fluid
    from armi.reactor.flags import Flags

    fx = fixtures()
    req, chk = [], []
    # ---- Block.setHeight
    for _ in range(ctx.pick(60, 800)):
        a = copy.deepcopy(ctx.rng.choice(fx["assems"]))
        ib = ctx.rng.randrange(len(a))
        b = a[ib]
        nucs = sorted(b.getNuclides())
        if not nucs:
            continue
        kind = ctx.rng.choice(["full", "heavy-metal", "random-subset", "random-subset", "empty", "single"])
        if kind == "full":
            adjust = list(nucs)
        elif kind == "heavy-metal":
            adjust = [n for n in nucs if n.startswith(HEAVY)]
        elif kind == "empty":
            adjust = []
        elif kind == "single":
            adjust = [ctx.rng.choice(nucs)]
        else:
            adjust = ctx.rng.sample(nucs, ctx.rng.randint(1, len(nucs) - 1)) if len(nucs) > 1 else list(nucs)
        conserve = ctx.rng.random() < 0.85
        h0 = float(b.getHeight())
        h1 = h0 if ctx.rng.random() < 0.1 else h0 * (1.0 + ctx.rng.choice([-16, -8, -3, 2, 5, 16, 32]) / 64.0)
        nd0 = [float(b.getNumberDensity(n)) for n in nucs]
        case = {"assembly": a.getType(), "block": b.getType(), "mode": "setHeight", "adjustList": kind, "conserveMass": conserve,
                "height": [h0, h1], "listed": len(adjust), "of": len(nucs)}
        try:
            with common.quiet():
                set_cache_state(ctx.rng, b, ctx.rng.choice(CACHE_STATES))     # whatever is cached must not matter
            try:
                b.setHeight(h1, conserveMass=conserve, adjustList=list(adjust))
                raised = False
            except ValueError:
                raised = True
            adj_idx = [k for k, n in enumerate(nucs) if n in set(adjust)]
            req.append(f"setheight {rat(h0)} {rat(h1)} {'T' if conserve else 'F'} {common.intlist(adj_idx)} "
                       f"{common.intlist(range(len(nucs)))} {ratlist(nd0)}")
            if raised:
                chk.append((case, None))
                if not (conserve and h0 != h1 and not adjust):
                    ctx.fail("setheight-refuses", "setHeight refuses only a mass-conserving change without nuclides", case,
                             observed="ValueError")
                ctx.count("setHeight refused (no nuclides given)")
                continue
            nd1 = [float(b.getNumberDensity(n)) for n in nucs]
            chk.append((case, (float(b.getHeight()), nd1)))
            if float(b.getHeight()) != h1 or not fclose(float(b.p.ztop) - float(b.p.zbottom), h1, 1e-12):
                ctx.fail("setheight-height-applied", "the block has the requested height and the assembly's elevations follow",
                         case, observed=[float(b.getHeight()), float(b.p.zbottom), float(b.p.ztop)])
            if conserve and h0 != h1 and not adjust:
                ctx.fail("setheight-accepts-empty-list", "a mass-conserving height change without nuclides is refused", case)
            for k, n in enumerate(nucs):
                listed = conserve and h0 != h1 and n in adjust
                if listed:
                    if not (fclose(nd1[k] * h1, nd0[k] * h0, 1e-9) or (nd0[k] == 0.0 and nd1[k] == 0.0)):
                        ctx.fail("setheight-listed-nuclide-conserved", "density x height of every nuclide in adjustList is "
                                 "conserved", dict(case, nuclide=n), observed=nd1[k] * h1, expected=nd0[k] * h0)
                elif not (fclose(nd1[k], nd0[k], 1e-12) or (nd0[k] == 0.0 and nd1[k] == 0.0)):
                    ctx.fail("setheight-unlisted-nuclide-unchanged", "the density of every nuclide NOT in adjustList is "
                             "unchanged (not wiped, not scaled)", dict(case, nuclide=n), observed=nd1[k], expected=nd0[k])
            ctx.count(f"setHeight adjustList {kind}")
            ctx.case(("setheight", a.getType(), ib, kind, conserve, h1), nontrivial=h0 != h1)
        except common.Infra:
            raise
        except Exception as e:  # noqa
            del req[len(chk):]
            ctx.fail("remap-state-not-evaluable", "the block state can be read back and compared", case, observed=repr(e)[:300])
    # ---- Assembly.setBlockMesh
    snapped = [x for x in fx["assems"] if x[-1].p.topIndex != 0]
    for _ in range(ctx.pick(40, 500)):
        a = copy.deepcopy(ctx.rng.choice(snapped))
        mode = ctx.rng.choice(["auto", "auto", True, False])
        tops0 = [float(b.p.ztop) for b in a]
        n = max(int(b.p.topIndex) for b in a) + 1
        new_tops, z = [], 0.0
        for t0, t1 in zip([0.0] + tops0, tops0):
            z += (t1 - t0) * (1.0 + ctx.rng.choice([-16, -8, -4, 0, 0, 4, 8, 16]) / 64.0)
            new_tops.append(z)
        mesh = [None] * n
        for b, t in zip(a, new_tops):
            mesh[int(b.p.topIndex)] = t
        assem_fuel = bool(a.hasFlags(Flags.FUEL))
        before = []
        for b in a:
            comps = []
            for c in b:
                nd = c.getNumberDensities()
                keys = sorted(nd)
                comps.append({"name": c.name, "fuel": bool(c.hasFlags(Flags.FUEL)), "fluid": isinstance(c.material, Fluid),
                              "keys": keys, "nd": [float(nd[k]) for k in keys]})
            before.append({"fuel": bool(b.hasFlags(Flags.FUEL)), "h": float(b.getHeight()), "comps": comps})
        case = {"assembly": a.getType(), "mode": "setBlockMesh", "conserveMassFlag": mode, "old_tops": tops0, "new_tops": new_tops}
        try:
            with common.quiet():
                for b in a:
                    if ctx.rng.random() < 0.5:
                        set_cache_state(ctx.rng, b, ctx.rng.choice(CACHE_STATES))
                a.setBlockMesh(mesh, conserveMassFlag=mode)
            after = []
            for b in a:
                comps = []
                for c, pc in zip(b, before[len(after)]["comps"]):
                    nd = c.getNumberDensities()
                    comps.append([float(nd.get(k, 0.0)) for k in pc["keys"]])
                after.append({"h": float(b.getHeight()), "zt": float(b.p.ztop), "comps": comps})
            below = True
            for ib, (pb, qb) in enumerate(zip(before, after)):
                if pb["fuel"]:
                    below = False
                if not fclose(qb["zt"], new_tops[ib], 1e-12) or not fclose(qb["h"], new_tops[ib] - ([0.0] + new_tops)[ib], 1e-12):
                    ctx.fail("setblockmesh-mesh-applied", "the assembly takes the requested block mesh", dict(case, block=ib),
                             observed=[qb["h"], qb["zt"]], expected=new_tops[ib])
                for pc, qc in zip(pb["comps"], qb["comps"]):
                    if mode == "auto":
                        cons = pc["fuel"] if pb["fuel"] else (assem_fuel and below and not pc["fluid"])
                    else:
                        cons = bool(mode)
                    for k, d0, d1 in zip(pc["keys"], pc["nd"], qc):
                        if cons and not fclose(d1 * qb["h"], d0 * pb["h"], 1e-11):
                            ctx.fail("setblockmesh-conserved-component", "a component whose mass is to be conserved keeps density x "
                                     "height for every nuclide", dict(case, block=ib, comp=pc["name"], nuclide=k),
                                     observed=d1 * qb["h"], expected=d0 * pb["h"])
                        if not cons and d1 != d0:
                            ctx.fail("setblockmesh-other-component-unchanged", "a component whose mass is not to be conserved keeps "
                                     "its densities", dict(case, block=ib, comp=pc["name"], nuclide=k), observed=d1, expected=d0)
            m = "auto" if mode == "auto" else ("all" if mode else "off")
            compsarg = "[" + ",".join("[" + ",".join(ratlist([int(c["fuel"]), int(c["fluid"])] + c["nd"][:3]) for c in pb["comps"]) + "]"
                                      for pb in before) + "]"
            req.append(f"blockmesh {m} {'T' if assem_fuel else 'F'} {common.intlist([int(pb['fuel']) for pb in before])} "
                       f"{ratlist([pb['h'] for pb in before])} {ratlist(new_tops)} {compsarg}")
            chk.append((case, ("mesh", [(qb["h"], [qc[:3] for qc in qb["comps"]]) for qb in after])))
            ctx.count(f"setBlockMesh conserveMassFlag={mode}")
            ctx.case(("blockmesh", a.getType(), str(mode), tuple(new_tops)), nontrivial=new_tops != tops0)
        except common.Infra:
            raise
        except Exception as e:  # noqa
            del req[len(chk):]
            ctx.fail("remap-state-not-evaluable", "the assembly state can be read back and compared", case, observed=repr(e)[:300])
    model = lean_run("Mesh", req)
    for (case, impl), line, rq in zip(chk, model, req):
        if impl is None:
            ok = line == "reject"
        elif line in ("reject", "bad-op"):
            ok = False
        elif impl[0] == "mesh":
            m = common.parse_list(line)
            ok = len(m) == len(impl[1])
            if ok:
                for mb, (h, comps) in zip(m, impl[1]):
                    if not relclose(h, mb[0], 1e-11) or len(mb[1]) != len(comps):
                        ok = False
                        break
                    for mc, qc in zip(mb[1], comps):
                        if len(mc) != len(qc) or not all(relclose(v, x, 1e-11) for x, v in zip(mc, qc)):
                            ok = False
        else:
            hs, nds = line.split(" ")
            m = common.parse_list(nds)
            ok = relclose(impl[0], hs, 1e-12) and len(m) == len(impl[1]) and all(
                relclose(v, x, 1e-9) or (abs(v) < 1e-40 and abs(float(Fraction(x))) < 1e-40) for x, v in zip(m, impl[1]))
        if not ok:
            ctx.disagree("Model/Mesh.lean vs Block.setHeight / Assembly.setBlockMesh", dict(case, request=rq[:300]), line[:300],
                         str(impl)[:300])
    ctx.evaluations += len(req)


# --------------------------------------------------------------------------- stream A': near-coincident points
def run_near(ctx):
    from armi.reactor.converters import uniformMesh

    fx = fixtures()
    UM = uniformMesh.UniformMeshGeometryConverter
    names = list(KIND)
    for _ in range(ctx.pick(30, 400)):
        a0 = ctx.rng.choice(fx["assems"])
        H = a0.getTotalHeight()
        pm = uniformMesh.ParamMapper([], names, a0[0])
        allnucs = sorted(a0.getNuclides())
        nucs = ctx.rng.sample(allnucs, min(4, len(allnucs)))
        assign_profiles(ctx.rng, a0, with_none=False)
        srcmesh = [0.0] + [float(b.p.ztop) for b in a0]
        pts = set()
        for z in srcmesh[1:-1]:
            u = ctx.rng.random()
            if u < 0.7:
                pts.add(z + ctx.rng.choice([1e-9, -1e-9, 1e-7, -1e-7, 3e-11, -3e-11, 0.0, z * 2.0 ** -52, -z * 2.0 ** -52]))
        twin = ctx.rng.random() < 0.3
        if twin:     # two TARGET points nearly coincident: a cell far thinner than 1e-10 of the block around it
            z = ctx.rng.randint(1, int(H * 8) - 1) / 8.0 + 0.03125
            pts.update((z, z + ctx.rng.choice([1e-9, 3e-11, 1e-7])))
        mesh = [0.0] + sorted(pts) + [H]
        case = {"assembly": a0.getType(), "source_mesh": srcmesh, "target_mesh": mesh, "mode": "near-coincident"}
        S = snap(a0, nucs)
        thin = min(b - a for a, b in zip(mesh, mesh[1:])) < 1e-8
        try:
            new = UM.makeAssemWithUniformMesh(a0, mesh[1:], paramMapper=pm, mapNumberDensities=True)
        except Exception as e:  # noqa
            if thin and isinstance(e, ValueError):
                # excluded point: a target cell thinner than the 1e-10 sliver filter can resolve is refused loudly
                ctx.count("near-coincident: target cell below the sliver filter refused loudly (ValueError)")
                continue
            ctx.fail("remap-raises-on-near-coincident-mesh", "re-meshing onto nearly coincident points succeeds", case,
                     observed=repr(e)[:300])
            continue
        D = snap(new, nucs)
        if not kinds_ok(ctx, case, D):
            continue
        oracle_mapping(ctx, case, S, D, 1e-8, False, False, hyp_ok=False)
        ctx.count("near-coincident meshes (oracle only)")
        ctx.case(("near", a0.getType(), tuple(mesh)), nontrivial=True)


# --------------------------------------------------------------------------- stream B: _filterMesh
def gen_filter(rng):
    n = rng.randint(2, 12)
    pts = [rng.randint(0, 160) / 8.0 for _ in range(n)]
    anchors = [p for p in pts if rng.random() < 0.3]
    if rng.random() < 0.3:
        anchors.append(rng.randint(0, 160) / 8.0)      # an anchor that is not a candidate
    m = rng.choice([0.5, 1.0, 1.5, 2.0, 3.0, 0.125])
    return pts, m, anchors, rng.choice(["bottom", "top"])


def gen_filter_clustered(rng):
    """anchors with non-anchor candidates closer than the minimum on BOTH sides; pairs of anchors closer than the
    minimum with removable points between / around them"""
    m = rng.choice([1.0, 1.5, 2.0, 3.0])
    pts, anchors = [], []
    z = rng.randint(0, 40) / 8.0
    for _ in range(rng.randint(1, 4)):
        z += m + rng.randint(0, 40) / 8.0
        anchors.append(z)
        pts.append(z)
        for side in (-1, 1):
            for _k in range(rng.randint(0, 2)):
                pts.append(z + side * rng.randint(1, int(m * 8) - 1) / 8.0)
        if rng.random() < 0.3:      # a second anchor closer than the minimum
            z2 = z + rng.randint(1, int(m * 8) - 1) / 8.0
            anchors.append(z2)
            pts.append(z2)
            if rng.random() < 0.5:
                pts.append((z + z2) / 2.0)
    for _ in range(rng.randint(0, 3)):
        pts.append(rng.randint(0, 400) / 8.0)
    rng.shuffle(pts)
    return pts, m, anchors, rng.choice(["bottom", "top"])


FILTER_CORPUS = [
    ([25, 48.5, 50, 52, 75, 100], 3.0, [50], "bottom"),
    ([25, 48.5, 50, 52, 75, 100], 3.0, [50], "top"),
    ([25, 49, 50, 51, 51.5, 75, 100], 3.0, [50, 51.5], "bottom"),
    ([25, 49, 50, 51, 51.5, 75, 100], 3.0, [50, 51.5], "top"),
    ([0, 98.5, 100, 101.5, 175], 3.0, [100], "top"),
    ([0, 98.5, 100, 101.5, 175], 3.0, [100], "bottom"),
    ([10.0], 1.0, [10.0], "bottom"),
    ([], 1.0, [], "top"),
    ([5.0, 5.0, 5.0], 1.0, [], "bottom"),
]


def filter_spec(pts, m, anchors, out):
    """clauses of filterMesh_spec on a successful result; returns the name of the first broken clause"""
    if any(b <= a for a, b in zip(out, out[1:])):
        return "strictly-increasing"
    if any(x not in pts for x in out):
        return "only-candidate-points"
    if any(b - a < m for a, b in zip(out, out[1:])):
        return "no-cell-thinner-than-minimum"
    if any(a in pts and a not in out for a in anchors):
        return "anchors-kept"
    return None


def call_filter(gen, pts, m, anchors, pref):
    """list of floats, None (refused with ValueError), or a string describing any other outcome"""
    try:
        return [float(x) for x in gen._filterMesh(list(pts), m, list(anchors), preference=pref)]
    except ValueError:
        return None
    except Exception as e:  # noqa
        return "raised " + repr(e)[:200]


def run_filter(ctx):
    from armi.reactor.converters import uniformMesh

    fx = fixtures()
    gen = uniformMesh.UniformMeshGenerator(fx["r"], minimumMeshSize=1.0)
    req, impl, cases = [], [], []
    n = ctx.pick(600, 12000)
    inputs = [tuple(c) for c in FILTER_CORPUS]
    inputs += [gen_filter(ctx.rng) if k % 2 else gen_filter_clustered(ctx.rng) for k in range(n)]
    for pts, m, anchors, pref in inputs:
        pts, anchors = [float(x) for x in pts], [float(x) for x in anchors]
        with common.quiet():
            out = call_filter(gen, pts, m, anchors, pref)
        case = {"points": pts, "min": m, "anchors": anchors, "preference": pref}
        req.append(f"filter {ratlist(pts)} {rat(m)} {ratlist(anchors)} {'T' if pref == 'top' else 'F'}")
        impl.append("reject" if out is None else (out if isinstance(out, str) else ratlist(out)))
        cases.append(case)
        oracle_filter(ctx, case, out)
        ctx.count("filterMesh refused" if out is None else "filterMesh ok")
        ctx.case(("filter", tuple(pts), m, tuple(anchors), pref), nontrivial=len(set(pts)) > 1)
    model = lean_run("Mesh", req)
    ctx.compare("Model/Mesh.lean filterMesh vs UniformMeshGenerator._filterMesh", cases, model, impl)
    ctx.evaluations += len(req)
    ctx.samples.append({"request": req[0], "model": model[0], "impl": impl[0]})
    # end to end: control-rod tops 1.5 cm either side of the fuel top, 3 cm minimum -> a valid mesh
    from armi.reactor.flags import Flags
    from armi.reactor.tests.test_reactors import loadTestReactor
    from armi.tests import TEST_ROOT

    with common.scratch_dir(), common.quiet():
        _o, rc = loadTestReactor(TEST_ROOT)
    ctrl = rc.core.getAssemblies(Flags.CONTROL)
    fuel_top = max(b.p.ztop for a in rc.core.getAssemblies(Flags.FUEL) for b in a.getBlocks(Flags.FUEL))
    fuel_bot = min(b.p.zbottom for a in rc.core.getAssemblies(Flags.FUEL) for b in a.getBlocks(Flags.FUEL))
    for delta in (1.5, 0.5, 2.875):
        for k, a in enumerate(ctrl):
            top = fuel_top + (delta if k % 2 == 0 else -delta)
            a.setBlockMesh([25.0, 50.0, top, 137.5, 175.0])
        for m in (3.0, 1.0):
            g = uniformMesh.UniformMeshGenerator(rc, minimumMeshSize=m)
            case = {"scenario": "control tops beside the fuel top", "delta": delta, "min": m}
            try:
                with common.quiet():
                    g.generateCommonMesh()
            except Exception as e:  # noqa
                ctx.fail("common-mesh-control-beside-fuel-top", "a valid common mesh is generated when control-rod tops lie "
                         "within the minimum size of the fuel top", case, observed=repr(e)[:200])
                continue
            mesh = [float(x) for x in g._commonMesh]
            ok = (all(b > a for a, b in zip(mesh, mesh[1:])) and all(b - a >= m - 1e-9 for a, b in zip(mesh, mesh[1:]))
                  and fuel_top in mesh and fuel_bot in mesh and mesh[-1] == 175.0)
            if not ok:
                ctx.fail("common-mesh-control-beside-fuel-top", "the generated mesh is strictly increasing, has no cell thinner "
                         "than the minimum, keeps the fuel boundaries and reaches the top", case, observed=mesh)
            ctx.count("generateCommonMesh with control tops beside the fuel top ok")
            ctx.case(("common-mesh", delta, m), nontrivial=True)
    # the public path: generateCommonMesh / _decuspAxialMesh on whole cores; the pipeline is also run through the model
    dreq, dchk = [], []
    areq, achk = [], []

    def common_mesh_case(rr, m, case, witness=False):
        from armi.reactor.flags import Flags as F

        g = uniformMesh.UniformMeshGenerator(rr, minimumMeshSize=m)
        core_top = max(float(b.p.ztop) for a_ in rr.core for b in a_)
        try:
            with common.quiet():
                g._computeAverageAxialMesh()
                base = [float(x) for x in g._commonMesh]
                refn = len(rr.core.findAllAxialMeshPoints([rr.core.refAssem])[1:])
                per_a = [[float(z) for z in rr.core.findAllAxialMeshPoints([a_])[1:]] for a_ in rr.core]
                areq.append(f"avgmesh {refn} [" + ",".join(ratlist(x) for x in per_a) + "]")
                achk.append((dict(case, what="_computeAverageAxialMesh"), base))
                fuel, ctrl = rr.core.getAssemblies(F.FUEL), rr.core.getAssemblies(F.CONTROL)
                sets = [sorted({float(a_.getFirstBlock(F.FUEL).p.zbottom) for a_ in fuel}),
                        sorted({float(a_.getBlocks(F.FUEL)[-1].p.ztop) for a_ in fuel}),
                        sorted({float(a_.getFirstBlock(F.CONTROL).p.zbottom) for a_ in ctrl}),
                        sorted({float(a_.getBlocks(F.CONTROL)[-1].p.ztop) for a_ in ctrl})]
                g.generateCommonMesh()
            mesh = [float(x) for x in g._commonMesh]
        except ValueError:
            ctx.count("generateCommonMesh refused")
            mesh = None
        except Exception as e:  # noqa
            ctx.fail("common-mesh-unexpected-exception", "mesh generation returns a mesh or refuses with ValueError", case,
                     observed=repr(e)[:200])
            return None
        try:
            dreq.append(f"decusp {rat(m)} {ratlist(base)} {ratlist(sets[0])} {ratlist(sets[1])} {ratlist(sets[2])} {ratlist(sets[3])}")
            dchk.append((case, "reject" if mesh is None else ratlist(mesh)))
        except Exception:  # noqa
            del dreq[len(dchk):]
        if mesh is None:
            return None
        if any(b <= a for a, b in zip(mesh, mesh[1:])):
            ctx.fail("common-mesh-strictly-increasing", "generated common mesh is strictly increasing", case, observed=mesh)
        if any(b - a < m - 1e-9 for a, b in zip(mesh, mesh[1:])):
            ctx.fail("common-mesh-min-size", "generated common mesh has no cell thinner than the minimum", case, observed=mesh)
        if not mesh or not (mesh[0] > 0.0) or mesh[-1] != core_top:
            key = "common-mesh-drops-core-top-control-top-just-below" if witness else "common-mesh-spans-core-height"
            ctx.fail(key, "the generated common mesh spans the core: it ends at the top of the assemblies", case,
                     observed=mesh, expected=core_top)
            return None
        # re-meshing real assemblies onto it preserves height and atoms
        UM = uniformMesh.UniformMeshGeometryConverter
        for a_ in ctx.rng.sample(list(rr.core), 3):
            nucs = sorted(a_.getNuclides())[:6]
            S = snap(a_, nucs)
            try:
                new = UM.makeAssemWithUniformMesh(a_, mesh, paramMapper=None, mapNumberDensities=True)
            except Exception as e:  # noqa
                ctx.fail("remap-raises-on-valid-mesh", "re-meshing onto the generated common mesh succeeds", case, observed=repr(e)[:200])
                continue
            D = snap(new, nucs)
            if not fclose(D[-1]["zt"], S[-1]["zt"], 1e-12):
                ctx.fail("remap-total-height", "the new assembly spans the same height", case, observed=D[-1]["zt"], expected=S[-1]["zt"])
            for n_ in nucs:
                x0, x1 = sum(b["nd"][n_] * b["h"] for b in S), sum(b["nd"][n_] * b["h"] for b in D)
                if not fclose(x0, x1, 1e-11):
                    ctx.fail("remap-atoms-conserved", f"atoms of {n_} are conserved when re-meshing onto the generated common mesh",
                             case, observed=x1, expected=x0)
        ctx.count("generateCommonMesh ok (spans the core, atoms conserved after re-meshing)")
        ctx.case(("common-mesh-core", case.get("scenario"), m), nontrivial=True)
        return mesh

    for name, rr in (("reference", fx["r"]), ("detailedAxialExpansion", fx["r2"])):
        for m in (0.5, 2.0, 5.0, 10.0, 20.0):
            common_mesh_case(rr, m, {"scenario": "fixture core " + name, "min": m})
    # a non-anchor candidate within the minimum just below the core top: fine top blocks (axMesh) and a larger minimum
    with common.scratch_dir(), common.quiet():
        _o, rn = loadTestReactor(TEST_ROOT)
    for ax, m in ((15, 6.0), (15, 4.0), (25, 7.0), (5, 16.0), (3, 26.0)):
        for a_ in rn.core:
            a_[-1].p.axMesh = ax
        common_mesh_case(rn, m, {"scenario": f"top block axMesh={ax}", "min": m})
    for a_ in rn.core:
        a_[-1].p.axMesh = 1
    # excluded point (known finding): a control-rod top within the minimum BELOW the core top
    for k, a_ in enumerate(rn.core.getAssemblies(Flags.CONTROL)):
        a_.setBlockMesh([25.0, 50.0, 172.0, 173.5, 175.0])
    common_mesh_case(rn, 6.0, {"scenario": "control-rod top 3 cm below the core top", "min": 6.0}, witness=True)
    common_mesh_case(rn, 2.0, {"scenario": "control-rod top 3 cm below the core top", "min": 2.0})
    dmodel = lean_run("Mesh", dreq)
    ctx.compare("Model/Mesh.lean decusp vs UniformMeshGenerator._decuspAxialMesh", [c for c, _ in dchk], dmodel, [x for _, x in dchk])
    ctx.evaluations += len(dreq)
    compare_avgmesh(ctx, areq, achk)


def compare_avgmesh(ctx, areq, achk):
    """Model/Mesh.lean averageAxialMesh vs UniformMeshGenerator._computeAverageAxialMesh (numerically: the model
    averages exact rationals)"""
    amodel = lean_run("Mesh", areq)
    for (case, impl), line, rq in zip(achk, amodel, areq):
        okk = line not in ("reject", "bad-op")
        if okk:
            m = common.parse_list(line)
            okk = len(m) == len(impl) and all(relclose(v, x, 1e-12) for x, v in zip(m, impl))
        if not okk:
            ctx.disagree("Model/Mesh.lean averageAxialMesh vs UniformMeshGenerator._computeAverageAxialMesh",
                         dict(case, request=rq[:300]), line[:300], str(impl)[:300])
    ctx.evaluations += len(areq)
    ctx.count("average-mesh model requests", len(areq))


def oracle_filter(ctx, case, out):
    pts, m, anchors = case["points"], case["min"], case["anchors"]
    if isinstance(out, str):
        ctx.fail("filtermesh-unexpected-exception", "filtering returns a mesh or refuses with ValueError", case, observed=out)
        return
    if out is None:
        anc = sorted(set(a for a in anchors if a in pts))
        if not any(b - a < m for a, b in zip(anc, anc[1:])):
            ctx.fail("filtermesh-refuses-without-close-anchors", "filtering fails only when two anchors are closer than "
                     "the minimum", case, observed="ValueError")
    else:
        bad = filter_spec(pts, m, anchors, out)
        if bad:
            ctx.fail("filtermesh-" + bad, "filterMesh_spec clause: " + bad, case, observed=out)


# --------------------------------------------------------------------------- stream C: resampleStepwise
def gen_resample(rng):
    n = rng.randint(1, 6)
    xin = sorted(set(rng.randint(0, 160) / 8.0 for _ in range(n + 1)))
    while len(xin) < 2:
        xin = sorted(set(rng.randint(0, 160) / 8.0 for _ in range(n + 1)))
    yin = [rng.randint(-16, 160) / 8.0 for _ in range(len(xin) - 1)]
    k = rng.randint(0, 6)
    inner = set(rng.randint(int(xin[0] * 8), int(xin[-1] * 8)) / 8.0 for _ in range(k))
    if rng.random() < 0.5:
        inner |= set(x for x in xin if rng.random() < 0.5)
    inner -= {xin[0], xin[-1]}
    xout = [xin[0]] + sorted(inner) + [xin[-1]]
    if rng.random() < 0.2:
        xout.append(xin[-1] + rng.randint(1, 16) / 8.0)     # extends above the input range
    return xin, yin, xout


def has_interior_cell(xin, xout):
    """an output cell strictly inside one input cell (the F25 class)"""
    for a, b in zip(xout, xout[1:]):
        for p, q in zip(xin, xin[1:]):
            if p < a and b < q:
                return True
    return False


def exact_resample_sum(xin, yin, xout):
    out = []
    for a, b in zip(xout, xout[1:]):
        tot = Fraction(0)
        for p, q, y in zip(xin, xin[1:], yin):
            w = max(Fraction(0), min(Fraction(q), Fraction(b)) - max(Fraction(p), Fraction(a)))
            tot += Fraction(y) * w / (Fraction(q) - Fraction(p))
        out.append(tot)
    return out


def exact_resample_avg(xin, yin, xout):
    out = []
    for a, b in zip(xout, xout[1:]):
        tot, wt = Fraction(0), Fraction(0)
        for p, q, y in zip(xin, xin[1:], yin):
            w = max(Fraction(0), min(Fraction(q), Fraction(b)) - max(Fraction(p), Fraction(a)))
            tot += Fraction(y) * w
            wt += w
        out.append(None if wt == 0 else tot / wt)
    return out


def oracle_resample(ctx, xin, yin, xout, report_interior=True):
    from armi.utils import mathematics

    case = {"xin": xin, "yin": yin, "xout": xout}
    res = {}
    for avg in (True, False):
        for kind in ("list", "numpy"):
            y_in = list(yin) if kind == "list" else np.array(yin, dtype=float)
            keep = list(yin)
            try:
                out = mathematics.resampleStepwise(list(xin), y_in, list(xout), avg=avg)
                out = [float(v) for v in out]
            except Exception as e:  # noqa
                out = None
                ctx.fail("resample-raises", "resampling a step function on a spanning mesh succeeds", dict(case, avg=avg),
                         observed=repr(e)[:200])
            if list(y_in) != keep:
                ctx.fail("resample-mutates-input", "resampling leaves its input untouched", dict(case, avg=avg, kind=kind),
                         observed=[float(v) for v in y_in], expected=keep)
            res[(avg, kind)] = out
        rl, rn = res[(avg, "list")], res[(avg, "numpy")]
        if (rl is None) != (rn is None) or (rl is not None and (len(rl) != len(rn) or not all(
                fclose(x, y, 1e-12) or abs(x - y) < 1e-12 for x, y in zip(rl, rn)))):
            ctx.fail("resample-list-vs-array", "list and array inputs give the same result", dict(case, avg=avg),
                     observed=res[(avg, "numpy")], expected=res[(avg, "list")])
    interior = has_interior_cell(xin, xout)
    s = res[(False, "list")]
    if s is not None:
        exp = exact_resample_sum(xin, yin, xout)
        total_ok = fclose(sum(s), sum(yin), 1e-9) or abs(sum(s) - sum(yin)) < 1e-9
        cells_ok = all(relclose(v, e, 1e-9) or abs(v - float(e)) < 1e-12 for v, e in zip(s, exp))
        if not (total_ok and cells_ok):
            key = "resample-sum-output-cell-inside-one-input-cell" if interior else "resample-sum-conserved"
            ctx.fail(key, "resampleStepwise(avg=False) conserves the total and gives each output cell its covered share of "
                     "every input cell" + (" (an output cell lies strictly inside one input cell: the F25 class)" if interior else ""),
                     case, observed=[sum(s), s], expected=[sum(yin), [float(e) for e in exp]])
    a = res[(True, "list")]
    if a is not None:
        exp = exact_resample_avg(xin, yin, xout)
        if not all((e is None and v == 0) or (e is not None and (relclose(v, e, 1e-9) or abs(v - float(e)) < 1e-12))
                   for v, e in zip(a, exp)):
            ctx.fail("resample-avg-is-mean", "resampleStepwise(avg=True) gives the length-weighted mean over each output "
                     "cell", case, observed=a, expected=[None if e is None else float(e) for e in exp])
    return res, interior


def run_resample(ctx):
    req, impl, cases = [], [], []
    # the recorded witness of the repaired F25 first
    wit = ([0, 3.5, 9, 17.5, 18.5], [6, 5.5, 6, -0.5], [0, 3, 5.5, 10.5, 13, 18.5])
    inputs = [wit]
    for _ in range(ctx.pick(800, 10000)):
        inputs.append(gen_resample(ctx.rng))
    nint = 0
    for k, (xin, yin, xout) in enumerate(inputs):
        res, interior = oracle_resample(ctx, xin, yin, xout, report_interior=(k == 0 or nint < 3))
        nint += interior
        for avg in (True, False):
            out = res[(avg, "list")]
            req.append(f"resample {ratlist(xin)} {ratlist(yin)} {ratlist(xout)} {'T' if avg else 'F'}")
            impl.append(out)
            cases.append({"xin": xin, "yin": yin, "xout": xout, "avg": avg})
        ctx.case(("resample", tuple(xin), tuple(yin), tuple(xout)), nontrivial=list(xout) != list(xin))
    ctx.count("resample inputs with an output cell inside one input cell (the repaired F25 class)", nint)
    ctx.count("resample inputs without such a cell", len(inputs) - nint)
    model = lean_run("Mesh", req)
    for case, line, out in zip(cases, model, impl):
        if out is None:
            ok = line == "reject"
        elif line in ("reject", "bad-op"):
            ok = False
        else:
            m = common.parse_list(line)
            ok = len(m) == len(out) and all(relclose(v, x, 1e-9) or abs(v - float(Fraction(x))) < 1e-12 for v, x in zip(out, m))
        if not ok:
            ctx.disagree("Model/Mesh.lean resample vs mathematics.resampleStepwise", case, line[:300], str(out)[:300])
    ctx.evaluations += len(req)
    ctx.samples.append({"request": req[1], "model": model[1], "impl": impl[1]})


# --------------------------------------------------------------------------- stream D: average1DWithinTolerance
def exact_avg1d(rows, tol):
    """exact replica used only to detect comparisons too close to the tolerance to be decided in floating point"""
    rows = [[Fraction(v) for v in r] for r in rows]
    tol = Fraction(tol)
    near = False
    while True:
        if not rows:
            return None, near
        n = len(rows)
        avg = [sum(r[j] for r in rows) / n for j in range(len(rows[0]))]
        keep = []
        for r in rows:
            ok = True
            for v, a in zip(r, avg):
                d = abs(v - a) / a
                if abs(d - tol) < Fraction(1, 10 ** 9):
                    near = True
                if d > tol:
                    ok = False
            if ok:
                keep.append(r)
        if len(keep) == len(rows):
            return avg, near
        rows = keep


def run_avg1d(ctx):
    from armi.utils import mathematics

    req, impl, cases = [], [], []
    for _ in range(ctx.pick(300, 5000)):
        nr, ncol = ctx.rng.randint(1, 7), ctx.rng.randint(1, 5)
        base = [ctx.rng.randint(8, 400) / 8.0 for _ in range(ncol)]
        rows = []
        for _r in range(nr):
            if ctx.rng.random() < 0.25:
                rows.append([ctx.rng.randint(8, 400) / 8.0 for _ in range(ncol)])
            else:
                rows.append([max(0.125, b + ctx.rng.randint(-16, 16) / 8.0) for b in base])
        tol = ctx.rng.choice([0.2, 0.2, 0.05, 0.5])
        exact, near = exact_avg1d(rows, tol)
        if near:
            ctx.count("average1D inputs skipped: a comparison within 1e-9 of the tolerance")
            continue
        case = {"rows": rows, "tolerance": tol}
        try:
            with np.errstate(all="ignore"), warnings.catch_warnings():
                warnings.simplefilter("ignore")
                out = [float(v) for v in mathematics.average1DWithinTolerance(np.array(rows), tol)]
        except ValueError:
            out = None
        except Exception as e:  # noqa
            ctx.fail("average1d-unexpected-exception", "averaging returns a mesh or refuses with ValueError", case,
                     observed=repr(e)[:200])
            continue
        req.append("avg1d [" + ",".join(ratlist(r) for r in rows) + f"] {rat(tol)}")
        impl.append(out)
        cases.append(case)
        # oracle: the result is the column mean of a sub-family of rows, each of them within the tolerance of it
        if out is not None:
            if exact is None or not all(relclose(v, e, 1e-9) for v, e in zip(out, exact)):
                ctx.fail("average1d-is-mean-of-kept-rows", "average within tolerance = mean of the rows that stay within "
                         "the tolerance of it", case, observed=out, expected=None if exact is None else [float(e) for e in exact])
            if any(v <= 0 for v in out):
                ctx.fail("average1d-positive", "a returned average is positive", case, observed=out)
        elif exact is not None and all(e > 0 for e in exact):
            ctx.fail("average1d-refuses", "fails only when nothing is near the mean or a value is non-physical", case,
                     observed="ValueError", expected=[float(e) for e in exact])
        ctx.case(("avg1d", tuple(map(tuple, rows)), tol), nontrivial=nr > 1)
    model = lean_run("Mesh", req)
    for case, line, out in zip(cases, model, impl):
        if out is None:
            ok = line == "reject"
        elif line in ("reject", "bad-op"):
            ok = False
        else:
            m = common.parse_list(line)
            ok = len(m) == len(out) and all(relclose(v, x, 1e-9) for v, x in zip(out, m))
        if not ok:
            ctx.disagree("Model/Mesh.lean average1D vs mathematics.average1DWithinTolerance", case, line[:300], str(out)[:300])
    ctx.evaluations += len(req)


# --------------------------------------------------------------------------- entry points
# --------------------------------------------------------------------------- the public path end to end
_CONV = {}


def conv_fixture(which):
    """a reactor of its own for the converter stream (convert / applyStateToOriginal write on it)"""
    import os
    from armi.reactor.tests.test_reactors import loadTestReactor
    from armi.tests import TEST_ROOT

    if which not in _CONV:
        with common.scratch_dir(), common.quiet():
            _CONV[which] = loadTestReactor(os.path.join(TEST_ROOT, "detailedAxialExpansion") if which == "detailed" else TEST_ROOT)
    return _CONV[which]


def loc_kind(pd):
    """the property's three categories, read from the parameter definition: volume-integrated / peak / any other"""
    from armi.reactor import parameters

    if pd.atLocation(parameters.ParamLocation.MAX):
        return "peak"
    if pd.atLocation(parameters.ParamLocation.VOLUME_INTEGRATED):
        return "int"
    return "avg"


CONV_ARRAYS = ("mgFlux", "adjMgFlux", "lastMgFlux")


def conv_superset(b0):
    """the block parameters a mesh converter may map, from the public parameter categories: scalar float parameters of
    the neutronics / gamma / multi-group / detailed-axial-expansion categories plus the initial heavy-metal inventory,
    each with the property's kind read from its definition; and the 3-vector parameters"""
    names = {}
    pdefs = b0.p.paramDefs
    for cat in ("neutronics", "gamma", "detailedAxialExpansion", "multi-group quantities", "pinQuantities"):
        try:
            found = pdefs.inCategory(cat).names
        except Exception:  # noqa
            continue
        for nm in found:
            names[nm] = None
    for nm in ("massHmBOL", "molesHmBOL"):
        names[nm] = None
    out = []
    for nm in sorted(names):
        pd = pdefs[nm]
        if nm in CONV_ARRAYS or nm.startswith("points") or "corner" in nm.lower() or "Pin" in nm:
            continue
        if isinstance(pd.default, float):
            out.append((nm, loc_kind(pd)))
    return out, [nm for nm in CONV_ARRAYS if nm in names]


def conv_mapped(conv, superset, arrays):
    """those of the candidate parameters that the converter lists for the direction it was last set up for"""
    listed = set(conv.paramMapper.blockParamNames)
    return [(nm, k) for nm, k in superset if nm in listed], [nm for nm in arrays if nm in listed]


def conv_assign(ctx, assems, names, arrays):
    for a in assems:
        for b in a:
            for nm, _k in names:
                b.p[nm] = ctx.rng.randint(0, 4096) / 16.0
            for nm in arrays:
                b.p[nm] = np.array([ctx.rng.randint(0, 1024) / 8.0 for _ in range(3)])


def conv_snap(a, nucs, names):
    out = []
    for b in a:
        d = {"zb": float(b.p.zbottom), "zt": float(b.p.ztop), "h": float(b.getHeight()),
             "nd": {n: float(b.getNumberDensity(n)) for n in nucs}}
        for nm in names:
            v = b.p[nm]
            d[nm] = None if v is None else ([float(x) for x in v] if nm in CONV_ARRAYS else float(v))
        out.append(d)
    return out


def conv_check(ctx, c2, b0, S, D, names, arrays, sym=1.0):
    """the property's clauses for the parameters mapped from snapshot S (source of the mapping) onto D; sym: symmetry
    factor of the assembly's position (3 for the central assembly of a 1/3 core) in the build-a-new-core direction"""
    def int_fail(nm, p0, p1, key, clause):
        # (the central assembly of a symmetric core is judged like every other one: repaired in /repo 36ead88)
        ctx.fail(key, clause, dict(c2, param=nm, symmetry_factor=sym), observed=p1, expected=p0)

    for nm, k in names:
        if any(x[nm] is None for x in D):
            ctx.fail("remap-parameter-kind-preserved", "each mapped parameter receives a value of its own kind", dict(c2, param=nm))
            continue
        if k == "int":
            p0, p1 = sum(x[nm] for x in S), sum(x[nm] for x in D)
            if not fclose(p0, p1, 1e-9):
                int_fail(nm, p0, p1, "remap-integrated-total", f"assembly total of a volume-integrated parameter ({nm}) is conserved")
            continue
        for ib, y in enumerate(D):
            ws = [(overlap(x["zb"], x["zt"], y["zb"], y["zt"]), x) for x in S]
            if k == "avg":
                exp = sum(w * x[nm] for w, x in ws) / (y["zt"] - y["zb"])
                scale = max([abs(x[nm]) for w, x in ws if w > 0] or [0.0])
                if not (fclose(y[nm], exp, 1e-9) or abs(y[nm] - exp) <= 1e-9 * scale):
                    ctx.fail("remap-average-is-weighted-mean", "averaged parameter = height-weighted mean of the "
                             "overlapped source values", dict(c2, param=nm, block=ib), observed=y[nm], expected=exp)
            else:
                sure = [x[nm] for w, x in ws if w > 1e-6 * x["h"]]
                maybe = [x[nm] for w, x in ws if w > 0 or abs(min(x["zt"], y["zt"]) - max(x["zb"], y["zb"])) < 1e-9]
                if sure and not (max(sure) <= y[nm] <= max(maybe)):
                    ctx.fail("remap-peak-is-max", "peak parameter = largest overlapped source value",
                             dict(c2, param=nm, block=ib), observed=y[nm], expected=max(sure))
    for nm in arrays:
        if any(x[nm] is None or len(x[nm]) != 3 for x in D):
            ctx.fail("remap-parameter-kind-preserved", "an array parameter receives its vector", dict(c2, param=nm))
            continue
        f0, f1 = np.sum([x[nm] for x in S], axis=0), np.sum([x[nm] for x in D], axis=0)
        if loc_kind(b0.p.paramDefs[nm]) == "int" and not all(fclose(u, v, 1e-9) for u, v in zip(f0, f1)):
            int_fail(nm, list(f0), list(f1), "remap-integrated-total-array",
                     "assembly total of an array-valued integrated parameter is conserved")


def run_converter(ctx):
    """UniformMeshGeometryConverter.convert(r) and applyStateToOriginal() on a whole core whose assemblies have
    different axial meshes (the detailedAxialExpansion core, further perturbed by uniform axial expansions of random
    assemblies): the parameter selection of both directions (neutronics and gamma converters), generateCommonMesh (with /
    without a minimum size), _buildAllUniformAssemblies / makeAssemWithUniformMesh, _mapStateFromReactorToOther both
    directions, the non-uniform-assemblies path (only flagged assemblies are replaced and later restored). Clauses: the
    property's, per assembly, with independent interval arithmetic, for EVERY scalar parameter (and the 3-vectors) the
    converter's public ParamMapper lists for that direction - every candidate parameter of the mapped categories is given
    a value beforehand; plus the model on sampled (assembly, parameter / nuclide) pairs."""
    from armi.reactor.converters import uniformMesh
    from armi.reactor.converters.axialExpansionChanger import AxialExpansionChanger
    from armi.reactor.flags import Flags

    req, chk = [], []
    areq, achk = [], []
    ncases = ctx.pick(6, 40)
    for it in range(ncases):
        which = "detailed" if (not ctx.thorough or it % 4) else "reference"
        if it and it % 6 == 0:
            _CONV.pop(which, None)      # a fresh reactor now and then (the perturbations accumulate)
        o, r = conv_fixture(which)
        variant = ctx.rng.choice(["neutronics", "neutronics", "neutronics-min", "gamma", "non-uniform-flags"])
        minsize = ctx.rng.choice([3.0, 6.0, 10.0]) if variant == "neutronics-min" else None
        case = {"scenario": "converter " + variant, "core": which, "min": minsize, "it": it}
        # perturb: uniform growth of all solids of every block below the top of a few assemblies (meshes drift apart)
        if which == "detailed":
            try:
                with common.quiet():
                    for a in ctx.rng.sample(list(r.core), 3):
                        chg = AxialExpansionChanger(detailedAxialExpansion=True)
                        per = {id(b): 1.0 + ctx.rng.randint(-4, 4) / 512.0 for b in a}
                        comps = [c for b in a[:-1] for c in b if c.containsSolidMaterial()]
                        chg.performPrescribedAxialExpansion(a, comps, [per[id(c.parent)] for c in comps], setFuel=True)
                    r.core.updateAxialMesh()
            except Exception as e:  # noqa
                raise common.Infra(f"cannot perturb the converter fixture: {e!r}")
        flags = []
        if variant == "non-uniform-flags":
            flags = ctx.rng.choice([["primary control"], ["secondary control"], ["primary control", "secondary control"],
                                    ["lead test fuel"], ["feed fuel", "primary control"]]) if which == "detailed" else ["control"]
        cs = o.cs.modified(newSettings={"nonUniformAssemFlags": flags, "uniformMeshMinimumSize": minsize})
        try:
            if variant == "gamma":
                conv = uniformMesh.GammaUniformMeshConverter(cs)
            else:
                conv = uniformMesh.NeutronicsUniformMeshConverter(cs, calcReactionRates=False)
            conv.calcReactionRates = False
        except Exception as e:  # noqa
            raise common.Infra(f"cannot construct the converter: {e!r}")
        b0 = r.core.getFirstBlock()
        superset, sup_arrays = conv_superset(b0)
        sup_all = [nm for nm, _ in superset] + sup_arrays
        # ---- source state (direction "in")
        src_assems = list(r.core)
        flagged = [a for a in src_assems if flags and any(a.hasFlags(Flags.fromStringIgnoreErrors(f)) for f in flags)]
        watch = flagged if flags else src_assems
        if flags and not flagged:
            continue
        oname = {id(a): a.getName() for a in watch}      # (the non-uniform path renames the stored originals)
        nucs_of = {oname[id(a)]: ctx.rng.sample(sorted(a.getNuclides()), min(3, len(a.getNuclides()))) for a in watch}
        # every candidate parameter gets a value on the source; which of them the converter takes over is read from its
        # public ParamMapper after convert()
        conv_assign(ctx, watch, superset, sup_arrays)
        r.core.p.keff = 1.0 + ctx.rng.randint(1, 255) / 1024.0
        r.core.p.power = float(ctx.rng.randint(1, 1000) * 1000)
        S_in = {oname[id(a)]: conv_snap(a, nucs_of[oname[id(a)]], sup_all) for a in watch}
        core_before = {nm: float(r.core.p[nm]) for nm in ("keff", "power")}
        refn = len(r.core.findAllAxialMeshPoints([r.core.refAssem])[1:])
        per_a = [[float(z) for z in r.core.findAllAxialMeshPoints([a_])[1:]] for a_ in r.core]
        try:
            with common.quiet():
                for a_ in ctx.rng.sample(watch, min(4, len(watch))):
                    for b_ in a_:
                        set_cache_state(ctx.rng, b_, ctx.rng.choice(CACHE_STATES))
                conv.convert(r)
        except Exception as e:  # noqa
            ctx.fail("converter-raises", "converting a core onto its common mesh succeeds", case, observed=repr(e)[:300])
            _CONV.pop(which, None)
            continue
        cr = conv.convReactor
        in_names, in_arrays = conv_mapped(conv, superset, sup_arrays)
        in_all = sup_all
        core_in = [nm for nm in ("keff", "power") if nm in conv.paramMapper.reactorParamNames]
        core_vals = [core_before[nm] for nm in core_in]
        ctx.count("converter: scalar block parameters mapped in", len(in_names))
        mesh = [float(z) for z in cr.core.p.axialMesh]
        case["common_mesh"] = [round(z, 6) for z in mesh]
        if not flags and minsize is None:
            # the common mesh of a core whose assemblies have drifted apart = the model's average of the same meshes
            areq.append(f"avgmesh {refn} [" + ",".join(ratlist(x) for x in per_a) + "]")
            achk.append((dict(case, what="common mesh of convert()"), mesh[1:]))
            # ... and, by the property: every point lies between the smallest and largest corresponding source point
            same = [x for x in per_a if len(x) == refn]
            for j, z in enumerate(mesh[1:]):
                col = [x[j] for x in same]
                if same and not (min(col) - 1e-9 <= z <= max(col) + 1e-9):
                    ctx.fail("common-mesh-point-within-source-points", "a point of the averaged common mesh lies between the "
                             "corresponding points of the assemblies it averages", dict(case, index=j), observed=z,
                             expected=[min(col), max(col)])
        dest_of = {}
        for a in watch:
            nm_a = oname[id(a)]
            try:
                d = cr.core.getAssemblyByName(nm_a)
            except KeyError:
                d = None
            if d is None or d is a:
                ctx.fail("converter-assembly-present", "every assembly to convert has its re-meshed counterpart in the "
                         "converted core", dict(case, assembly=a.getType()))
                continue
            dest_of[nm_a] = d
            S, D = S_in[nm_a], conv_snap(d, nucs_of[nm_a], in_all)
            c2 = dict(case, assembly=a.getType(), direction="in", source_mesh=[0.0] + [x["zt"] for x in S])
            dm = [D[0]["zb"]] + [x["zt"] for x in D]
            if len(dm) != len(mesh) or not all(abs(x - y) <= 1e-9 * max(1.0, abs(y)) for x, y in zip(dm, mesh)):
                ctx.fail("converter-uniform-mesh", "every converted assembly has the common mesh", c2, observed=dm, expected=mesh)
            if not fclose(D[-1]["zt"], S[-1]["zt"], 1e-9):
                ctx.fail("remap-total-height", "the new assembly spans the same height", c2, observed=D[-1]["zt"], expected=S[-1]["zt"])
                continue
            if any(not x["h"] > 0 or not fclose(x["zt"] - x["zb"], x["h"], 1e-9) for x in D) or any(
                    D[k]["zb"] != D[k - 1]["zt"] for k in range(1, len(D))):
                ctx.fail("remap-contiguous", "destination blocks are contiguous and of positive height", c2, observed=dm)
            for n in nucs_of[nm_a]:
                a0, a1 = sum(x["nd"][n] * x["h"] for x in S), sum(x["nd"][n] * x["h"] for x in D)
                if not fclose(a0, a1, 1e-9):
                    ctx.fail("remap-atoms-conserved", f"sum_b N_b({n}) h_b is the same before and after re-meshing", c2, observed=a1, expected=a0)
            sym = 1.0 if flags else float(a.getSymmetryFactor())
            conv_check(ctx, c2, b0, S, D, in_names, in_arrays, sym)
            if ctx.rng.random() < 0.25 and sym == 1.0:
                zb, zt, hh = geom(S)
                dzb, dzt, dh = geom(D)
                n = nucs_of[nm_a][0]
                req.append(f"remapnd {zb} {zt} {hh} {ratlist([x['nd'][n] for x in S])} {dzb} {dzt} {dh}")
                chk.append((dict(c2, nuclide=n), [x["nd"][n] for x in D]))
                if in_names:
                    nm, k = ctx.rng.choice(in_names)
                    req.append(f"remap {k} {zb} {zt} {hh} {optlist([x[nm] for x in S])} {dzb} {dzt} {dh}")
                    chk.append((dict(c2, param=nm), [x[nm] for x in D]))
        if not flags and [float(cr.core.p[nm]) for nm in core_in] != core_vals:
            ctx.fail("converter-core-parameters-in", "the core-level parameters the converter lists go over to the converted core",
                     dict(case, params=core_in), observed=[float(cr.core.p[nm]) for nm in core_in], expected=core_vals)
        # ---- a "solution" on the converted core, then direction "out"
        dests = [dest_of[oname[id(a)]] for a in watch if oname[id(a)] in dest_of]
        conv_assign(ctx, dests, superset, sup_arrays)
        kout = 1.0 + ctx.rng.randint(1, 255) / 1024.0
        cr.core.p.keff = kout
        allnames = sup_all
        D_out = {d.getName(): conv_snap(d, nucs_of[d.getName()], allnames) for d in dests}
        nd_before = {oname[id(a)]: conv_snap(a, nucs_of[oname[id(a)]], ()) for a in watch}
        try:
            with common.quiet():
                conv.applyStateToOriginal()
        except Exception as e:  # noqa
            ctx.fail("converter-raises", "mapping the state of the converted core back succeeds", case, observed=repr(e)[:300])
            _CONV.pop(which, None)
            continue
        names, arrays = conv_mapped(conv, superset, sup_arrays)      # (the mapper now lists the way back)
        core_out = [nm for nm in ("keff",) if nm in conv.paramMapper.reactorParamNames]
        if not names:
            raise common.Infra("the converter maps no scalar block parameter back: the stream has nothing to observe")
        for k in ("int", "avg", "peak"):
            ctx.count(f"converter: parameters of kind {k} mapped back", sum(1 for _n, kk in names if kk == k))
        if core_out and float(r.core.p.keff) != kout:
            ctx.fail("converter-core-parameters-out", "the core-level result (keff) goes back to the original core", case,
                     observed=float(r.core.p.keff), expected=kout)
        for a in watch:
            nm_a = oname[id(a)]
            if nm_a not in D_out:
                continue
            try:
                back = r.core.getAssemblyByName(nm_a)
            except KeyError:
                back = None
            if back is not a:
                ctx.fail("converter-original-assemblies-restored", "after mapping back the core holds its original assemblies",
                         dict(case, assembly=a.getType()), observed=repr(back)[:80])
                continue
            D, B = D_out[nm_a], conv_snap(back, nucs_of[nm_a], allnames)
            c2 = dict(case, assembly=a.getType(), direction="out", source_mesh=[0.0] + [x["zt"] for x in D],
                      target_mesh=[0.0] + [x["zt"] for x in B])
            for x, y in zip(nd_before[nm_a], B):
                if x["nd"] != y["nd"] or x["zt"] != y["zt"]:
                    ctx.fail("converter-out-leaves-composition", "mapping results back changes neither the mesh nor the "
                             "composition of the original assembly", c2, observed=y["nd"], expected=x["nd"])
                    break
            conv_check(ctx, c2, b0, D, B, names, arrays)
            if ctx.rng.random() < 0.3:
                nm, k = ctx.rng.choice(names)
                zb, zt, hh = geom(D)
                dzb, dzt, dh = geom(B)
                req.append(f"remap {k} {zb} {zt} {hh} {optlist([x[nm] for x in D])} {dzb} {dzt} {dh}")
                chk.append((dict(c2, param=nm), [x[nm] for x in B]))
        ctx.count("converter: " + variant)
        ctx.case(("converter", which, variant, minsize, tuple(flags), tuple(case["common_mesh"])), nontrivial=True,
                 sample={"case": {k: v for k, v in case.items()}, "mapped_in": [n for n, _ in in_names] + in_arrays,
                         "mapped_back": [n for n, _ in names][:12] + arrays})
    model = lean_run("Mesh", req)
    for (case, impl), line, rq in zip(chk, model, req):
        okk = line not in ("reject", "bad-op")
        if okk:
            m = common.parse_list(line)
            okk = len(m) == len(impl) and all(x == "_" or v is None or relclose(v, x, 1e-9) or abs(float(Fraction(x)) - v) < 1e-12
                                              for x, v in zip(m, impl))
        if not okk:
            ctx.disagree("Model/Mesh.lean vs convert / applyStateToOriginal (one assembly, one parameter or nuclide)",
                         dict(case, request=rq[:400]), line[:400], str(impl)[:400])
    ctx.evaluations += len(req)
    ctx.count("converter-stream model requests", len(req))
    compare_avgmesh(ctx, areq, achk)


def real_code_failure(ctx, e, where):
    """an exception that escapes a stream from INSIDE the real code on a valid input is a keyed failure, not an
    infrastructure failure; an exception of the harness itself is re-raised"""
    import os
    import traceback

    tb = traceback.extract_tb(e.__traceback__)
    inner = [f for f in tb if "/armi/" in f.filename and "/harness/" not in f.filename]
    if not inner or "/harness/" in tb[-1].filename:
        return False
    calls = [f for f in tb if "/harness/" in f.filename]
    ctx.fail("real-code-raises-on-valid-input", "the real code accepts a valid assembly / mesh / call",
             {"where": where, "seed": ctx.seed, "raised_in": f"{os.path.basename(inner[-1].filename)}:{inner[-1].name}",
              "harness_line": (f"{os.path.basename(calls[-1].filename)}:{calls[-1].lineno}" if calls else None)},
             observed=repr(e)[:300])
    return True


def run(ctx):
    try:
        fixtures()
    except common.Infra:
        raise
    except Exception as e:  # noqa
        if not real_code_failure(ctx, e, "fixture preparation (loading the reference and detailedAxialExpansion test reactors)"):
            raise
        return
    for fn in (run_resample, run_filter, run_avg1d, run_assemblies, run_none_patterns, run_nuclide_sets, run_restate,
               run_block_mesh, run_cache_states, run_repeated, run_near, run_converter):
        try:
            fn(ctx)
        except common.Infra:
            raise
        except Exception as e:  # noqa
            if not real_code_failure(ctx, e, "stream " + fn.__name__):
                raise
    ctx.rule = ("assembly stream: (fixture assembly type, source mesh, target mesh, profile mode) with target meshes "
                "identical / finer / coarser / shifted / random on a 1/8 cm dyadic lattice, 'tiny' (points and cells 2^-10.."
                "2^-22 cm beside source boundaries) and 'nearsame' (same point count, relative offsets 1e-6..1e-4), profiles "
                "plain / with None / negative peaks / constant / exact zeros, chained 1-3 deep and mapped back; unset-value patterns "
                "(first / middle / last overlapped source block unset, per parameter independently) x lists of 2-4 mapped "
                "parameters in every listing order; neighbouring blocks with different nuclide sets (nuclides removed per block) "
                "under meshes cutting across every interface, atoms checked over the union of source nuclides; two- and three-step "
                "re-mappings onto the SAME destination where the source turns to the exact parameter default over whole "
                "destination blocks (every location kind, every listing order); repeated "
                "application: 10-30 successive re-meshings of one state compared with the ORIGINAL totals after every "
                "step; non-trivial = target mesh differs from the source mesh. Direct streams: distinct generated inputs "
                "of _filterMesh (random and clustered candidates/anchors, corpus of hand-written cases, both preferences) "
                "plus generateCommonMesh end to end (control tops beside the fuel top), resampleStepwise (xin, yin, xout; "
                "both avg modes, list and array input), average1DWithinTolerance (rows, tolerance). Meshes with points "
                "1e-7..3e-11 apart are judged by the implementation-side oracle only. Converter stream: whole-core "
                "convert() + applyStateToOriginal() (neutronics / neutronics with minimum mesh size / gamma converter / "
                "non-uniform-assembly flags) on the detailedAxialExpansion core perturbed by axial expansions of random "
                "assemblies (thorough: also the reference core); per assembly and direction up to three scalar parameters of "
                "each kind and the 3-vector parameters chosen among those the converter itself lists. Cache states "
                "(run_cache_states; also applied before the calls of the setHeight / setBlockMesh / re-meshing / converter "
                "streams): the component volume caches of a block are brought into all-valid / none-valid / one-invalid / "
                "one-valid / random-subset / random query-invalidate-prefix states (optionally after a temperature change of "
                "one component) before Block.setHeight(conserveMass=True) and Assembly.setBlockMesh; per-nuclide masses summed "
                "over components, and equality with twins in the all-cached and none-cached states.")


def search(ctx, disagreements, broken):
    """Evaluate the property clauses on the real code around each disagreeing case."""
    from armi.reactor.converters import uniformMesh

    out = []
    sub = type(ctx)(ctx.prop, "quick", ctx.seed)
    fx = fixtures()
    gen = uniformMesh.UniformMeshGenerator(fx["r"], minimumMeshSize=1.0)
    for d in disagreements:
        c = d.case if isinstance(d.case, dict) else {}
        if "xin" in c:
            base = (c["xin"], c["yin"], c["xout"])
            oracle_resample(sub, *base, report_interior=True)
            for _ in range(300):
                xin, yin, xout = gen_resample(ctx.rng)
                oracle_resample(sub, xin, yin, xout, report_interior=True)
        elif "points" in c:
            for k in range(2000):
                pts, m, anchors, pref = gen_filter(ctx.rng) if k % 2 else gen_filter_clustered(ctx.rng)
                with common.quiet():
                    o = call_filter(gen, pts, m, anchors, pref)
                oracle_filter(sub, {"points": pts, "min": m, "anchors": anchors, "preference": pref}, o)
        elif "rows" in c:
            pass
    if any(isinstance(d.case, dict) and "assembly" in d.case for d in disagreements):
        s2 = type(ctx)(ctx.prop, "quick", ctx.seed + 101)
        run_assemblies(s2)
        sub.failures += s2.failures
    seen = set()
    for f in sub.failures:
        if f.key not in seen:
            seen.add(f.key)
            out.append(Failure(f.key, f.clause, f.case, f.observed, f.expected, "found by the directed search"))
    return out


def replay(ctx, payload):
    from armi.reactor.converters import uniformMesh

    key, case = payload["key"], payload["case"]
    sub = type(ctx)(ctx.prop, "quick", ctx.seed)
    if key.startswith("resample") and isinstance(case, dict) and "xin" in case:
        oracle_resample(sub, case["xin"], case["yin"], case["xout"])
    elif key.startswith("filtermesh") and isinstance(case, dict) and "points" in case:
        gen = uniformMesh.UniformMeshGenerator(fixtures()["r"], minimumMeshSize=1.0)
        with common.quiet():
            o = call_filter(gen, case["points"], case["min"], case["anchors"], case["preference"])
        oracle_filter(sub, case, o)
    else:
        sub = type(ctx)(ctx.prop, "quick", int(payload.get("seed", 0)))
        run(sub)
    hit = [f for f in sub.failures if f.key == key]
    return hit[0].to_json() if hit else None
