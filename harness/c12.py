"""C12 - axial expansion preserves assembly height, mesh contiguity and component mass.

Scenario classes added in the continuation round: (a) assemblies whose TOP DUMMY BLOCK CARRIES SOLID components (duct
around its sodium, handling socket, lifting ring, with / without axial linkage to the block below, with / without a
designated target): fixture assemblies with a programmatically extended top block, constructor-built assemblies, and the
fixture loaded from a blueprint copy edited in a scratch directory - visited by every stream (top_pool); (b) ONE
ExpansionData re-used for successive steps (run_reuse: setAssembly once, then setExpansionFactors + axiallyExpandAssembly
per step) with exactly 1.0 prescribed after another factor, against a fresh ExpansionData per step, and the function-level
ties run_store (setExpansionFactors / getExpansionFactor) and run_blocktemps (updateComponentTempsBy1DTempField).

Theorems: lean/ArmiVerif/Props/C12.lean (model lean/ArmiVerif/Model/AxialExp.lean).
Tie: real pin-type assemblies of armi/tests/detailedAxialExpansion (all assembly types, top dummy block) driven
through the public entry points performPrescribedAxialExpansion (uniform-per-block, per-component and inverse
percent vectors) and performThermalAxialExpansion (random temperature fields) in sequences of 1-5 expansions.
A harness-side recording subclass of AxialExpansionChanger snapshots the exact pre-state, growth factors, target
components and the real AssemblyAxialLinkage right before axiallyExpandAssembly runs; the same data go to the Lean
model and the post-states are compared (block height/bottom/top, component height/bottom/top, number density, grid
bounds). Implementation-side oracle: the clauses of the property evaluated on the real objects.
"""
import copy
import os
from fractions import Fraction

import numpy as np

from harness import common
from harness.common import Failure, lean_run, rat, ratlist

PROP_MODULES = ["ArmiVerif.Props.C12", "ArmiVerif.Props.C12Link"]
PARTIAL = ("the expansion factors (material correlations, temperature averaging) and, for the linkage, the values the code "
           "reads from each component (shape class, multiplicity, cold inner / outer bounding diameters, solid?) are inputs "
           "of the model, read from the real objects on every case; areAxiallyLinked, the construction of the lower / upper "
           "links and target selection (_setTargetComponents, determineTargetComponent, _isFuelLocked) are inside the model "
           "and tied; TARGET_FLAGS_IN_PREFERRED_ORDER and the Flags constants are data passed to the model; target-component "
           "mass conservation is proved under the explicit linkage hypothesis LowerIsLowerTarget, decidable from the geometry "
           "(lowerIsLowerTarget_of_geometry) - where it fails the unchanged code loses 2-3 % (known finding F9); the radial "
           "part of thermal expansion (area, density at constant height) is property C03's; ExpansionData's stored factors "
           "(setExpansionFactors validation and assignment, getExpansionFactor default) and the re-use of one ExpansionData for "
           "successive steps are inside the model (Store, stepReuse / runReuse, stepFresh / runFresh) and tied call by call and "
           "history by history; updateComponentTempsBy1DTempField's block averages are inside the model (blockTemps) and tied; "
           "the material's expansion between two temperatures stays an input; manageCoreMesh is not modelled (its re-meshing is "
           "property C11's setBlockMesh); shared composition objects are inside the model (Heap / changeNDens / changeAll: "
           "changeNDensByFactor builds a new composition for the component it is called on) and tied; the designation of "
           "targets is inside the model (designate / setTargets / isTarget: a function of the current blocks alone) and tied on "
           "re-designated blocks")
ASSUMPTIONS = [
    "component mass = number density x area x parent block height (Component.getMass via getVolume); checked by the "
    "mass clauses of the oracle on every case",
    "changeNDensByFactor scales every nuclide of a component alike (one representative nuclide is compared)",
    "floating-point rounding is not modelled: prescribed growth factors are short dyadics 1 + k/256, comparison 1e-9 relative",
]

CLASS_TAGS = {}
LINK = ([], [])      # requests / expectations of the linkage and target-selection ties
F9_KEY = "target-mass-lower-link-is-not-lower-target"
F9B_KEY = "negative-height-lower-link-is-not-lower-target"


def fclose(a, b, tol=1e-9):
    return abs(a - b) <= tol * max(abs(a), abs(b)) + 1e-300


def relclose(f, q, tol=1e-9):
    if f is None or f != f or f in (float("inf"), float("-inf")):
        return False
    q = Fraction(q)
    return abs(Fraction(float(f)) - q) <= Fraction(tol) * max(abs(q), Fraction(1, 10 ** 6))


_FIX = {}


def fixtures():
    if _FIX:
        return _FIX
    from armi.reactor.tests.test_reactors import loadTestReactor
    from armi.tests import TEST_ROOT

    with common.scratch_dir(), common.quiet():
        _o, r = loadTestReactor(os.path.join(TEST_ROOT, "detailedAxialExpansion"))
    assems, seen = [], set()
    for a in r.core:
        key = (a.getType(), tuple(b.getHeight() for b in a))
        if key not in seen:
            seen.add(key)
            assems.append(a)
    _FIX.update(r=r, assems=assems)
    return _FIX


TOP_VARIANTS = ("duct", "socket", "duct+socket", "duct+socket+ring", "duct-target")
TOP_TAG = {}        # id(assembly template) -> description of its top block's contents


def top_tag(a0):
    return TOP_TAG.get(id(a0), "fluid")


def label(a0):
    t = top_tag(a0)
    return a0.getType() if t == "fluid" else f"{a0.getType()} [top block: {t}]"


def add_top_solids(a, variant, op=16.6, ip=16.0, Thot=450.0):
    """put SOLID components into the top dummy block of a (copy of a) real assembly: a duct around its sodium (axially
    linked to the duct of the block below when that has one of the same dimensions), a handling socket / ring (Circles of
    multiplicity 1: linked to nothing below), optionally designated as the block's expansion target"""
    from armi.reactor.components.basicShapes import Circle, Hexagon

    T = {"Tinput": 25.0, "Thot": Thot}
    top = a[-1]
    if "duct" in variant:
        top.add(Hexagon("duct", "HT9", op=op, ip=ip, mult=1.0, **T))
    if "socket" in variant:
        top.add(Circle("handling socket", "HT9", od=6.0, id=4.0, mult=1.0, **T))
    if "ring" in variant:
        top.add(Circle("lifting ring", "HT9", od=10.0, id=8.5, mult=1.0, **T))
    if variant.endswith("-target"):
        top.p.axialExpTargetComponent = "duct"
    for c in top:
        c.clearCache()
    return a


_BP_OLD = """    SodiumBlock: &block_dummy
        flags: dummy
        coolant:
            shape: Hexagon
            material: Sodium
            Tinput: 25.0
            Thot: 450.0
            ip: 0.0
            mult: 1.0
            op: 16.75
"""
_BP_SOCKET = """        handling socket:
            shape: Circle
            material: HT9
            Tinput: 25.0
            Thot: 450.0
            id: 4.0
            mult: 1.0
            od: 6.0
"""
_FIX_TOP = {}


def fixtures_top(ctx, variant):
    """the detailedAxialExpansion inputs with a dummy block that carries solids, through the blueprint loader (a copy of
    the input files edited in a scratch directory); the construction itself expands every assembly from cold to hot, so
    the clauses about heights are evaluated on the assemblies as loaded, too"""
    if variant in _FIX_TOP:
        return _FIX_TOP[variant]
    import shutil
    from armi.reactor.tests.test_reactors import loadTestReactor
    from armi.tests import TEST_ROOT

    new = "    SodiumBlock: &block_dummy\n        flags: dummy\n        coolant: *component_coolant\n"
    if "duct" in variant:
        new += "        duct: *component_duct\n"
    if "socket" in variant:
        new += _BP_SOCKET
    if "duct" in variant:
        new += "        intercoolant: *component_intercoolant\n"
    else:
        new += ("        intercoolant:\n            shape: Hexagon\n            material: Sodium\n            Tinput: 25.0\n"
                "            Thot: 450.0\n            ip: 16.6\n            mult: 1.0\n            op: 16.75\n")
    if variant.endswith("-target"):
        new += "        axial expansion target component: duct\n"
    with common.scratch_dir(), common.quiet():
        dst = os.path.join(os.getcwd(), "inp")
        shutil.copytree(os.path.join(TEST_ROOT, "detailedAxialExpansion"), dst)
        fn = os.path.join(dst, "refSmallReactorBase.yaml")
        txt = open(fn).read()
        if _BP_OLD not in txt:
            raise common.Infra("the dummy block of armi/tests/detailedAxialExpansion is not where the harness expects it")
        with open(fn, "w") as f:
            f.write(txt.replace(_BP_OLD, new))
        _o, r = loadTestReactor(dst)
    assems, seen = [], set()
    for a in r.core:
        key = (a.getType(), tuple(b.getHeight() for b in a))
        if key not in seen:
            seen.add(key)
            assems.append(a)
            TOP_TAG[id(a)] = "blueprint " + variant
    _FIX_TOP[variant] = {"r": r, "assems": assems}
    return _FIX_TOP[variant]


def check_as_loaded(ctx, assems, variant):
    """the construction of a core expands every assembly from its cold input heights to the hot ones
    (AxialExpansionChanger.expandColdDimsToHot): the clauses about heights on the assemblies AS LOADED from the
    blueprint whose dummy block carries solids; the total height is that of the same input with the all-fluid dummy"""
    ref = {a.getType(): a.getTotalHeight() for a in fixtures()["assems"]}
    for a in assems:
        case = {"assembly": label(a), "mode": "as loaded from the blueprint"}
        height_clauses(ctx, case, a, ref.get(a.getType()))
        ctx.count("assemblies checked as loaded from a blueprint with solids in the dummy block")
        ctx.case(("as-loaded", label(a), variant), nontrivial=True)


def height_clauses(ctx, case, a, H0):
    """total height, contiguity, height = top - bottom > 0, grid bounds: on the assembly as it is"""
    if True:
        blocks = [{"h": float(b.getHeight()), "zb": float(b.p.zbottom), "zt": float(b.p.ztop)} for b in a]
        if H0 is not None and not fclose(a.getTotalHeight(), H0, 1e-12):
            ctx.fail("height-preserved", "total assembly height is unchanged", case, observed=a.getTotalHeight(), expected=H0)
        if H0 is not None and not fclose(blocks[-1]["zt"], H0, 1e-12):
            ctx.fail("height-preserved-top", "the top of the top block does not move", case, observed=blocks[-1]["zt"], expected=H0)
        for ib, b in enumerate(blocks):
            if ib > 0 and b["zb"] != blocks[ib - 1]["zt"]:
                ctx.fail("contiguous", "each block's bottom is the top of the one below", dict(case, block=ib),
                         observed=b["zb"], expected=blocks[ib - 1]["zt"])
            if not fclose(b["zt"] - b["zb"], b["h"], 1e-12):
                ctx.fail("height-is-top-minus-bottom", "block height = ztop - zbottom", dict(case, block=ib),
                         observed=b["h"], expected=b["zt"] - b["zb"])
            if not b["h"] > 0:
                ctx.fail("heights-positive", "block heights stay positive", dict(case, block=ib), observed=b["h"])
        bounds = [float(x) for x in a.spatialGrid._bounds[2]]
        if bounds != [0.0] + [b["zt"] for b in blocks]:
            ctx.fail("grid-bounds-are-elevations", "axial grid bounds equal the block elevations", case, observed=bounds,
                     expected=[0.0] + [b["zt"] for b in blocks])


def run_cold_to_hot(ctx):
    """the entry point used while a core is built: AxialExpansionChanger.expandColdDimsToHot on assemblies with all-fluid
    and with solid-carrying top blocks (every solid grows from its input to its hot temperature; masses increase by
    design, the clauses about heights must hold)"""
    from armi.reactor.converters.axialExpansionChanger import AxialExpansionChanger

    pool = fixtures()["assems"] + top_pool(ctx)
    for a0 in (pool if ctx.thorough else ctx.rng.sample(pool, 5)):
        a = copy.deepcopy(a0)
        H0 = a.getTotalHeight()
        case = {"assembly": label(a0), "mode": "expandColdDimsToHot"}
        try:
            with common.quiet():
                AxialExpansionChanger.expandColdDimsToHot([a], True)
        except Exception as e:  # noqa
            ctx.fail("expansion-raises", "a physical expansion of an assembly with a dummy block succeeds", case, observed=repr(e)[:300])
            continue
        height_clauses(ctx, case, a, H0)
        for b in a:
            if float(b.p.heightBOL) != float(b.getHeight()):
                ctx.fail("cold-to-hot-records-heights", "the beginning-of-life height of a block is its hot height", case,
                         observed=float(b.p.heightBOL), expected=float(b.getHeight()))
        ctx.count("expandColdDimsToHot on an assembly with top block contents: " + top_tag(a0).replace("blueprint ", ""))
        ctx.case(("cold-to-hot", label(a0)), nontrivial=True)


_POOL = {}


def top_pool(ctx):
    """assemblies whose TOP DUMMY BLOCK carries solid components besides its fluid: every fixture assembly type with a
    programmatically extended top block (one variant each, all variants when thorough) and the assemblies of one
    (thorough: every) blueprint-edited copy of the inputs"""
    key = (ctx.seed, ctx.thorough)
    if key in _POOL:
        return _POOL[key]
    out = []
    for a0 in fixtures()["assems"]:
        for v in (TOP_VARIANTS if ctx.thorough else [ctx.rng.choice(TOP_VARIANTS)]):
            a = add_top_solids(copy.deepcopy(a0), v)
            TOP_TAG[id(a)] = v
            out.append(a)
    bps = ("duct", "duct+socket", "socket", "duct-target")
    for v in (bps if ctx.thorough else [ctx.rng.choice(bps)]):
        loaded = fixtures_top(ctx, v)["assems"]
        check_as_loaded(ctx, loaded, v)
        out += loaded
    _POOL.clear()
    _POOL[key] = out
    return out


def solids(b):
    """the solid components of a block by the property's own criterion (material is not a Fluid; Custom materials and
    every other non-fluid are solid) - deliberately NOT the repository's iterSolidComponents"""
    from armi.materials import material as mat_mod

    return [c for c in b if not isinstance(c.material, mat_mod.Fluid)]


def make_changer():
    from armi.reactor.converters.axialExpansionChanger import AxialExpansionChanger

    iterSolidComponents = solids

    class RecordingChanger(AxialExpansionChanger):
        """records what axiallyExpandAssembly is about to work on (nothing in /repo is touched)"""

        def axiallyExpandAssembly(self):
            self.pre = snapshot(self.linked.a, self)
            super().axiallyExpandAssembly()

    def num(v):
        """a number read from the real code; NaN (which fails every clause) instead of an exception for odd values"""
        try:
            return float(v)
        except Exception:  # noqa
            return float("nan")

    def geo(c):
        """what areAxiallyLinked reads: class tag, UnshapedComponent?, solid?, mult, cold inner / outer bounding diameter"""
        from armi.reactor.components import UnshapedComponent

        tag = CLASS_TAGS.setdefault(type(c), len(CLASS_TAGS) + 1)
        un = isinstance(c, UnshapedComponent)
        try:
            m = num(c.getDimension("mult"))
        except Exception:  # noqa
            m = float("nan")
        if un:
            i = o = 0.0
        else:
            try:
                i, o = num(c.getCircleInnerDiameter(cold=True)), num(c.getBoundingCircleOuterDiameter(cold=True))
            except Exception:  # noqa
                i = o = float("nan")
        return [tag, int(un), int(bool(c.containsSolidMaterial())), m, i, o]

    def rep_nuclide(c):
        nd = c.getNumberDensities()
        for k in sorted(nd):
            if nd[k] > 0:
                return k
        return None

    def snapshot(a, chg=None):
        blocks = []
        prev = []
        for ib, b in enumerate(a):
            sol = list(iterSolidComponents(b))
            comps = []
            tgt = []
            for ic, c in enumerate(sol):
                nuc = rep_nuclide(c)
                d = {"name": c.name, "nuc": nuc, "nd": num(c.getNumberDensity(nuc)) if nuc else 0.0,
                     "area": num(c.getArea()), "mass": num(c.getMass()),
                     "h": getattr(c, "height", None), "zb": getattr(c, "zbottom", None), "zt": getattr(c, "ztop", None)}
                d["geo"] = geo(c)
                if chg is not None:
                    d["g"] = num(chg.expansionData.getExpansionFactor(c))
                    lk = chg.linked.linkedComponents.get(c)
                    nxt = list(iterSolidComponents(a[ib + 1])) if ib + 1 < len(a) else []
                    if lk is None:
                        d["ignored"], d["lower"], d["upper"] = True, None, None     # the code did not treat it as solid
                    else:
                        low, up = lk.lower, lk.upper
                        d["lower"] = None if low is None else (prev.index(low) if low in prev else -1)
                        d["upper"] = None if up is None else (nxt.index(up) if up in nxt else -1)
                    if chg.expansionData.isTargetComponent(c):
                        tgt.append(ic)
                comps.append(d)
            # the target the BLOCK designates (Block.p.axialExpTargetComponent, written by setAxialExpTargetComp, by the
            # blueprint, or by ExpansionData when it chose one): a function of the current assembly alone
            nm = b.p.axialExpTargetComponent
            hits = [ic for ic, c in enumerate(sol) if nm and c.name == nm]
            blocks.append({"type": b.getType(), "h": num(b.getHeight()), "zb": num(b.p.zbottom), "zt": num(b.p.ztop),
                           "comps": comps, "targets": tgt, "designated": hits[0] if len(hits) == 1 else None,
                           "designated_name": nm})
            prev = sol
        return blocks

    return RecordingChanger(detailedAxialExpansion=True), snapshot, iterSolidComponents


def safe_request(ctx, case, pre, req, chk, payload):
    """append the model request for this case unless a value read from the code is not a finite number"""
    try:
        line = request(pre)
    except Exception as e:  # noqa
        ctx.fail("expansion-state-not-evaluable", "the state before an expansion consists of finite numbers", case,
                 observed=repr(e)[:200])
        return
    req.append(line)
    chk.append(payload)


def request(pre):
    def opt(v):
        return "_" if v is None else str(v)
    hs = ratlist([b["h"] for b in pre])
    zbs = ratlist([b["zb"] for b in pre])
    zts = ratlist([b["zt"] for b in pre])
    nds = "[" + ",".join(ratlist([c["nd"] for c in b["comps"]]) for b in pre) + "]"
    areas = "[" + ",".join(ratlist([c["area"] for c in b["comps"]]) for b in pre) + "]"
    gs = "[" + ",".join(ratlist([c["g"] for c in b["comps"]]) for b in pre) + "]"
    targets = "[" + ",".join(opt(tgt_of(b)) for b in pre) + "]"
    return f"expandg {hs} {zbs} {zts} {nds} {areas} {gs} {geo_arg(pre)} {targets}"


def geo_arg(pre):
    return "[" + ",".join("[" + ",".join(ratlist(c["geo"]) for c in b["comps"]) + "]" for b in pre) + "]"


def tgt_of(b):
    """index (among the block's solids) of the block's target component: the one the block designates; for a snapshot
    without designation the single component ExpansionData reports"""
    if b.get("designated") is not None:
        return b["designated"]
    return b["targets"][0] if len(b["targets"]) == 1 else None


def aligned(pre, ib, ic):
    """the linkage hypothesis of target_mass_conserved_partial for component ic of block ib"""
    if ib == 0:
        return pre[0]["zb"] == 0.0
    low = pre[ib]["comps"][ic]["lower"]
    return low is None or tgt_of(pre[ib - 1]) == low


def oracle_step(ctx, case, a, pre, post, m_before, H0, top0, mode, f9_budget):
    """clauses of the property on the real assembly after one expansion"""
    n = len(post)
    if not fclose(a.getTotalHeight(), H0, 1e-12):
        ctx.fail("height-preserved", "total assembly height is unchanged", case, observed=a.getTotalHeight(), expected=H0)
    if post[-1]["zt"] != top0:
        ctx.fail("height-preserved-top", "the top of the top block does not move", case, observed=post[-1]["zt"], expected=top0)
    if post[0]["zb"] != 0.0:
        ctx.fail("contiguous-first-bottom", "the first block starts at 0", case, observed=post[0]["zb"])
    for ib in range(n):
        b = post[ib]
        if ib > 0 and b["zb"] != post[ib - 1]["zt"]:
            ctx.fail("contiguous", "each block's bottom is the top of the one below", dict(case, block=ib),
                     observed=b["zb"], expected=post[ib - 1]["zt"])
        if not fclose(b["zt"] - b["zb"], b["h"], 1e-12):
            ctx.fail("height-is-top-minus-bottom", "block height = ztop - zbottom", dict(case, block=ib),
                     observed=b["h"], expected=b["zt"] - b["zb"])
        if not b["h"] > 0:
            ctx.fail("heights-positive", "block heights stay positive", dict(case, block=ib), observed=b["h"])
    bounds = [float(x) for x in a.spatialGrid._bounds[2]]
    if bounds != [0.0] + [b["zt"] for b in post]:
        ctx.fail("grid-bounds-are-elevations", "axial grid bounds equal the block elevations", case, observed=bounds,
                 expected=[0.0] + [b["zt"] for b in post])
    for ib, blk in enumerate(a):
        b = post[ib]
        mid = (b["zb"] + b["zt"]) / 2.0
        loc = blk.spatialLocator
        zc = float(loc.getLocalCoordinates()[2])
        if int(loc.k) != ib or not fclose(zc, mid, 1e-12) or not fclose(float(blk.p.z), mid, 1e-12):
            ctx.fail("locator-follows-elevations", "block locator index / z-coordinate and p.z equal the block's mid elevation",
                     dict(case, block=ib), observed=[int(loc.k), zc, float(blk.p.z)], expected=[ib, mid, mid])
    for ib in range(n - 1):
        pb = pre[ib]
        want = [] if pb.get("designated") is None else [pb["designated"]]
        if "designated" in pb and pb["targets"] != want:
            ctx.fail("targets-are-the-designated-components", "the target components of an expansion are exactly the components "
                     "the blocks designate NOW (nothing remembered from earlier ExpansionData instances or designations)",
                     dict(case, block=ib, designated=pb.get("designated_name")),
                     observed=[pb["comps"][k]["name"] for k in pb["targets"]],
                     expected=[pb["comps"][k]["name"] for k in want])
    for ib in range(n - 1):
        b, pb = post[ib], pre[ib]
        tt = tgt_of(pb)
        if tt is None:
            continue
        if aligned(pre, ib, tt) and not fclose(b["h"], pb["comps"][tt]["g"] * pb["h"], 1e-12):
            ctx.fail("block-grows-with-target", "a block whose target sits on the block below grows by the target's factor",
                     dict(case, block=ib), observed=b["h"], expected=pb["comps"][tt]["g"] * pb["h"])
        t = tt
        if b["comps"][t]["zt"] != b["zt"]:
            ctx.fail("boundary-follows-target", "the block top is the top of its target component", dict(case, block=ib),
                     observed=b["zt"], expected=b["comps"][t]["zt"])
        for ic, c in enumerate(b["comps"]):
            pc = pb["comps"][ic]
            if pc.get("ignored") or pc["lower"] == -1 or pc.get("upper") == -1:
                ctx.fail("solid-component-ignored", "every solid component (any non-fluid material, Custom included) takes "
                         "part in the linkage", dict(case, block=ib, comp=c["name"]), observed=pc.get("lower"))
                continue
            ok_stack = (c["h"] is not None and c["zt"] is not None and c["zb"] is not None
                        and fclose(c["h"], pc["g"] * pb["h"], 1e-12) and fclose(c["zt"] - c["zb"], c["h"], 1e-9)
                        and fclose(c["nd"] * pc["g"], pc["nd"], 1e-11))
            if not ok_stack:
                ctx.fail("solid-component-restacked", "every solid component below the dummy block is re-stacked: height = "
                         "factor x old block height, density divided by the factor", dict(case, block=ib, comp=c["name"]),
                         observed=[c["h"], c["zb"], c["zt"], c["nd"]], expected=[pc["g"] * pb["h"], None, None, pc["nd"] / pc["g"] if pc["g"] else None])
            low = pb["comps"][ic]["lower"]
            if ib > 0 and low is not None and c["zb"] != post[ib - 1]["comps"][low]["zt"]:
                ctx.fail("linked-stay-stacked", "a linked component sits on the component below it",
                         dict(case, block=ib, comp=c["name"]), observed=c["zb"], expected=post[ib - 1]["comps"][low]["zt"])
            m0, m1 = m_before[ib][ic], c["mass"]
            ok = fclose(m0, m1, 1e-9)
            if ic == t:
                if aligned(pre, ib, ic):
                    if not ok:
                        ctx.fail("target-mass-conserved", "mass of the target component is conserved (lower link is the "
                                 "lower block's target, or absent)", dict(case, block=ib, comp=c["name"]), observed=m1, expected=m0)
                elif not ok:
                    ctx.count("target mass off with unaligned lower link (F9 class)")
                    if f9_budget[0] > 0:
                        f9_budget[0] -= 1
                        ctx.fail(F9_KEY, "mass of the target component is conserved",
                                 {"assembly": case["assembly"], "block": ib, "block_type": pb["type"], "comp": c["name"]},
                                 observed=m1 / m0 - 1.0, expected=0.0)
            if mode in ("uniform", "inverse-a", "inverse-b") and not ok:
                ctx.fail("uniform-growth-mass-conserved", "all solids of a block growing alike keep their mass",
                         dict(case, block=ib, comp=c["name"]), observed=m1, expected=m0)


def oracle_linkage(ctx, case, a, chg):
    """axial linkage is MUTUAL and symmetric: A is linked above B  <=>  B is linked below A, for every pair of
    solid components of adjacent blocks, through AssemblyAxialLinkage.linkedComponents and with the arguments of
    areAxiallyLinked swapped"""
    from armi.reactor.converters.axialExpansionChanger import assemblyAxialLinkage as aal

    iterSolidComponents = solids
    links = chg.linked.linkedComponents
    blocks = list(a)
    for ib in range(1, len(blocks)):
        ups, los = list(iterSolidComponents(blocks[ib])), list(iterSolidComponents(blocks[ib - 1]))
        for c in ups:
            for d in los:
                info = dict(case, block=ib, upper=[type(c).__name__, c.name], lower=[type(d).__name__, d.name])
                try:
                    f1, f2 = bool(aal.areAxiallyLinked(c, d)), bool(aal.areAxiallyLinked(d, c))
                    g1 = bool(aal.AssemblyAxialLinkage.areAxiallyLinked(c, d))
                except Exception as e:  # noqa
                    ctx.fail("linkage-check-raises", "areAxiallyLinked answers for every pair of solid components", info,
                             observed=repr(e)[:200])
                    continue
                if f1 != f2 or f1 != g1:
                    ctx.fail("linkage-symmetric", "areAxiallyLinked(A, B) == areAxiallyLinked(B, A)", info,
                             observed=[f1, f2, g1])
                down = c in links and links[c].lower is d
                up = d in links and links[d].upper is c
                if down != up:
                    ctx.fail("linkage-mutual", "A is linked above B exactly when B is linked below A", info,
                             observed={"upper.lower is lower": down, "lower.upper is upper": up})
                if down and not f1:
                    ctx.fail("linkage-consistent", "a stored link is a pair that areAxiallyLinked accepts", info,
                             observed=[down, f1])


def tie_linkage(ctx, case, pre, link_req, link_chk):
    """the model computes lower / upper links from the geometry; compared with the real AssemblyAxialLinkage"""
    try:
        g = geo_arg(pre)
    except Exception as e:  # noqa
        ctx.fail("linkage-geometry-not-evaluable", "component bounding dimensions are finite numbers", case, observed=repr(e)[:200])
        return
    real = "[" + ",".join("[" + ",".join("(" + ("_" if c["lower"] is None else str(c["lower"])) + "," +
                                          ("_" if c["upper"] is None else str(c["upper"])) + ")" for c in b["comps"]) + "]"
                          for b in pre) + "]"
    link_req.append(f"link {g}")
    link_chk.append((dict(case, what="linkage"), real))
    targets = "[" + ",".join("_" if not b["targets"] else str(b["targets"][0]) for b in pre) + "]"
    shape = "[" + ",".join(str(len(b["comps"])) for b in pre) + "]"
    exp = "[" + ",".join(("T" if (b["targets"] and aligned(pre, ib, b["targets"][0])) else "F") for ib, b in enumerate(pre)) + "]"
    link_req.append(f"aligned {g} {targets} {shape}")
    link_chk.append((dict(case, what="LowerIsLowerTarget per block"), exp))


def masses(snap):
    return [[c["mass"] for c in b["comps"]] for b in snap]


def run_sequences(ctx, nseq, collect):
    fx = fixtures()
    req, chk = collect
    f9_budget = [3, 2]
    tops = top_pool(ctx)
    for _ in range(nseq):
        # every third sequence runs on an assembly whose top dummy block carries solid components
        a0 = ctx.rng.choice(tops) if ctx.rng.random() < 0.34 else ctx.rng.choice(fx["assems"])
        ctx.count("sequence on an assembly with top block contents: " + top_tag(a0).replace("blueprint ", ""))
        a = copy.deepcopy(a0)
        chg, snapshot, iterSolid = make_changer()
        H0, top0 = a.getTotalHeight(), float(a[-1].p.ztop)
        nsteps = ctx.rng.randint(1, 5)
        steps = []
        k = 0
        while k < nsteps:
            mode = ctx.rng.choice(["uniform", "percomp", "percomp", "inverse", "thermal"])
            steps.append(mode)
            k += 2 if mode == "inverse" else 1
        hist = []
        for mode in steps:
            # (the solids of the top block are listed, too, in one call out of three: the top block absorbs the change
            # by position whatever is prescribed for what it contains)
            with_top = top_tag(a0) != "fluid" and ctx.rng.random() < 0.34
            solids = [(ib, c) for ib, b in enumerate(a if with_top else a[:-1]) for c in iterSolid(b)]
            comps = [c for _, c in solids]
            if mode in ("uniform", "inverse"):
                per = {ib: 1.0 + ctx.rng.randint(-8, 12) / 256.0 for ib in range(len(a))}
                pcts = [per[ib] for ib, _ in solids]
            else:
                w = ctx.rng.choice([(-6, 10), (-2, 3)])
                pcts = [1.0 + ctx.rng.randint(*w) / 256.0 for _ in solids]
            subs = [("inverse-a", pcts), ("inverse-b", [1.0 / p for p in pcts])] if mode == "inverse" else [(mode, pcts)]
            start = snapshot(a)
            for sub, pp in subs:
                before = snapshot(a)
                case = {"assembly": label(a0), "history": list(hist), "mode": sub}
                chg.pre = None
                try:
                    with common.quiet():
                        if sub == "thermal":
                            grid = np.linspace(0.0, H0, 3000)
                            t0, slope = ctx.rng.uniform(350, 550), ctx.rng.uniform(0, 0.6)
                            field = np.array([t0 + slope * z + ctx.rng.uniform(0, 20) for z in grid])
                            case["temperature"] = [round(t0, 3), round(slope, 4)]
                            chg.performThermalAxialExpansion(a, list(grid), list(field), setFuel=True)
                        else:
                            case["percents"] = [round(p, 6) for p in pp]
                            chg.performPrescribedAxialExpansion(a, comps, pp, setFuel=True)
                except Exception as e:  # noqa
                    pre = chg.pre
                    if isinstance(e, ArithmeticError) and pre is not None:
                        # refused loudly by _checkBlockHeight: the model must refuse the same inputs
                        req.append(request(pre))
                        chk.append((dict(case, refused=repr(e)[:120]), None, None, None))
                        unaligned = [ib for ib in range(len(pre) - 1) for t in pre[ib]["targets"] if not aligned(pre, ib, t)]
                        ctx.count("refused: negative block height after per-component growth")
                        # growth the top dummy block cannot absorb (the sum of the grown blocks reaches the assembly height)
                        # is outside the property's domain: the refusal is the right answer
                        need = sum(pre[ib]["comps"][tgt_of(pre[ib])]["g"] * pre[ib]["h"] for ib in range(len(pre) - 1)
                                   if tgt_of(pre[ib]) is not None)
                        if need >= H0 * (1.0 - 1e-9):
                            ctx.count("refused: cumulative growth exceeds the dummy block")
                            break
                        if unaligned and sub == "percomp":
                            if f9_budget[1] > 0:
                                f9_budget[1] -= 1
                                ctx.fail(F9B_KEY, "block heights stay positive under any prescribed percentages",
                                         {"assembly": label(a0), "blocks_with_unaligned_target_link": unaligned},
                                         observed=repr(e)[:200])
                            break
                    if isinstance(e, ValueError) and "no temperature points" in str(e):
                        # documented refusal: the temperature grid is coarser than a (very thin) block
                        ctx.count("refused: temperature grid coarser than a block")
                        break
                    ctx.fail("expansion-raises", "a physical expansion of an assembly with a dummy block succeeds", case,
                             observed=repr(e)[:300])
                    break
                hist.append(sub)
                pre, post = chg.pre, snapshot(a)
                oracle_step(ctx, case, a, pre, post, masses(pre), H0, top0, sub, f9_budget)
                if len(hist) == 1:
                    oracle_linkage(ctx, case, a, chg)
                    tie_linkage(ctx, case, pre, *LINK)
                if sub != "thermal" and masses(pre) != masses(before):
                    ctx.fail("prescribed-expansion-changes-mass-before-restacking", "nothing but the re-stacking changes masses", case)
                safe_request(ctx, case, pre, req, chk, (case, pre, post, [float(x) for x in a.spatialGrid._bounds[2]]))
                ctx.count(f"expansion mode {sub}")
                ctx.case(("exp", label(a0), tuple(hist), tuple(case.get("percents", case.get("temperature", [])))),
                         nontrivial=True, sample={"case": {k: v for k, v in case.items() if k != "percents"},
                                                  "heights_before": [b["h"] for b in pre], "heights_after": [b["h"] for b in post]})
            else:
                if mode == "inverse":
                    end = snapshot(a)
                    case = {"assembly": label(a0), "history": list(hist), "mode": "inverse"}
                    for ib, (s, e) in enumerate(zip(start, end)):
                        if not fclose(s["h"], e["h"], 1e-9) or not fclose(s["zt"], e["zt"], 1e-9):
                            ctx.fail("inverse-restores-heights", "expanding and applying the inverse change restores heights",
                                     dict(case, block=ib), observed=[e["h"], e["zt"]], expected=[s["h"], s["zt"]])
                        for cs, ce in zip(s["comps"], e["comps"]):
                            if not fclose(cs["nd"], ce["nd"], 1e-9) or not fclose(cs["mass"], ce["mass"], 1e-9):
                                ctx.fail("inverse-restores-densities-masses", "expanding and applying the inverse change "
                                         "restores densities and masses", dict(case, block=ib, comp=cs["name"]),
                                         observed=[ce["nd"], ce["mass"]], expected=[cs["nd"], cs["mass"]])
                continue
            break


def guarded_set_assembly(ctx, chg, a, case, set_fuel=True):
    """setAssembly (linkage, targets, dummy-block test) on a VALID assembly: a raise is a keyed failure with the
    assembly's specification"""
    try:
        with common.quiet():
            chg.setAssembly(a, set_fuel)
        return True
    except Exception as e:  # noqa
        if not real_code_failure(ctx, e, "setAssembly", dict(case, spec=assembly_spec(a))):
            raise
        return False


def run_rejects(ctx, collect):
    """erroneous calls: a non-positive factor, and growth the dummy block cannot absorb (the preparation of the valid
    assembly - linkage, targets - must succeed; only the erroneous part may be refused)"""
    fx = fixtures()
    req, chk = collect
    for kind in ("zero-factor", "negative-factor", "dummy-overflow"):
        a = copy.deepcopy(ctx.rng.choice(fx["assems"]))
        chg, snapshot, iterSolid = make_changer()
        solids = [c for b in a[:-1] for c in iterSolid(b)]
        if kind == "dummy-overflow":
            pcts = [1.5 for _ in solids]
        else:
            pcts = [1.0 for _ in solids]
            pcts[ctx.rng.randrange(len(pcts))] = 0.0 if kind == "zero-factor" else -0.5
        chg.pre = None
        if not guarded_set_assembly(ctx, chg, a, {"assembly": a.getType(), "mode": "refused call: " + kind}):
            continue
        try:
            with common.quiet():
                chg.expansionData.setExpansionFactors(solids, pcts)
                chg.axiallyExpandAssembly()
            ctx.fail("unphysical-expansion-accepted", "a non-positive factor / a negative block height is refused",
                     {"kind": kind}, observed="no exception")
        except (RuntimeError, ArithmeticError):
            ctx.count(f"refused: {kind}")
            if chg.pre is not None:     # refused inside axiallyExpandAssembly: the model must refuse too
                req.append(request(chg.pre))
                chk.append(({"kind": kind}, None, None, None))
            else:                       # refused by setExpansionFactors before anything ran: model the same inputs
                pre = snapshot(a, chg)
                sol = [c for blk in pre[:-1] for c in blk["comps"]]
                sol[ctx.rng.randrange(len(sol))]["g"] = 0.0 if kind == "zero-factor" else -0.5
                req.append(request(pre))
                chk.append(({"kind": kind}, None, None, None))
        ctx.case(("reject", kind), nontrivial=True)


def diff_state(line, post, bounds):
    """None when the model's response line `blocks mesh` equals the real post-state, else a description"""
    if line in ("reject", "bad-op"):
        return "model answers " + line
    blocks_s, mesh_s = line.split(" ")
    mb = common.parse_list(blocks_s)
    mm = common.parse_list(mesh_s)
    bad = None
    if len(mb) != len(post) or len(mm) != len(bounds):
        return "shape"
    for x, y in zip(mm, bounds):
        if not relclose(y, x, 1e-11):
            bad = f"grid bounds {y} vs {x}"
    for ib, (m, p) in enumerate(zip(mb, post)):
        for name, x, y in (("h", m[0], p["h"]), ("zb", m[1], p["zb"]), ("zt", m[2], p["zt"])):
            if not relclose(y, x, 1e-11):
                bad = f"block {ib} {name}: impl {y} model {x}"
        if ib == len(post) - 1:
            # the top block absorbs the change BY POSITION: whatever solids it contains are left as they are
            if len(m[3]) != len(p["comps"]):
                bad = f"top block component count: impl {len(p['comps'])} model {len(m[3])}"
            else:
                for mc, pc in zip(m[3], p["comps"]):
                    if not relclose(pc["nd"], mc[0], 1e-11):
                        bad = f"top block comp {pc['name']} nd: impl {pc['nd']} model {mc[0]}"
            continue
        if len(m[3]) != len(p["comps"]):
            bad = f"block {ib} component count"
            continue
        for mc, pc in zip(m[3], p["comps"]):
            for name, x, y in (("nd", mc[0], pc["nd"]), ("height", mc[1], pc["h"]), ("zbottom", mc[2], pc["zb"]),
                               ("ztop", mc[3], pc["zt"])):
                if y is None or not relclose(y, x, 1e-11):
                    bad = f"block {ib} comp {pc['name']} {name}: impl {y} model {x}"
    return bad


def compare(ctx, req, chk):
    model = lean_run("AxialExp", req)
    for (case, pre, post, bounds), line, rq in zip(chk, model, req):
        if post is None:
            if line != "reject":
                ctx.disagree("Model/AxialExp.lean vs axiallyExpandAssembly (refusal)", case, line[:200], "raises")
            continue
        if line in ("reject", "bad-op"):
            ctx.disagree("Model/AxialExp.lean vs axiallyExpandAssembly", dict(case, request=rq[:300]), line, "ok")
            continue
        bad = diff_state(line, post, bounds)
        if bad:
            ctx.disagree("Model/AxialExp.lean vs axiallyExpandAssembly", dict(case, request=rq[:300]), bad, "see message")
    ctx.evaluations += len(req)
    if req:
        ctx.samples.append({"request": req[0][:400], "model": model[0][:400]})


ROUTES = ([], [])    # requests / expectations of the multi-step routes (one store re-used / a fresh store per step)


def route_request(route, pre0, steps):
    """`reuse` / `fresh` request: the state and linkage geometry at setAssembly time + the listed (block, solid) keys and
    factors of every step"""
    hs = ratlist([b["h"] for b in pre0])
    zbs = ratlist([b["zb"] for b in pre0])
    zts = ratlist([b["zt"] for b in pre0])
    nds = "[" + ",".join(ratlist([c["nd"] for c in b["comps"]]) for b in pre0) + "]"
    areas = "[" + ",".join(ratlist([c["area"] for c in b["comps"]]) for b in pre0) + "]"
    targets = "[" + ",".join("_" if not b["targets"] else str(b["targets"][0]) for b in pre0) + "]"
    st = "[" + ",".join("[[" + ",".join(f"[{ib},{ic}]" for ib, ic in keys) + "]," + ratlist(fr) + "]" for keys, fr in steps) + "]"
    return f"{route} {hs} {zbs} {zts} {nds} {areas} {geo_arg(pre0)} {targets} {st}"


def compare_routes(ctx):
    req, chk = ROUTES
    if not req:
        return
    model = lean_run("AxialExp", req)
    for (case, states), line, rq in zip(chk, model, req):
        parts = line.split("|") if line else []
        if len(parts) != len(states):
            ctx.disagree("Model/AxialExp.lean runReuse / runFresh vs successive steps on the real objects (step count)",
                         dict(case, request=rq[:300]), f"{len(parts)} states: {line[:120]}", f"{len(states)} states")
            continue
        for k, (ln, (post, bounds)) in enumerate(zip(parts, states)):
            bad = ("model answers reject" if ln == "reject" else None) if post is None else diff_state(ln, post, bounds)
            if post is None and ln == "reject":
                bad = None
            if bad:
                ctx.disagree("Model/AxialExp.lean runReuse / runFresh vs successive steps on the real objects",
                             dict(case, step=k, request=rq[:300]), bad, "see message")
                break
    ctx.evaluations += sum(len(x[1]) for x in chk)
    ctx.count("multi-step route requests (one store re-used / fresh store per step)", len(req))
    ctx.samples.append({"request": req[0][:400], "model": model[0][:300]})


def expected_factor(c, t_from, t_to):
    """(100 + p(T1)) / (100 + p(T0)) from the material's expansion curve, independent of the component code"""
    from armi.materials import material as mat_mod
    from armi.materials import custom

    if isinstance(c.material, (mat_mod.Fluid, custom.Custom)):
        return 1.0
    p1 = c.material.linearExpansionPercent(Tc=t_to)
    p0 = c.material.linearExpansionPercent(Tc=t_from)
    return (100.0 + p1) / (100.0 + p0)


def one_step(ctx, collect, a, a0, chg, snapshot, iterSolid, case, H0, top0, f9_budget, mode, payload, tight=False):
    """one real expansion through a public entry point + oracle + a correspondence request; returns (pre, post) or None"""
    req, chk = collect
    temps_before = {id(c): float(c.temperatureInC) for b in a for c in b}
    chg.pre = None
    try:
        with common.quiet():
            if mode == "isothermal":
                grid = np.linspace(0.0, H0, 3000)
                chg.performThermalAxialExpansion(a, list(grid), [payload] * len(grid), setFuel=True)
            else:
                comps, pcts = payload
                chg.performPrescribedAxialExpansion(a, comps, pcts, setFuel=True)
    except Exception as e:  # noqa
        ctx.fail("expansion-raises", "a physical expansion of an assembly with a dummy block succeeds", case,
                 observed=repr(e)[:300])
        return None
    pre, post = chg.pre, snapshot(a)
    oracle_step(ctx, case, a, pre, post, masses(pre), H0, top0, "percomp", f9_budget)
    oracle_linkage(ctx, case, a, chg)
    tie_linkage(ctx, case, pre, *LINK)
    if mode == "isothermal":
        for ib, b in enumerate(a[:-1]):
            for ic, c in enumerate(iterSolid(b)):
                exp = expected_factor(c, temps_before[id(c)], payload)
                got = pre[ib]["comps"][ic]["g"]
                if not fclose(got, exp, 1e-12):
                    ctx.fail("thermal-factor-is-material-expansion-ratio", "the growth factor of a component is its "
                             "material's expansion between the previous and the new temperature",
                             dict(case, block=ib, comp=c.name, t_from=temps_before[id(c)], t_to=payload),
                             observed=got, expected=exp)
                if float(c.temperatureInC) != float(payload):
                    ctx.fail("thermal-temperature-applied", "components take the block-average temperature",
                             dict(case, block=ib, comp=c.name), observed=float(c.temperatureInC), expected=payload)
    safe_request(ctx, case, pre, req, chk, (case, pre, post, [float(x) for x in a.spatialGrid._bounds[2]]))
    ctx.count(f"expansion mode {case['mode']}")
    return pre, post


def run_zero_celsius(ctx, collect):
    """closed isothermal cycles through EXACTLY 0.0 C (a legitimate, falsy temperature)"""
    fx = fixtures()
    paths = [[25.0, 0.0, 100.0, 25.0], [0.0, 50.0, 0.0], [25.0, 0.0, 0.0, 300.0, 25.0]]
    tops = top_pool(ctx)
    for a0 in fx["assems"] + (tops if ctx.thorough else ctx.rng.sample(tops, 3)):
        path = ctx.rng.choice(paths) if not ctx.thorough else None
        for pth in ([path] if path else paths):
            a = copy.deepcopy(a0)
            chg, snapshot, iterSolid = make_changer()
            H0, top0 = a.getTotalHeight(), float(a[-1].p.ztop)
            budget = [0, 0]
            ref = None
            ok = True
            for k, T in enumerate(pth):
                case = {"assembly": label(a0), "mode": "isothermal-cycle", "path": pth, "leg": k, "T": T}
                r = one_step(ctx, collect, a, a0, chg, snapshot, iterSolid, case, H0, top0, budget, "isothermal", T)
                if r is None:
                    ok = False
                    break
                pre, post = r
                if k > 0 and pth[k - 1] == 0.0 and T != 0.0:
                    # the leg OUT of 0 C: boundaries must move with the target component
                    for ib in range(len(pre) - 1):
                        if pre[ib]["targets"] and aligned(pre, ib, pre[ib]["targets"][0]):
                            if not abs(post[ib]["h"] / pre[ib]["h"] - 1.0) > 1e-7:
                                ctx.fail("leg-out-of-zero-celsius-moves-boundaries", "heating from exactly 0.0 C moves the "
                                         "block boundary with its target component", dict(case, block=ib),
                                         observed=post[ib]["h"], expected=f"!= {pre[ib]['h']}")
                if k == 0:
                    ref = post
                ctx.case(("zero-c", label(a0), tuple(pth), k), nontrivial=True)
            if ok and pth[0] == pth[-1]:
                end = snapshot(a)
                case = {"assembly": label(a0), "mode": "isothermal-cycle", "path": pth}
                for ib in range(len(ref) - 1):
                    tt = ref[ib]["targets"]
                    for cs, ce in zip(ref[ib]["comps"], end[ib]["comps"]):
                        if not fclose(cs["nd"], ce["nd"], 1e-9):
                            ctx.fail("closed-cycle-restores-densities", "a closed temperature cycle restores number densities",
                                     dict(case, block=ib, comp=cs["name"]), observed=ce["nd"], expected=cs["nd"])
                    # heights (and target masses) of blocks whose target sits on the block below
                    pre_like = chg.pre
                    if pre_like[ib]["targets"] and aligned(pre_like, ib, pre_like[ib]["targets"][0]):
                        if not fclose(ref[ib]["h"], end[ib]["h"], 1e-9):
                            ctx.fail("closed-cycle-restores-heights", "a closed temperature cycle restores block heights",
                                     dict(case, block=ib), observed=end[ib]["h"], expected=ref[ib]["h"])
                        t = pre_like[ib]["targets"][0]
                        if not fclose(ref[ib]["comps"][t]["mass"], end[ib]["comps"][t]["mass"], 1e-9):
                            ctx.fail("closed-cycle-restores-target-mass", "a closed temperature cycle restores target masses",
                                     dict(case, block=ib), observed=end[ib]["comps"][t]["mass"],
                                     expected=ref[ib]["comps"][t]["mass"])


def run_small_steps(ctx, collect):
    """10-50 VERY small expansions (L1/L0 = 1 +- a few 1e-6, isothermal steps of +0.25 C) on one object:
    every clause after EVERY step, and no accumulated drift"""
    fx = fixtures()
    tops = top_pool(ctx)
    for _ in range(ctx.pick(8, 40)):
        a0 = ctx.rng.choice(tops) if ctx.rng.random() < 0.3 else ctx.rng.choice(fx["assems"])
        a = copy.deepcopy(a0)
        chg, snapshot, iterSolid = make_changer()
        H0, top0 = a.getTotalHeight(), float(a[-1].p.ztop)
        budget = [0, 0]
        kind = ctx.rng.choice(["prescribed-uniform", "prescribed-percomp", "isothermal"])
        nsteps = ctx.rng.randint(10, 50)
        T = 400.0
        first = None
        prod = None
        for k in range(nsteps):
            case = {"assembly": label(a0), "mode": "tiny-" + kind, "step": k}
            if kind == "isothermal":
                if k > 0:
                    T += 0.25
                r = one_step(ctx, collect, a, a0, chg, snapshot, iterSolid, case, H0, top0, budget, "isothermal", T)
            else:
                solids = [(ib, c) for ib, b in enumerate(a[:-1]) for c in iterSolid(b)]
                if kind == "prescribed-uniform":
                    per = {ib: 1.0 + ctx.rng.choice([-5, -3, -1, 1, 2, 4]) * 1e-6 for ib in range(len(a))}
                    pcts = [per[ib] for ib, _ in solids]
                else:
                    pcts = [1.0 + ctx.rng.choice([-5, -3, -1, 1, 2, 4]) * 1e-6 for _ in solids]
                case["percents"] = pcts[:6]
                r = one_step(ctx, collect, a, a0, chg, snapshot, iterSolid, case, H0, top0, budget, "prescribed",
                             ([c for _, c in solids], pcts))
            if r is None:
                break
            pre, post = r
            if first is None:
                first = pre
                prod = [Fraction(1) for _ in pre]
            for ib in range(len(pre) - 1):
                t = pre[ib]["targets"]
                prod[ib] *= Fraction(pre[ib]["comps"][t[0]]["g"]) if t else 1
                if abs(post[ib]["h"] - pre[ib]["h"]) == 0.0 and t and pre[ib]["comps"][t[0]]["g"] != 1.0 and aligned(pre, ib, t[0]):
                    ctx.fail("tiny-step-moves-boundary", "a very small expansion still moves the block boundary",
                             dict(case, block=ib), observed=post[ib]["h"], expected=pre[ib]["comps"][t[0]]["g"] * pre[ib]["h"])
            ctx.case(("tiny", label(a0), kind, k, _), nontrivial=True)
        else:
            # accumulated drift: height of every block with an aligned target = initial height x product of its factors
            end = snapshot(a)
            for ib in range(len(first) - 1):
                t = first[ib]["targets"]
                if t and aligned(first, ib, t[0]):
                    exp = Fraction(first[ib]["h"]) * prod[ib]
                    if not relclose(end[ib]["h"], exp, 1e-10):
                        ctx.fail("tiny-steps-accumulated-drift", "after many small steps a block's height is its initial "
                                 "height times the product of its target's factors",
                                 {"assembly": label(a0), "mode": "tiny-" + kind, "steps": nsteps, "block": ib},
                                 observed=end[ib]["h"], expected=float(exp))
            bounds = [float(x) for x in a.spatialGrid._bounds[2]]
            if bounds != [0.0] + [b["zt"] for b in end]:
                ctx.fail("grid-bounds-are-elevations", "axial grid bounds equal the block elevations", 
                         {"assembly": label(a0), "mode": "tiny-" + kind, "steps": nsteps}, observed=bounds)


# --------------------------------------------------------------------------- assemblies built through the real API
BUILT_KINDS = ("fuel", "holedslab", "slab", "holedpins", "pinslab", "pinslab61", "customfuel")
BUILT_STACKS = [
    ["fuel", "holedslab"],          # derived HoledHexagon target directly above a base-class Hexagon (duct) that is not the lower target
    ["fuel", "holedpins"],          # derived HexHoledCircle target above base-class Circles (fuel = lower target, clad is not)
    ["pinslab", "holedpins"],       # derived HexHoledCircle above a base-class Circle that IS the lower target
    ["slab", "holedslab"],          # derived above base that IS the lower target
    ["holedslab", "slab"],          # base class above derived
    ["holedpins", "pinslab"],       # base class above derived
    ["holedslab", "holedslab"], ["slab", "slab"], ["fuel", "fuel"], ["holedpins", "holedpins"],   # same-type controls
    ["customfuel", "holedslab"], ["customfuel", "customfuel", "slab"], ["fuel", "customfuel"], ["slab", "customfuel"],
    ["pinslab", "pinslab61"], ["pinslab61", "pinslab", "pinslab"],      # same class, different multiplicity
    ["fuel", "holedslab", "slab", "holedpins"],
    ["slab", "fuel", "fuel", "holedslab", "holedslab"],
]


def build_assembly(kinds, heights, top="fluid"):
    """HexAssembly / HexBlock / components through the public constructors (nothing from the blueprint fixtures)"""
    from armi.reactor import grids
    from armi.reactor.assemblies import HexAssembly
    from armi.reactor.blocks import HexBlock
    from armi.reactor.components import DerivedShape
    from armi.reactor.components.basicShapes import Circle, Hexagon
    from armi.reactor.components.complexShapes import HexHoledCircle, HoledHexagon

    T = {"Tinput": 25.0, "Thot": 400.0}

    def blk(kind, h):
        nonlocal T
        T = {"Tinput": 25.0, "Thot": 400.0}
        if "@" in kind:                 # "<kind>@<Thot>": the hot temperature of this block's components
            kind, th = kind.split("@")
            T = {"Tinput": 25.0, "Thot": float(th)}
        b = HexBlock(kind, height=h)
        if kind == "tightfuel":
            # TIGHT COLD GAP: pin cold od 0.760 < clad cold id 0.765 < pin hot od (UZr at 350 C and above)
            comps = [Circle("fuel", "UZr", od=0.760, id=0.0, mult=127.0, **T), Circle("clad", "HT9", od=0.80, id=0.765, mult=127.0, **T)]
            tgt = "fuel"
        elif kind == "barepin":
            # the same pin without a clad of its own (a slug / pellet stack): next to an annulus-only block nothing but
            # the temperature-dependent comparison could link it to that annulus
            comps = [Circle("fuel", "UZr", od=0.760, id=0.0, mult=127.0, **T)]
            tgt = "fuel"
        elif kind == "ringslab":
            # the same annulus (cold id 0.765) as a NON-target liner in the holes of the target slab, no pin inside
            comps = [HoledHexagon("shield", "HT9", op=15.2, holeOD=0.8, nHoles=127, mult=1.0, **T),
                     Circle("liner", "HT9", od=0.80, id=0.765, mult=127.0, **T)]
            tgt = "shield"
        elif kind == "fuel":
            comps = [Circle("fuel", "UZr", od=0.76, id=0.0, mult=127.0, **T), Circle("clad", "HT9", od=0.80, id=0.77, mult=127.0, **T)]
            tgt = "fuel"
        elif kind == "customfuel":      # a SOLID target whose material is Custom (custom isotopics)
            cf = Circle("fuel", "Custom", od=0.76, id=0.0, mult=127.0, **T)
            cf.setNumberDensities({"U235": 0.004, "U238": 0.03, "ZR90": 0.003})
            comps = [cf, Circle("clad", "HT9", od=0.80, id=0.77, mult=127.0, **T)]
            tgt = "fuel"
        elif kind == "holedslab":
            comps = [HoledHexagon("reflector", "HT9", op=15.2, holeOD=0.8, nHoles=127, mult=1.0, **T)]
            tgt = "reflector"
        elif kind == "slab":
            comps = [Hexagon("shield", "HT9", op=15.2, ip=0.0, mult=1.0, **T)]
            tgt = "shield"
        elif kind == "holedpins":
            comps = [HexHoledCircle("reflector", "HT9", od=0.80, holeOP=0.3, mult=127.0, **T)]
            tgt = "reflector"
        elif kind == "pinslab61":   # same class as pinslab, other multiplicity: never linked to it
            comps = [Circle("shield", "HT9", od=0.80, id=0.0, mult=61.0, **T)]
            tgt = "shield"
        else:  # pinslab: solid steel pins
            comps = [Circle("shield", "HT9", od=0.80, id=0.0, mult=127.0, **T)]
            tgt = "shield"
        comps.append(Hexagon("duct", "HT9", op=16.0, ip=15.3, mult=1.0, **T))
        comps.append(DerivedShape("coolant", "Sodium", **T))
        comps.append(Hexagon("intercoolant", "Sodium", op=17.0, ip=16.0, mult=1.0, **T))
        for c in comps:
            b.add(c)
        b.setType("fuel" if kind in ("fuel", "customfuel", "tightfuel", "barepin") else "reflector")
        b.getVolumeFractions()
        b.p.axialExpTargetComponent = tgt
        return b

    a = HexAssembly("builtAssembly")
    a.spatialGrid = grids.AxialGrid.fromNCells(numCells=1)
    a.spatialGrid.armiObject = a
    for k, h in zip(kinds, heights):
        a.add(blk(k, h))
    d = HexBlock("dummy", height=heights[-1])
    if top == "fluid":
        d.add(Hexagon("dummy coolant", "Sodium", op=17.0, ip=0.0, mult=1.0, **T))
    else:
        # a top dummy block that carries solids besides its fluid (duct linked to the duct below; socket / ring linked to
        # nothing; "pins": solid pins linked to solid pins below when the block below has them)
        if "duct" in top:
            d.add(Hexagon("duct", "HT9", op=16.0, ip=15.3, mult=1.0, **T))
        if "socket" in top:
            d.add(Circle("handling socket", "HT9", od=6.0, id=4.0, mult=1.0, **T))
        if "ring" in top:
            d.add(Circle("lifting ring", "HT9", od=10.0, id=8.5, mult=1.0, **T))
        d.add(DerivedShape("coolant", "Sodium", **T))
        d.add(Hexagon("intercoolant", "Sodium", op=17.0, ip=16.0, mult=1.0, **T))
    d.getVolumeFractions()
    d.setType("dummy")
    if top.endswith("-target"):
        d.p.axialExpTargetComponent = "duct"
    a.add(d)
    a.calculateZCoords()
    a.reestablishBlockOrder()
    return a


def run_built(ctx, collect):
    """subclassed shapes stacked on base-class shapes (and the reverse, and same-type controls): differential
    expansion (fuel +5 %, steel unchanged), then random per-component / uniform / isothermal steps"""
    stacks = [list(k) for k in BUILT_STACKS]
    for _ in range(ctx.pick(6, 60)):
        while True:     # a solid-pin block next to a fuel block would be an ambiguous blueprint (two Circles over one)
            st = [ctx.rng.choice(BUILT_KINDS) for _ in range(ctx.rng.randint(2, 5))]
            if not any((x in ("fuel", "customfuel") and y.startswith("pinslab")) or (y in ("fuel", "customfuel") and x.startswith("pinslab"))
                       for x, y in zip(st, st[1:])):
                break
        stacks.append(st)
    tv = ("fluid",) + TOP_VARIANTS
    off = ctx.rng.randrange(len(tv))
    for ist, kinds in enumerate(stacks):
        heights = [ctx.rng.choice([8.0, 16.0, 20.5, 32.0]) for _ in kinds] + [16.0]
        top = tv[(ist + off) % len(tv)]      # every variant of the top block's contents on every run
        try:
            with common.quiet():
                a = build_assembly(kinds, heights, top)
        except Exception as e:  # noqa
            raise common.Infra(f"cannot build the test assembly {kinds}: {e!r}")
        a0 = a
        TOP_TAG[id(a0)] = top
        ctx.count("built assembly with top block contents: " + top)
        chg, snapshot, iterSolid = make_changer()
        H0, top0 = a.getTotalHeight(), float(a[-1].p.ztop)
        budget = [1, 0]
        steps = ["differential"] + [ctx.rng.choice(["percomp", "uniform", "isothermal", "differential-back"])
                                    for _ in range(ctx.rng.randint(1, 3))]
        T = 400.0
        for k, mode in enumerate(steps):
            case = {"assembly": "built:" + "/".join(kinds), "top_block": top, "heights": heights, "mode": "built-" + mode, "step": k}
            solids = [(ib, c) for ib, b in enumerate(a[:-1]) for c in iterSolid(b)]
            comps = [c for _, c in solids]
            if mode == "isothermal":
                T += ctx.rng.choice([-50.0, 25.0, 100.0])
                r = one_step(ctx, collect, a, a0, chg, snapshot, iterSolid, case, H0, top0, budget, "isothermal", T)
            else:
                if mode == "differential":
                    pcts = [1.05 if c.name == "fuel" else 1.0 for c in comps]
                elif mode == "differential-back":
                    pcts = [1.0 / 1.05 if c.name == "fuel" else 1.0 for c in comps]
                elif mode == "uniform":
                    per = {ib: 1.0 + ctx.rng.randint(-8, 12) / 256.0 for ib in range(len(a))}
                    pcts = [per[ib] for ib, _ in solids]
                else:
                    pcts = [1.0 + ctx.rng.randint(-6, 10) / 256.0 for _ in solids]
                case["percents"] = pcts[:8]
                r = one_step(ctx, collect, a, a0, chg, snapshot, iterSolid, case, H0, top0, budget, "prescribed", (comps, pcts))
            if r is None:
                break
            pre, post = r
            if mode in ("uniform",):
                for ib in range(len(pre) - 1):
                    for cp, cq in zip(pre[ib]["comps"], post[ib]["comps"]):
                        if not fclose(cp["mass"], cq["mass"], 1e-9):
                            ctx.fail("uniform-growth-mass-conserved", "all solids of a block growing alike keep their mass",
                                     dict(case, block=ib, comp=cp["name"]), observed=cq["mass"], expected=cp["mass"])
            ctx.case(("built", tuple(kinds), top, tuple(heights), k, mode), nontrivial=True)
        ctx.count("built assemblies (subclassed / base-class shape stacks)")


def run_state_carry(ctx, collect):
    """ONE changer instance reused on the same assembly for successive performPrescribedAxialExpansion calls that name
    DIFFERENT component subsets, followed by the exact inverse sequence; compared with a fresh changer per call"""
    fx = fixtures()
    # (the control assemblies' 1 cm blocks go negative under per-component growth: known finding, exercised elsewhere)
    pool = [x for x in fx["assems"] if "control" not in x.getType()]
    with common.quiet():
        pool += [build_assembly(k, [16.0] * (len(k) + 1)) for k in (["fuel", "holedslab", "slab"], ["customfuel", "fuel", "pinslab61"])]
        for k, tp in ((["fuel", "holedslab", "slab"], "duct+socket"), (["customfuel", "fuel", "pinslab61"], "duct")):
            pool.append(build_assembly(k, [16.0] * (len(k) + 1), tp))
            TOP_TAG[id(pool[-1])] = tp
    pool += [x for x in top_pool(ctx) if "control" not in x.getType()]
    for _ in range(ctx.pick(10, 120)):
        a0 = ctx.rng.choice(pool)
        a, a2 = copy.deepcopy(a0), copy.deepcopy(a0)
        chg, snapshot, iterSolid = make_changer()
        H0, top0 = a.getTotalHeight(), float(a[-1].p.ztop)
        budget = [0, 0]
        names = sorted({c.name for b in a[:-1] for c in solids(b)})
        groups = []
        for _g in range(ctx.rng.randint(2, 3)):
            grp = set(ctx.rng.sample(names, ctx.rng.randint(1, max(1, len(names) - 1))))
            groups.append((grp, 1.0 + ctx.rng.choice([-6, -3, 2, 3, 4]) / 256.0))   # total growth stays below the dummy height
        seq = groups + [(g, 1.0 / p) for g, p in reversed(groups)]
        start = snapshot(a)
        ok = True
        for k, (grp, p) in enumerate(seq):
            idx = [(ib, ic, c) for ib, b in enumerate(a[:-1]) for ic, c in enumerate(solids(b)) if c.name in grp]
            comps = [c for _, _, c in idx]
            listed = {(ib, ic) for ib, ic, _ in idx}
            case = {"assembly": label(a0), "mode": "reused-changer-subsets", "step": k, "listed": sorted(grp), "factor": p}
            r = one_step(ctx, collect, a, a0, chg, snapshot, iterSolid, case, H0, top0, budget, "prescribed",
                         (comps, [p] * len(comps)))
            if r is None:
                ok = False
                break
            pre, post = r
            for ib in range(len(pre) - 1):
                for ic, c in enumerate(pre[ib]["comps"]):
                    want = p if (ib, ic) in listed else 1.0
                    if c["g"] != want:
                        ctx.fail("prescribed-factors-only-listed-components", "a prescribed expansion applies the given factor "
                                 "to the listed components and 1.0 to every other one (nothing carried over from earlier calls)",
                                 dict(case, block=ib, comp=c["name"]), observed=c["g"], expected=want)
            # the same call with a FRESH changer on the twin assembly
            fresh, _s, _i = make_changer()
            comps2 = [c for b in a2[:-1] for c in solids(b) if c.name in grp]
            try:
                with common.quiet():
                    fresh.performPrescribedAxialExpansion(a2, comps2, [p] * len(comps2), setFuel=True)
            except Exception as e:  # noqa
                ctx.fail("expansion-raises", "a physical expansion of an assembly with a dummy block succeeds", case, observed=repr(e)[:200])
                ok = False
                break
            twin = snapshot(a2)
            for ib, (x, y) in enumerate(zip(post, twin)):
                same = fclose(x["h"], y["h"], 1e-13) and fclose(x["zt"], y["zt"], 1e-13) and all(
                    fclose(cx["nd"], cy["nd"], 1e-13) and fclose(cx["mass"], cy["mass"], 1e-12) for cx, cy in zip(x["comps"], y["comps"]))
                if not same:
                    ctx.fail("reused-changer-equals-fresh-changer", "a changer that was used before gives the same result as a "
                             "fresh one", dict(case, block=ib), observed=[x["h"], x["zt"]], expected=[y["h"], y["zt"]])
            ctx.case(("carry", label(a0), k, tuple(sorted(grp)), p), nontrivial=True)
        if ok:
            end = snapshot(a)
            al = chg.pre
            case = {"assembly": label(a0), "mode": "reused-changer-subsets", "sequence": [[sorted(g), p] for g, p in seq]}
            for ib in range(len(start) - 1):
                for cs, ce in zip(start[ib]["comps"], end[ib]["comps"]):
                    if not fclose(cs["nd"], ce["nd"], 1e-11):
                        ctx.fail("sequence-inverse-restores-densities", "a sequence followed by its exact inverse restores the "
                                 "number densities", dict(case, block=ib, comp=cs["name"]), observed=ce["nd"], expected=cs["nd"])
                t = al[ib]["targets"]
                if t and all(aligned(al, jb, al[jb]["targets"][0]) for jb in range(ib + 1) if al[jb]["targets"]):
                    if not fclose(start[ib]["h"], end[ib]["h"], 1e-10) or not fclose(start[ib]["zt"], end[ib]["zt"], 1e-10):
                        ctx.fail("sequence-inverse-restores-heights", "a sequence followed by its exact inverse restores the "
                                 "heights (blocks whose targets sit on the block below)", dict(case, block=ib),
                                 observed=[end[ib]["h"], end[ib]["zt"]], expected=[start[ib]["h"], start[ib]["zt"]])
                    tm0, tm1 = start[ib]["comps"][t[0]]["mass"], end[ib]["comps"][t[0]]["mass"]
                    if not fclose(tm0, tm1, 1e-10):
                        ctx.fail("sequence-inverse-restores-masses", "... and the target masses", dict(case, block=ib),
                                 observed=tm1, expected=tm0)
        ctx.count("reused-changer subset sequences")


def same_state(x, y, tol=1e-13):
    return (fclose(x["h"], y["h"], tol) and fclose(x["zt"], y["zt"], tol) and x["zb"] == y["zb"] or
            (abs(x["zb"] - y["zb"]) <= tol * max(abs(x["zb"]), 1.0) and fclose(x["h"], y["h"], tol) and fclose(x["zt"], y["zt"], tol))) \
        and len(x["comps"]) == len(y["comps"]) and all(
            fclose(cx["nd"], cy["nd"], tol) and fclose(cx["mass"], cy["mass"], 1e-12) for cx, cy in zip(x["comps"], y["comps"]))


REUSE_PATTERNS = ("grow-hold-shrink", "grow-hold-hold-grow", "one-group-per-step", "subsets", "subsets-of-blocks")


def reuse_steps(ctx, sol, pattern):
    """step sequences for ONE ExpansionData used for successive steps. A step is a dict {(block, solid index): L1/L0}
    of the components it LISTS. Every component a step does not list either was never listed before or was last
    prescribed EXACTLY 1.0 (so that what is prescribed for it is unambiguous: no change). Returns (steps, uniform?)
    where uniform? says that all solids of a block get the same factor in every step."""
    rng = ctx.rng
    blocks = sorted({ib for ib, _ic, _c in sol})
    allk = [(ib, ic) for ib, ic, _c in sol]
    dy = lambda lo, hi: 1.0 + rng.choice([k for k in range(lo, hi + 1) if k != 0]) / 256.0     # noqa: E731
    if pattern == "grow-hold-shrink":
        g = {ib: dy(-8, 12) for ib in blocks}
        holds = rng.randint(1, 2)
        steps = [{k: g[k[0]] for k in allk}] + [{k: 1.0 for k in allk} for _ in range(holds)] + [{k: 1.0 / g[k[0]] for k in allk}]
        return steps, True
    if pattern == "grow-hold-hold-grow":
        g, h = {ib: dy(-8, 10) for ib in blocks}, {ib: dy(-8, 10) for ib in blocks}
        return [{k: g[k[0]] for k in allk}, {k: 1.0 for k in allk}, {k: 1.0 for k in allk}, {k: h[k[0]] for k in allk}], True
    names = sorted({c.name for _ib, _ic, c in sol})
    if pattern == "one-group-per-step":
        # full vectors; a different group of components (by name) moves in every step, every other one is prescribed 1.0
        rng.shuffle(names)
        groups = [set(names[i::3]) for i in range(3) if names[i::3]]
        fs = [dy(-6, 6) for _ in groups]
        fwd = [{(ib, ic): (f if c.name in grp else 1.0) for ib, ic, c in sol} for grp, f in zip(groups, fs)]
        back = [{(ib, ic): (1.0 / f if c.name in grp else 1.0) for ib, ic, c in sol} for grp, f in reversed(list(zip(groups, fs)))]
        return fwd + back, False
    # subsets: a step lists only some components; before a component is dropped from the lists it is prescribed exactly 1.0
    def pick():
        if pattern == "subsets":
            chosen = set(rng.sample(names, rng.randint(1, max(1, len(names) - 1))))
            return {(ib, ic) for ib, ic, c in sol if c.name in chosen}
        chosen = set(rng.sample(blocks, rng.randint(1, max(1, len(blocks) - 1))))
        return {(ib, ic) for ib, ic, _c in sol if ib in chosen}

    steps, undo = [], []
    live = {}
    for _ in range(rng.randint(2, 3)):
        sub = pick()
        f = dy(-5, 5)
        st = {k: f for k in sub}
        for k, v in live.items():            # components that moved in the step before and are not listed now: exactly 1.0
            if k not in st and v != 1.0:
                st[k] = 1.0
        steps.append(st)
        undo.append({k: 1.0 / f for k in sub})
        live = dict(st)
        if rng.random() < 0.5:               # an explicit hold of just those components
            steps.append({k: 1.0 for k in sub})
            live = dict(steps[-1])
    for u in reversed(undo):
        st = dict(u)
        for k, v in live.items():
            if k not in st and v != 1.0:
                st[k] = 1.0
        steps.append(st)
        live = dict(st)
    return steps, pattern == "subsets-of-blocks"


def run_reuse(ctx, collect):
    """ONE AxialExpansionChanger / ExpansionData for SUCCESSIVE steps: setAssembly once, then per step
    expansionData.setExpansionFactors(listed components, factors) + axiallyExpandAssembly() (the pattern of armi's own
    conservation tests and of plugins). Sequences prescribe exactly 1.0 for components that had another factor in an
    earlier step (grow / hold / shrink back; g, 1, 1, h; one group of components per step; subsets of components or of
    blocks per step). Every step: the factor in force for a component is what THIS step prescribes (1.0 = no change), the
    boundaries move by exactly these factors, a hold changes nothing; the end of a closed sequence restores heights,
    densities and masses; and a fresh changer / ExpansionData per step on a twin assembly gives the same states."""
    fx = fixtures()
    with common.quiet():
        built = [build_assembly(k, [16.0] * (len(k) + 1), tp) for k, tp in
                 ((["fuel", "holedslab", "slab"], "fluid"), (["customfuel", "fuel", "pinslab61"], "duct+socket"),
                  (["slab", "fuel", "fuel", "holedslab"], "duct"))]
    for b_, tp in zip(built, ("fluid", "duct+socket", "duct")):
        TOP_TAG[id(b_)] = tp
    everything = list(fx["assems"]) + top_pool(ctx) + built
    nocontrol = [x for x in everything if "control" not in x.getType()]
    req, chk = collect
    for it in range(ctx.pick(30, 300)):
        pattern = REUSE_PATTERNS[it % len(REUSE_PATTERNS)]
        # (per-component growth drives the 1 cm blocks of the control assemblies negative: known finding, exercised elsewhere)
        a0 = ctx.rng.choice(everything if pattern.startswith("grow") else nocontrol)
        a, twin = copy.deepcopy(a0), copy.deepcopy(a0)
        chg, snapshot, iterSolid = make_changer()
        H0, top0 = a.getTotalHeight(), float(a[-1].p.ztop)
        budget = [0, 0]
        try:
            with common.quiet():
                chg.setAssembly(a, True)            # ONCE
        except Exception as e:  # noqa
            ctx.fail("expansion-raises", "a physical expansion of an assembly with a dummy block succeeds",
                     {"assembly": label(a0), "mode": "reused-expansion-data"}, observed=repr(e)[:300])
            continue
        ed = chg.expansionData
        sol = [(ib, ic, c) for ib, b in enumerate(a[:-1]) for ic, c in enumerate(iterSolid(b))]
        comp_at = {(ib, ic): c for ib, ic, c in sol}
        steps, uniform = reuse_steps(ctx, sol, pattern)
        start = snapshot(a)
        ok = True
        pre0, sent, states, tstates = None, [], [], []
        for k, st in enumerate(steps):
            keys = sorted(st)
            ctx.rng.shuffle(keys)
            fr = [st[kk] for kk in keys]
            case = {"assembly": label(a0), "mode": "reused-expansion-data", "pattern": pattern, "step": k, "of": len(steps),
                    "listed": len(keys), "factors": sorted(set(fr))[:6]}
            chg.pre = None
            try:
                with common.quiet():
                    ed.setExpansionFactors([comp_at[kk] for kk in keys], fr)
                    chg.axiallyExpandAssembly()
            except Exception as e:  # noqa
                ctx.fail("expansion-raises", "a physical expansion of an assembly with a dummy block succeeds", case,
                         observed=repr(e)[:300])
                ok = False
                break
            pre, post = chg.pre, snapshot(a)
            if pre0 is None:
                pre0 = pre
            sent.append((keys, fr))
            states.append((post, [float(x) for x in a.spatialGrid._bounds[2]]))
            oracle_step(ctx, case, a, pre, post, masses(pre), H0, top0, "uniform" if uniform else "percomp", budget)
            hold = all(v == 1.0 for v in st.values())
            for ib in range(len(pre) - 1):
                for ic, c in enumerate(pre[ib]["comps"]):
                    want = st.get((ib, ic), 1.0)
                    if c["g"] != want:
                        ctx.fail("step-factor-is-this-steps-prescription", "in every step of a re-used ExpansionData the factor in "
                                 "force for a component is the one prescribed in THIS step (exactly 1.0 included; 1.0 for a "
                                 "component that was never listed or was last prescribed 1.0)",
                                 dict(case, block=ib, comp=c["name"]), observed=c["g"], expected=want)
                t = pre[ib]["targets"]
                chain = all(pre[jb]["targets"] and aligned(pre, jb, pre[jb]["targets"][0]) for jb in range(ib + 1))
                if t and chain:
                    want = st.get((ib, t[0]), 1.0)
                    exp_h = want * pre[ib]["h"]
                    if not fclose(post[ib]["h"], exp_h, 1e-12):
                        ctx.fail("step-moves-boundaries-by-this-steps-factors", "a block whose target sits on the block below "
                                 "grows by exactly the factor prescribed for its target in this step (1.0: not at all)",
                                 dict(case, block=ib), observed=post[ib]["h"], expected=exp_h)
                if hold:
                    same = fclose(post[ib]["h"], pre[ib]["h"], 1e-13) and fclose(post[ib]["zt"], pre[ib]["zt"], 1e-13) and all(
                        fclose(cq["nd"], cp["nd"], 1e-15) and fclose(cq["mass"], cp["mass"], 1e-12)
                        for cp, cq in zip(pre[ib]["comps"], post[ib]["comps"]))
                    if not same:
                        ctx.fail("hold-step-changes-nothing", "a step that prescribes exactly 1.0 for everything that moved before "
                                 "leaves heights, elevations, densities and masses as they are", dict(case, block=ib),
                                 observed=[post[ib]["h"], post[ib]["zt"]], expected=[pre[ib]["h"], pre[ib]["zt"]])
            # the same step through a FRESH changer / ExpansionData on the twin
            fresh, _s, _i = make_changer()
            try:
                with common.quiet():
                    fresh.setAssembly(twin, True)
                    tw_at = {(ib, ic): c for ib, b in enumerate(twin[:-1]) for ic, c in enumerate(iterSolid(b))}
                    fresh.expansionData.setExpansionFactors([tw_at[kk] for kk in keys], fr)
                    fresh.axiallyExpandAssembly()
            except Exception as e:  # noqa
                ctx.fail("expansion-raises", "a physical expansion of an assembly with a dummy block succeeds", case, observed=repr(e)[:200])
                ok = False
                break
            tw = snapshot(twin)
            tstates.append((tw, [float(x) for x in twin.spatialGrid._bounds[2]]))
            for ib, (x, y) in enumerate(zip(post, tw)):
                if not same_state(x, y):
                    ctx.fail("reused-expansion-data-equals-fresh-per-step", "one ExpansionData used for successive steps and a "
                             "fresh one per step give the same states", dict(case, block=ib),
                             observed=[x["h"], x["zt"]], expected=[y["h"], y["zt"]])
            safe_request(ctx, case, pre, req, chk, (case, pre, post, [float(x) for x in a.spatialGrid._bounds[2]]))
            ctx.count(f"reused ExpansionData: pattern {pattern}")
            ctx.count("reused ExpansionData: " + ("hold step (all listed exactly 1.0)" if hold else "moving step"))
            ctx.case(("reuse", label(a0), pattern, it, k), nontrivial=True)
        if pre0 is not None and len(tstates) == len(states):
            # the whole history through the model's state machine, both routes (function runReuse / runFresh)
            try:
                rcase = {"assembly": label(a0), "mode": "reused-expansion-data", "pattern": pattern, "steps": len(states)}
                ROUTES[0].append(route_request("reuse", pre0, sent))
                ROUTES[1].append((dict(rcase, route="one ExpansionData for all steps"), states))
                ROUTES[0].append(route_request("fresh", pre0, sent))
                ROUTES[1].append((dict(rcase, route="fresh ExpansionData per step"), tstates))
            except Exception as e:  # noqa
                ctx.fail("expansion-state-not-evaluable", "the state before an expansion consists of finite numbers",
                         {"assembly": label(a0)}, observed=repr(e)[:200])
        if not ok:
            continue
        end = snapshot(a)
        al = chg.pre
        case = {"assembly": label(a0), "mode": "reused-expansion-data", "pattern": pattern, "steps": len(steps)}
        if pattern == "grow-hold-hold-grow":
            # net factor g*h per block: heights and densities of every block (uniform growth keeps everything flat)
            for ib in range(len(start) - 1):
                f = steps[0][(ib, 0)] * steps[-1][(ib, 0)] if (ib, 0) in steps[0] else 1.0
                if not fclose(end[ib]["h"], f * start[ib]["h"], 1e-11):
                    ctx.fail("sequence-net-growth", "g, 1.0, 1.0, h leaves every block at g*h times its height", dict(case, block=ib),
                             observed=end[ib]["h"], expected=f * start[ib]["h"])
                for cs, ce in zip(start[ib]["comps"], end[ib]["comps"]):
                    if not fclose(ce["nd"] * f, cs["nd"], 1e-11) or not fclose(cs["mass"], ce["mass"], 1e-10):
                        ctx.fail("sequence-net-growth", "... densities divided by g*h, masses unchanged",
                                 dict(case, block=ib, comp=cs["name"]), observed=[ce["nd"], ce["mass"]], expected=[cs["nd"] / f, cs["mass"]])
            continue
        for ib in range(len(start) - 1):
            for cs, ce in zip(start[ib]["comps"], end[ib]["comps"]):
                if not fclose(cs["nd"], ce["nd"], 1e-11):
                    ctx.fail("sequence-inverse-restores-densities", "a sequence followed by its exact inverse restores the "
                             "number densities", dict(case, block=ib, comp=cs["name"]), observed=ce["nd"], expected=cs["nd"])
            t = al[ib]["targets"]
            chain = all(al[jb]["targets"] and aligned(al, jb, al[jb]["targets"][0]) for jb in range(ib + 1))
            if uniform or (t and chain):
                if not fclose(start[ib]["h"], end[ib]["h"], 1e-10) or not fclose(start[ib]["zt"], end[ib]["zt"], 1e-10):
                    ctx.fail("sequence-inverse-restores-heights", "a sequence followed by its exact inverse restores the "
                             "heights (blocks whose targets sit on the block below)", dict(case, block=ib),
                             observed=[end[ib]["h"], end[ib]["zt"]], expected=[start[ib]["h"], start[ib]["zt"]])
                for ic, (cs, ce) in enumerate(zip(start[ib]["comps"], end[ib]["comps"])):
                    if (uniform or [ic] == t) and not fclose(cs["mass"], ce["mass"], 1e-10):
                        ctx.fail("sequence-inverse-restores-masses", "... and the masses (all solids under uniform growth, the "
                                 "target otherwise)", dict(case, block=ib, comp=cs["name"]), observed=ce["mass"], expected=cs["mass"])
        all_chain = all(al[jb]["targets"] and aligned(al, jb, al[jb]["targets"][0]) for jb in range(len(al) - 1))
        if (uniform or all_chain) and not fclose(end[-1]["h"], start[-1]["h"], 1e-10):
            ctx.fail("sequence-inverse-restores-heights", "... and the height of the top block", dict(case, block=len(start) - 1),
                     observed=end[-1]["h"], expected=start[-1]["h"])


def run_store(ctx):
    """function-level tie of ExpansionData.setExpansionFactors / getExpansionFactor: call sequences on ONE real
    ExpansionData (listed subsets with repeated components, exactly 1.0 after another value, refused calls: a zero or
    negative factor anywhere in the list, lists of different lengths) against Model/AxialExp.lean setExpansionFactors /
    getFactor; after every call the factor of every component is read back"""
    from armi.reactor.converters.axialExpansionChanger.expansionData import ExpansionData

    fx = fixtures()
    req, chk = LINK
    for _ in range(ctx.pick(40, 400)):
        a = copy.deepcopy(ctx.rng.choice(fx["assems"] + top_pool(ctx)[:3]))
        with common.quiet():
            ed = ExpansionData(a, True, False)
        comps = [c for b in a for c in solids(b)]
        ctx.rng.shuffle(comps)
        comps = comps[:ctx.rng.randint(2, 8)]
        n = len(comps)
        calls, out, hist = [], [], []
        for _k in range(ctx.rng.randint(2, 8)):
            u = ctx.rng.random()
            m = ctx.rng.randint(0, n + 2)
            ks = [ctx.rng.randrange(n) for _ in range(m)]
            fr = [ctx.rng.choice([1.0, 1.0, 1.0 + ctx.rng.randint(-40, 60) / 256.0, ctx.rng.randint(1, 512) / 256.0]) for _ in ks]
            kind = "valid"
            if u < 0.12 and fr:
                fr[ctx.rng.randrange(len(fr))] = 0.0
                kind = "zero factor"
            elif u < 0.24 and fr:
                fr[ctx.rng.randrange(len(fr))] = -ctx.rng.randint(1, 300) / 256.0
                kind = "negative factor"
            elif u < 0.34:
                if ctx.rng.random() < 0.5 and fr:
                    fr = fr[:-1]
                else:
                    fr = fr + [1.0 + ctx.rng.randint(-3, 3) / 256.0]
                kind = "different lengths"
            case = {"what": "setExpansionFactors / getExpansionFactor", "calls_before": list(hist), "kind": kind, "listed": ks, "factors": fr}
            try:
                with common.quiet():
                    ed.setExpansionFactors([comps[i] for i in ks], fr)
                flag = "K"
            except RuntimeError:
                flag = "R"
            except Exception as e:  # noqa
                ctx.fail("set-expansion-factors-unexpected-exception", "setExpansionFactors stores the factors or refuses with "
                         "RuntimeError", case, observed=repr(e)[:200])
                break
            if (flag == "R") != (kind != "valid"):
                ctx.fail("set-expansion-factors-validation", "setExpansionFactors refuses exactly the calls with a non-positive "
                         "factor or lists of different lengths", case, observed=flag)
            got = [float(ed.getExpansionFactor(c)) for c in comps]
            calls.append("[[" + ",".join(f"[0,{i}]" for i in ks) + "]," + ratlist(fr) + "]")
            out.append(flag + ratlist(got))
            hist.append(kind)
            ctx.count("setExpansionFactors call: " + kind)
        else:
            req.append(f"store {n} [" + ",".join(calls) + "]")
            chk.append(({"what": "setExpansionFactors / getExpansionFactor call sequence", "kinds": hist}, ";".join(out)))
            ctx.case(("store", tuple(calls)), nontrivial=True)


def run_blocktemps(ctx):
    """function-level tie of ExpansionData.updateComponentTempsBy1DTempField (which grid points count for a block, the
    early stop, the mean, the refusals) against Model/AxialExp.lean blockTemps: real assemblies, temperature grids that
    are fine / coarse / hit block boundaries exactly / stop short of the top / of different length than the field"""
    from armi.reactor.converters.axialExpansionChanger.expansionData import ExpansionData

    fx = fixtures()
    req, chk = LINK
    for _ in range(ctx.pick(40, 400)):
        a = copy.deepcopy(ctx.rng.choice(fx["assems"] + top_pool(ctx)[:2]))
        with common.quiet():
            ed = ExpansionData(a, True, False)
        zbs, zts = [float(b.p.zbottom) for b in a], [float(b.p.ztop) for b in a]
        H = zts[-1]
        kind = ctx.rng.choice(["fine", "boundaries", "boundaries+mid", "coarse", "short", "lengths", "jittered"])
        if kind == "fine":
            grid = [H * i / 64.0 for i in range(65)]
        elif kind == "boundaries":
            grid = [0.0] + zts
        elif kind == "boundaries+mid":
            grid = sorted(set([0.0] + zts + [(x + y) / 2.0 for x, y in zip(zbs, zts)]))
        elif kind == "coarse":
            grid = [H * i / 4.0 for i in range(5)]
        elif kind == "short":
            grid = [H * i / 64.0 for i in range(ctx.rng.randint(20, 60))]
        elif kind == "jittered":
            grid = sorted(H * ctx.rng.randint(0, 1024) / 1024.0 for _ in range(ctx.rng.randint(8, 40)))
        else:
            grid = [H * i / 32.0 for i in range(33)]
        field = [float(ctx.rng.randint(300, 700)) + ctx.rng.randint(0, 3) / 4.0 for _ in grid]
        if kind == "lengths":
            field = field[:-1] if ctx.rng.random() < 0.5 else field + [500.0]
        case = {"what": "updateComponentTempsBy1DTempField", "assembly": a.getType(), "grid": kind, "points": len(grid)}
        try:
            with common.quiet():
                ed.updateComponentTempsBy1DTempField(list(grid), list(field))
            temps = []
            for b in a:
                ts = {float(c.temperatureInC) for c in b}
                if len(ts) != 1:
                    ctx.fail("thermal-temperature-applied", "components take the block-average temperature", case, observed=sorted(ts)[:4])
                temps.append(sorted(ts)[0])
            # the property's clause, directly: the mean of the field values whose grid point lies within the block
            for b, zb, zt, t in zip(a, zbs, zts, temps):
                pts = [f for z, f in zip(grid, field) if zb <= z <= zt]
                if not pts or not fclose(t, sum(pts) / len(pts), 1e-12):
                    ctx.fail("block-temperature-is-mean-of-points-within", "a block's temperature is the mean of the field values "
                             "at the grid points within the block", dict(case, block=b.getType()), observed=t,
                             expected=(sum(pts) / len(pts)) if pts else None)
            out = None
        except (ValueError, RuntimeError):
            out = "reject"
        if out is None:
            exp = temps
        req.append(f"blocktemps {ratlist(zbs)} {ratlist(zts)} {ratlist(grid)} {ratlist(field)}")
        chk.append((case, out if out else ("~", exp)))
        ctx.count("block temperature field: " + kind + (" (refused)" if out else ""))
        ctx.case(("blocktemps", a.getType(), kind, tuple(grid[:5]), tuple(field[:5])), nontrivial=True)


def material_factor(c, t_from, t_to):
    """(100 + p(T1)) / (100 + p(T0)) from the material's expansion curve; t_from None = the input temperature"""
    return expected_factor(c, float(c.inputTemperatureInC) if t_from is None else t_from, t_to)


def run_thermal_dispatch(ctx):
    """function-level tie of the thermal part of ExpansionData: random sequences of updateComponentTemp (single
    components, temperatures including exactly 0.0 and the current one), updateComponentTempsBy1DTempField (resets the
    references, block averages, refusals) and computeThermalExpansionFactors, with expandFromTinputToThot on and off.
    The model (factorSpec) says WHICH expansion the material is asked for (none / input -> T / T0 -> T); the harness
    evaluates that on the material's own curve and compares with the factor the real object stored."""
    from armi.reactor.converters.axialExpansionChanger.expansionData import ExpansionData

    fx = fixtures()
    temps_pool = [0.0, 0.0, 25.0, 250.0, 300.0, 400.5, 525.0]
    reqs, chks = [], []
    for _ in range(ctx.pick(30, 300)):
        a = copy.deepcopy(ctx.rng.choice(fx["assems"] + top_pool(ctx)[:3]))
        from_input = ctx.rng.random() < 0.3
        with common.quiet():
            ed = ExpansionData(a, True, from_input)
        keys = [(ib, ic, c) for ib, b in enumerate(a) for ic, c in enumerate(solids(b))]
        zbs, zts = [float(b.p.zbottom) for b in a], [float(b.p.ztop) for b in a]
        H = zts[-1]
        t0 = [float(c.temperatureInC) for _ib, _ic, c in keys]
        ops, reads, kinds = [], [], []
        refused = False
        for _k in range(ctx.rng.randint(3, 10)):
            u = ctx.rng.random()
            if u < 0.5:
                ib, ic, c = ctx.rng.choice(keys)
                T = ctx.rng.choice(temps_pool + [float(c.temperatureInC)])
                with common.quiet():
                    ed.updateComponentTemp(c, T)
                ops.append(f"[0,{ib},{ic},{rat(T)}]")
                kinds.append("updateComponentTemp")
            elif u < 0.68:
                n = ctx.rng.choice([9, 65, 129])
                grid = [H * i / (n - 1) for i in range(n)]
                base, slope = ctx.rng.choice(temps_pool), ctx.rng.choice([0.0, 0.0, 0.5])
                field = [base + slope * ctx.rng.randint(0, 200) for _z in grid]
                ops.append(f"[2,{ratlist(grid)},{ratlist(field)}]")
                kinds.append("updateComponentTempsBy1DTempField")
                try:
                    with common.quiet():
                        ed.updateComponentTempsBy1DTempField(grid, field)
                except ValueError:
                    refused = True
                    kinds[-1] += " (refused)"
                    break
            else:
                with common.quiet():
                    ed.computeThermalExpansionFactors()
                ops.append("[1]")
                kinds.append("computeThermalExpansionFactors")
                reads.append([float(ed.getExpansionFactor(c)) for _ib, _ic, c in keys])
        for kd in kinds:
            ctx.count("thermal dispatch op: " + kd)
        reqs.append(f"thermal {'T' if from_input else 'F'} {ratlist(zbs)} {ratlist(zts)} "
                    f"[{','.join(f'[{ib},{ic}]' for ib, ic, _c in keys)}] {ratlist(t0)} [{','.join(ops)}]")
        chks.append(({"what": "thermal factor dispatch", "assembly": a.getType(), "expandFromTinputToThot": from_input, "ops": kinds},
                     keys, reads, refused))
        ctx.case(("thermal-dispatch", a.getType(), from_input, tuple(kinds), tuple(ops[:3])), nontrivial=True)
    model = lean_run("AxialExp", reqs)
    for (case, keys, reads, refused), line, rq in zip(chks, model, reqs):
        parts = [x for x in line.split(";") if x] if line else []
        if refused:
            if not parts or parts[-1] != "reject":
                ctx.disagree("Model/AxialExp.lean updateByField vs updateComponentTempsBy1DTempField (refusal)", dict(case, request=rq[:300]),
                             line[-120:], "raises ValueError")
                continue
            parts = parts[:-1]
        if len(parts) != len(reads) or "bad-op" in parts or "reject" in parts:
            ctx.disagree("Model/AxialExp.lean thermal ops vs ExpansionData", dict(case, request=rq[:300]), line[:200], f"{len(reads)} reads")
            continue
        for specs, got in zip(parts, reads):
            sp = specs[1:-1].split(",") if len(specs) > 2 else []
            bad = None
            if len(sp) != len(got):
                bad = "number of components"
            else:
                for (ib, ic, c), spec, g in zip(keys, sp, got):
                    try:
                        if spec == "1":
                            exp = 1.0
                        elif spec.startswith("in:"):
                            exp = material_factor(c, None, float(Fraction(spec[3:])))
                        else:
                            x0, x1 = spec.split(":")
                            exp = material_factor(c, float(Fraction(x0)), float(Fraction(x1)))
                    except Exception as e:  # noqa
                        bad = f"spec {spec}: {e!r}"
                        break
                    if not fclose(g, exp, 1e-12):
                        bad = f"block {ib} {c.name}: stored factor {g}, the model asks the material for {spec} = {exp}"
                        break
            if bad:
                ctx.disagree("Model/AxialExp.lean factorSpec vs _perComponentThermalExpansionFactors", dict(case, request=rq[:300]),
                             bad, "see message")
                break
    ctx.evaluations += len(reqs)
    ctx.count("thermal dispatch model requests", len(reqs))
    if reqs:
        ctx.samples.append({"request": reqs[0][:300], "model": model[0][:200]})


def run_core_mesh(ctx):
    """WITHOUT detailed axial expansion: assemblies of a whole core (the reference assembly among them) are expanded,
    then AxialExpansionChanger.manageCoreMesh(r) brings the core onto the reference assembly's mesh
    (Assembly.setBlockMesh, conserveMassFlag="auto"; Core.updateAxialMesh). The clauses about heights on every assembly
    of the core afterwards, and the core's axial mesh = the elevations of its reference assembly."""
    import os
    from armi.reactor.converters.axialExpansionChanger import AxialExpansionChanger
    from armi.reactor.tests.test_reactors import loadTestReactor
    from armi.tests import TEST_ROOT

    for it in range(ctx.pick(2, 10)):
        with common.scratch_dir(), common.quiet():
            _o, r = loadTestReactor(os.path.join(TEST_ROOT, "detailedAxialExpansion"))
        ref = r.core.refAssem
        H = {a.getName(): a.getTotalHeight() for a in r.core}
        others = [a for a in r.core if a is not ref]
        moved = [ref] + ctx.rng.sample(others, 3)
        if ctx.rng.random() < 0.5:      # a solid-carrying top block on some of them
            for a in ctx.rng.sample(list(r.core), 4):
                add_top_solids(a, ctx.rng.choice(TOP_VARIANTS[:4]))
        chg = AxialExpansionChanger(detailedAxialExpansion=False)
        case = {"mode": "manageCoreMesh after expanding the reference assembly and three others", "it": it}
        try:
            with common.quiet():
                for a in moved:
                    per = {id(b): 1.0 + ctx.rng.randint(-6, 8) / 256.0 for b in a}
                    comps = [c for b in a[:-1] for c in solids(b)]
                    chg.performPrescribedAxialExpansion(a, comps, [per[id(c.parent)] for c in comps], setFuel=True)
                chg.manageCoreMesh(r)
        except Exception as e:  # noqa
            ctx.fail("expansion-raises", "a physical expansion of an assembly with a dummy block succeeds", case, observed=repr(e)[:300])
            continue
        for a in r.core:
            height_clauses(ctx, dict(case, assembly=a.getType()), a, H[a.getName()])
        core_mesh = [float(z) for z in r.core.p.axialMesh]
        ref_mesh = [0.0] + [float(b.p.ztop) for b in ref]
        if len(core_mesh) != len(ref_mesh) or not all(fclose(x, y, 1e-12) for x, y in zip(core_mesh, ref_mesh)):
            ctx.fail("core-mesh-is-reference-elevations", "the core's axial mesh equals the elevations of its reference assembly",
                     case, observed=core_mesh, expected=ref_mesh)
        ctx.count("manageCoreMesh on a whole core (no detailed axial expansion)")
        ctx.case(("core-mesh", it, tuple(round(z, 9) for z in ref_mesh)), nontrivial=True)


def target_request(b, set_fuel):
    """`target` request of the model for one real block (what run_targets sends): flags of the block and of all its
    children, the explicit designation as a child index"""
    from armi.reactor.converters.axialExpansionChanger.expansionData import TARGET_FLAGS_IN_PREFERRED_ORDER
    from armi.reactor.flags import Flags
    from armi.materials import material as mat_mod

    F = [flag_int(x) for x in (Flags.PLENUM, Flags.ACLP, Flags.DUMMY, Flags.FUEL, Flags.CLAD)]
    pref = "[" + ",".join(str(flag_int(x)) for x in TARGET_FLAGS_IN_PREFERRED_ORDER) + "]"
    children = list(b)
    cs = "[" + ",".join(f"[{flag_int(c.p.flags)},{int(not isinstance(c.material, mat_mod.Fluid))}]" for c in children) + "]"
    explicit = b.p.axialExpTargetComponent
    if not explicit:
        ex = "-"
    else:
        hits = [k for k, c in enumerate(children) if c.name == explicit]
        ex = str(hits[0]) if len(hits) == 1 else "x"
    return (f"target {F[0]} {F[1]} {F[2]} {F[3]} {F[4]} {pref} {'T' if set_fuel else 'F'} {flag_int(b.p.flags)} {ex} {cs}", children)


def run_retarget(ctx, collect):
    """the designated target of a block is CHANGED between expansions of the same assembly (Block.setAxialExpTargetComp /
    Block.p.axialExpTargetComponent): to a component later in the block's component order, to an earlier one (clad ->
    fuel), back again; every expansion with a brand-new AxialExpansionChanger / ExpansionData and per-component growth
    (the old and the new target grow differently). The targets of an expansion are exactly the currently designated
    components, the boundary follows them, their mass is conserved; and the model's target selection - a function of the
    block as it is now - is compared with what the new ExpansionData reports on these same objects."""
    from armi.reactor.converters.axialExpansionChanger.expansionData import ExpansionData

    fx = fixtures()
    pool = [x for x in fx["assems"] + top_pool(ctx) if "control" not in x.getType()]
    with common.quiet():
        pool += [build_assembly(k, [16.0] * (len(k) + 1)) for k in (["fuel", "fuel", "slab"], ["customfuel", "fuel", "holedslab"])]
    lreq, lchk = LINK
    for it in range(ctx.pick(14, 150)):
        a0 = ctx.rng.choice(pool)
        a = copy.deepcopy(a0)
        H0, top0 = a.getTotalHeight(), float(a[-1].p.ztop)
        budget = [0, 0]
        nsteps = ctx.rng.randint(2, 4)
        order = ctx.rng.choice(["later-then-earlier", "later-then-earlier", "earlier-then-later", "random"])
        for k in range(nsteps):
            # (re-)designate: per block one of its solids, walking through the block's component order
            changed = []
            for ib, b in enumerate(a[:-1]):
                sol = solids(b)
                if len(sol) < 2 or ctx.rng.random() < 0.25:
                    continue
                if order == "random":
                    c = ctx.rng.choice(sol)
                else:
                    late = (k % 2 == 0) == (order == "later-then-earlier")
                    c = sol[-1 - ctx.rng.randrange(max(1, len(sol) // 2))] if late else sol[ctx.rng.randrange(max(1, len(sol) // 2))]
                if [x.name for x in sol].count(c.name) != 1:
                    continue
                if ctx.rng.random() < 0.5:
                    b.setAxialExpTargetComp(c)
                else:
                    b.p.axialExpTargetComponent = c.name
                changed.append((ib, c.name))
            chg, snapshot, iterSolid = make_changer()       # brand new: linkage, ExpansionData, targets
            set_fuel = ctx.rng.random() < 0.5
            comps = [c for b in a[:-1] for c in iterSolid(b)]
            pcts = [1.0 + ctx.rng.choice([-5, -4, -3, -2, -1, 1, 2, 3, 4, 5, 6]) / 256.0 for _ in comps]
            case = {"assembly": label(a0), "mode": "re-designated targets", "step": k, "order": order,
                    "designations": changed[:6], "setFuel": set_fuel}
            chg.pre = None
            try:
                with common.quiet():
                    chg.performPrescribedAxialExpansion(a, comps, pcts, setFuel=set_fuel)
            except ArithmeticError:
                ctx.count("refused: negative block height after per-component growth")
                break
            except Exception as e:  # noqa
                ctx.fail("expansion-raises", "a physical expansion of an assembly with a dummy block succeeds", case,
                         observed=repr(e)[:300])
                break
            pre, post = chg.pre, snapshot(a)
            oracle_step(ctx, case, a, pre, post, masses(pre), H0, top0, "percomp", budget)
            if all(len(b["targets"]) <= 1 for b in pre):
                safe_request(ctx, case, pre, collect[0], collect[1], (case, pre, post, [float(x) for x in a.spatialGrid._bounds[2]]))
            # the model's choice for every block as it is NOW vs a further brand-new ExpansionData on the same objects
            try:
                with common.quiet():
                    ed = ExpansionData(a, set_fuel, False)
            except Exception as e:  # noqa
                ctx.fail("expansion-raises", "target selection succeeds on an assembly that was just expanded", case, observed=repr(e)[:200])
                break
            for ib, b in enumerate(a[:-1]):
                rq, children = target_request(b, set_fuel)
                tg = [j for j, c in enumerate(children) if ed.isTargetComponent(c)]
                if len(tg) > 1:
                    ctx.fail("target-unique", "a block has at most one target component", dict(case, block=ib),
                             observed=[children[j].name for j in tg])
                    continue
                lreq.append(rq)
                lchk.append((dict(case, block=ib, what="target component after re-designation"), "none" if not tg else str(tg[0])))
            ctx.count("re-designated targets: " + order)
            ctx.case(("retarget", label(a0), it, k, order, tuple(changed)), nontrivial=bool(changed))


def alias_compositions(ctx, a, how=None):
    """make solid components SHARE one numberDensities dict object, the ways the public API does it: direct assignment of
    another component's parameter value (c2.p.numberDensities = c1.p.numberDensities; within a block: components of the
    same material; across blocks: the same pin in the block above), or a clone through updateParamsFrom / copyParamsFrom
    of the same pin in the block below (all parameter VALUES are shared by reference). Returns the aliased pairs."""
    pairs = []
    blocks = list(a[:-1])
    for ib, b in enumerate(blocks):
        sol = solids(b)
        u = ctx.rng.random()
        method = how or ("within" if u < 0.4 else ("across" if u < 0.7 else ("update" if u < 0.85 else "copy")))
        if method == "within":
            by_mat = {}
            for c in sol:
                by_mat.setdefault(type(c.material).__name__, []).append(c)
            groups = [g for g in by_mat.values() if len(g) >= 2]
            if not groups:
                continue
            g = ctx.rng.choice(groups)
            c1, c2 = ctx.rng.sample(g, 2)
            if sorted(c1.getNumberDensities()) != sorted(c2.getNumberDensities()):
                continue
            c2.p.numberDensities = c1.p.numberDensities
            pairs.append((ib, c1.name, ib, c2.name, method))
        elif ib + 1 < len(blocks):
            up = blocks[ib + 1]
            for c1 in sol:
                twins = [c for c in solids(up) if c.name == c1.name and type(c) is type(c1) and
                         type(c.material) is type(c1.material)]
                if len(twins) != 1:
                    continue
                c2 = twins[0]
                if method == "across":
                    c2.p.numberDensities = c1.p.numberDensities
                elif all(c1.getDimension(k) == c2.getDimension(k) for k in c1.DIMENSION_NAMES) and \
                        c1.temperatureInC == c2.temperatureInC:
                    # a clone of an identical pin: every parameter value by reference
                    if method == "update":
                        c2.updateParamsFrom(c1)
                    else:
                        c2.copyParamsFrom(c1)
                else:
                    continue
                c2.clearCache()
                pairs.append((ib, c1.name, ib + 1, c2.name, method))
                break
    return pairs


def run_aliased(ctx, collect):
    """ALIASED COMPOSITIONS: solid components sharing one numberDensities dict object, then expansions with growth != 1:
    after EVERY SINGLE step each component's density is 1/g of what it was (not 1/g^2), target and uniformly grown
    components keep their mass (the clauses of oracle_step), and the result equals that of a twin assembly whose
    components each own their dict; the aliasing is renewed before later steps wherever the compositions are still equal"""
    fx = fixtures()
    pool = fx["assems"] + top_pool(ctx)
    with common.quiet():
        pool += [build_assembly(k, [16.0] * (len(k) + 1)) for k in (["fuel", "fuel", "fuel", "slab"], ["slab", "slab", "holedslab"])]
    for it in range(ctx.pick(24, 250)):
        mode = ctx.rng.choice(["uniform", "uniform", "percomp", "thermal"])
        a0 = ctx.rng.choice(pool if mode != "percomp" else [x for x in pool if "control" not in x.getType()])
        a, twin = copy.deepcopy(a0), copy.deepcopy(a0)
        how = ctx.rng.choice([None, None, "within", "across", "update", "copy"])
        with common.quiet():
            pairs = alias_compositions(ctx, a, how)
        if not pairs:
            continue
        H0, top0 = a.getTotalHeight(), float(a[-1].p.ztop)
        budget = [0, 0]
        chg, snapshot, iterSolid = make_changer()
        ref, _s, _i = make_changer()
        s0, t0 = snapshot(a), snapshot(twin)
        if any(not same_state(x, y, 1e-14) for x, y in zip(s0, t0)):
            ctx.count("aliasing changed the state (compositions differed): skipped")
            continue
        for k in range(ctx.rng.randint(1, 3)):
            case = {"assembly": label(a0), "mode": "aliased-compositions-" + mode, "step": k, "aliased": [list(p) for p in pairs[:5]]}
            comps = [(ib, c) for ib, b in enumerate(a[:-1]) for c in iterSolid(b)]
            comps2 = [c for b in twin[:-1] for c in iterSolid(b)]
            chg.pre = None
            try:
                with common.quiet():
                    if mode == "thermal":
                        T = ctx.rng.choice([300.0, 350.0, 500.0, 525.0, 600.0])
                        grid = np.linspace(0.0, H0, 3000)
                        case["T"] = T
                        chg.performThermalAxialExpansion(a, list(grid), [T] * 3000, setFuel=True)
                        ref.performThermalAxialExpansion(twin, list(grid), [T] * 3000, setFuel=True)
                    else:
                        if mode == "uniform":
                            per = {ib: 1.0 + ctx.rng.choice([-8, -5, -3, 2, 4, 7, 12]) / 256.0 for ib in range(len(a))}
                            pcts = [per[ib] for ib, _c in comps]
                        else:
                            pcts = [1.0 + ctx.rng.choice([-5, -3, -2, 2, 3, 5, 6]) / 256.0 for _ in comps]
                        case["percents"] = pcts[:8]
                        chg.performPrescribedAxialExpansion(a, [c for _ib, c in comps], pcts, setFuel=True)
                        ref.performPrescribedAxialExpansion(twin, comps2, pcts, setFuel=True)
            except ArithmeticError:
                ctx.count("refused: negative block height after per-component growth")
                break
            except Exception as e:  # noqa
                ctx.fail("expansion-raises", "a physical expansion of an assembly with a dummy block succeeds", case,
                         observed=repr(e)[:300])
                break
            pre, post, tw = chg.pre, snapshot(a), snapshot(twin)
            oracle_step(ctx, case, a, pre, post, masses(pre), H0, top0, "uniform" if mode == "uniform" else "percomp", budget)
            for ib, (x, y) in enumerate(zip(post, tw)):
                if not same_state(x, y, 1e-12):
                    bad = [cx["name"] for cx, cy in zip(x["comps"], y["comps"]) if not fclose(cx["nd"], cy["nd"], 1e-12)]
                    ctx.fail("aliased-compositions-equal-own-compositions", "components that share one composition object expand "
                             "like components that each own theirs", dict(case, block=ib, comps=bad[:4]),
                             observed=[x["h"]] + [cx["nd"] for cx in x["comps"]][:4], expected=[y["h"]] + [cy["nd"] for cy in y["comps"]][:4])
            safe_request(ctx, case, pre, collect[0], collect[1], (case, pre, post, [float(x) for x in a.spatialGrid._bounds[2]]))
            ctx.count("aliased compositions: " + mode)
            for p in pairs:
                ctx.count("aliased compositions by: " + p[4])
            ctx.case(("aliased", label(a0), it, k, mode, tuple(pairs[:3])), nontrivial=True)
            # renew the aliasing where the two compositions are still the same (after uniform / equal growth)
            for (ib1, n1, ib2, n2, _m) in pairs:
                c1 = [c for c in solids(a[ib1]) if c.name == n1][0]
                c2 = [c for c in solids(a[ib2]) if c.name == n2][0]
                d1, d2 = c1.getNumberDensities(), c2.getNumberDensities()
                if sorted(d1) == sorted(d2) and all(d1[q] == d2[q] for q in d1):
                    c2.p.numberDensities = c1.p.numberDensities


def run_alias_cells(ctx):
    """function-level tie of Component.changeNDensByFactor under sharing: n freshly built components refer to m <= n
    composition dict objects in a random pattern (direct assignment of p.numberDensities, or updateParamsFrom /
    copyParamsFrom of the owner), the first components are scaled in turn, every component's density is read back;
    Model/AxialExp.lean changeAll / densitiesAfter gets the same cells and factors"""
    from armi.reactor.components.basicShapes import Circle

    req, chk = LINK
    T = {"Tinput": 25.0, "Thot": 400.0}
    for _ in range(ctx.pick(60, 600)):
        n = ctx.rng.randint(2, 6)
        mat = ctx.rng.choice(["HT9", "UZr", "HT9"])
        with common.quiet():
            comps = [Circle(f"c{j}", mat, od=0.8, id=0.0, mult=7.0, **T) for j in range(n)]
            for c in comps:
                c.changeNDensByFactor(ctx.rng.randint(64, 512) / 256.0)
        nuc = sorted(k for k, v in comps[0].getNumberDensities().items() if v > 0)[0]
        m = ctx.rng.randint(1, n)
        base = [comps[i].p.numberDensities for i in range(m)]
        heap = [float(d[nuc]) for d in base]
        cells = [j if j < m and ctx.rng.random() < 0.5 else ctx.rng.randrange(m) for j in range(n)]
        how = []
        for j, c in enumerate(comps):
            if cells[j] == j:
                how.append("own")
                continue
            u = ctx.rng.random()
            owner = comps[cells[j]]
            if u < 0.6 or owner.p.numberDensities is not base[cells[j]]:
                c.p.numberDensities = base[cells[j]]
                how.append("assigned")
            elif u < 0.8:
                c.updateParamsFrom(owner)
                how.append("updateParamsFrom")
            else:
                c.copyParamsFrom(owner)
                how.append("copyParamsFrom")
        fs = [ctx.rng.choice([1.0, 0.5, 2.0, 1.0 + ctx.rng.randint(-20, 20) / 256.0, 256.0 / ctx.rng.randint(240, 270)])
              for _ in range(ctx.rng.randint(1, n))]
        case = {"what": "changeNDensByFactor on components sharing compositions", "cells": cells, "how": how, "factors": fs}
        try:
            with common.quiet():
                for c, f in zip(comps, fs):
                    c.changeNDensByFactor(f)
            got = [float(c.getNumberDensity(nuc)) for c in comps]
        except Exception as e:  # noqa
            ctx.fail("change-ndens-raises", "scaling the density of a component succeeds", case, observed=repr(e)[:200])
            continue
        # the property's clause, directly: each scaled component sees its old density times its own factor, once
        for j, g in enumerate(got):
            exp = heap[cells[j]] * (fs[j] if j < len(fs) else 1.0)
            if not fclose(g, exp, 1e-13):
                ctx.fail("density-scaled-once-per-component", "after scaling, a component's density is its old density times "
                         "its own factor, whether or not it shared its composition object with another component",
                         dict(case, component=j), observed=g, expected=exp)
        req.append(f"alias {ratlist(heap)} {common.intlist(cells)} {ratlist(fs)}")
        chk.append((case, ("~", got)))
        for h in set(how):
            ctx.count("shared composition cells: " + h)
        ctx.case(("alias-cells", tuple(cells), tuple(how), tuple(fs)), nontrivial=len(set(cells)) < n)


TIGHT_KINDS = ("tightfuel", "ringslab", "barepin")
TIGHT_STACKS = (["tightfuel", "tightfuel", "slab"], ["ringslab", "tightfuel", "slab"], ["tightfuel", "ringslab"],
                ["slab", "tightfuel", "tightfuel", "ringslab", "tightfuel"], ["ringslab", "tightfuel", "ringslab"],
                ["ringslab", "barepin", "slab"], ["barepin", "ringslab"], ["ringslab", "barepin", "ringslab", "barepin"])


def link_table(chg, a):
    """(lower, upper) of every solid component as indices among the neighbouring block's solids"""
    out = []
    blocks = list(a)
    for ib, b in enumerate(blocks):
        lo = solids(blocks[ib - 1]) if ib > 0 else []
        up = solids(blocks[ib + 1]) if ib + 1 < len(blocks) else []
        row = []
        for c in solids(b):
            lk = chg.linked.linkedComponents.get(c)
            if lk is None:
                row.append(("?", "?"))
                continue
            row.append((None if lk.lower is None else (lo.index(lk.lower) if lk.lower in lo else -1),
                        None if lk.upper is None else (up.index(lk.upper) if lk.upper in up else -1)))
        out.append(row)
    return out


def run_tight_gaps(ctx, collect):
    """AXIAL LINKAGE IS DECIDED ON COLD DIMENSIONS: stacks with a tight cold gap (pin cold od 0.760 < annulus cold id
    0.765 < pin hot od) built at several hot temperatures (25 = input temperature, 350, 450, 600 C; also different
    temperatures in neighbouring blocks). The linkage of a valid stack can be built, equals the linkage of the same stack
    at Thot = Tinput and the model's linkage from the cold dimensions; under differential growth the targets stay stacked
    on the block below (block grows by its target's factor, target mass conserved)."""
    temps = [25.0, 350.0, 450.0, 600.0]
    for stack in TIGHT_STACKS if ctx.thorough else ctx.rng.sample(list(TIGHT_STACKS[:5]), 2) + ctx.rng.sample(list(TIGHT_STACKS[5:]), 2):
        heights = [ctx.rng.choice([8.0, 16.0, 20.5]) for _ in stack] + [16.0]
        try:
            with common.quiet():
                cold = build_assembly([(f"{k}@25" if k in TIGHT_KINDS else k) for k in stack], heights)
        except Exception as e:  # noqa
            raise common.Infra(f"cannot build the tight-gap assembly {stack}: {e!r}")
        cchg, _s, _i = make_changer()
        ccase = {"assembly": "built:" + "/".join(stack), "heights": heights, "Thot": "= Tinput (25 C)"}
        if not guarded_set_assembly(ctx, cchg, cold, ccase):
            continue
        ref_table = link_table(cchg, cold)
        for T in (temps if ctx.thorough else [25.0] + ctx.rng.sample(temps[1:], 2)) + ["mixed"]:
            th = [T if T != "mixed" else ctx.rng.choice(temps) for _ in stack]
            kinds = [(f"{k}@{t}" if k in TIGHT_KINDS else k) for k, t in zip(stack, th)]   # (the wide-gap kinds stay at 400 C)
            case = {"assembly": "built:" + "/".join(kinds), "heights": heights, "mode": "tight cold gap"}
            try:
                with common.quiet():
                    a = build_assembly(kinds, heights)
            except Exception as e:  # noqa
                if not real_code_failure(ctx, e, "building a block with a tight cold gap", case):
                    raise
                continue
            chg, snapshot, iterSolid = make_changer()
            if not guarded_set_assembly(ctx, chg, a, case):
                continue
            table = link_table(chg, a)
            if table != ref_table:
                ctx.fail("linkage-independent-of-temperature", "axial linkage is decided on the cold dimensions: a stack links at "
                         "any hot temperature exactly as at Thot = Tinput", case, observed=table, expected=ref_table)
            H0, top0 = a.getTotalHeight(), float(a[-1].p.ztop)
            budget = [0, 0]
            for k in range(2):
                sol = [(ib, c) for ib, b in enumerate(a[:-1]) for c in iterSolid(b)]
                grow = {"fuel": 1.0 + ctx.rng.choice([6, 10, 13]) / 256.0, "liner": 1.0 + ctx.rng.choice([-4, 3, 5]) / 256.0}
                pcts = [grow.get(c.name, 1.0) for _ib, c in sol]
                c2 = dict(case, step=k, growth=grow)
                r = one_step(ctx, collect, a, a, chg, snapshot, iterSolid, c2, H0, top0, budget, "prescribed",
                             ([c for _ib, c in sol], pcts))
                if r is None:
                    break
                pre, post = r
                # the pin of a tight-gap block has nothing below it but a pin (or the block boundary): its block grows with it
                for ib in range(len(pre) - 1):
                    t = tgt_of(pre[ib])
                    if t is None or pre[ib]["comps"][t]["name"] != "fuel":
                        continue
                    g = pre[ib]["comps"][t]["g"]
                    below_ok = ib == 0 or all(tgt_of(pre[jb]) is not None and
                                              pre[jb]["comps"][tgt_of(pre[jb])]["name"] in ("fuel", "shield") for jb in range(ib))
                    if below_ok and not fclose(post[ib]["h"], g * pre[ib]["h"], 1e-12):
                        ctx.fail("block-grows-with-target", "a block whose target sits on the block below grows by the target's factor",
                                 dict(c2, block=ib), observed=post[ib]["h"], expected=g * pre[ib]["h"])
                    if below_ok and not fclose(post[ib]["comps"][t]["mass"], pre[ib]["comps"][t]["mass"], 1e-9):
                        ctx.fail("target-mass-conserved", "mass of the target component is conserved (its pin is stacked on the "
                                 "pin / block below, never on a neighbouring annulus)", dict(c2, block=ib),
                                 observed=post[ib]["comps"][t]["mass"], expected=pre[ib]["comps"][t]["mass"])
                ctx.case(("tight-gap", tuple(kinds), tuple(heights), k), nontrivial=True)
            ctx.count("tight cold gap stacks at Thot " + ("mixed" if T == "mixed" else str(T)))


def run_long_unity(ctx):
    """LONG sequences of growth fractions within 1e-6 of 1.0 (but not 1.0): N prescribed steps of 1 + 5e-7 on one
    ExpansionData, and a uniform temperature raised in 0.05 C steps; after the sequence every density (linear density for
    the thermal one) times the exact product of the factors equals the initial one and masses are conserved to round-off
    (tolerance 1e-10: a systematic per-step omission of 5e-7 shows after a handful of steps)."""
    n_presc, n_therm = ctx.pick(400, 2000), ctx.pick(120, 600)
    for variant in ("prescribed", "thermal"):
        stack = ctx.rng.choice([["fuel", "slab"], ["fuel", "fuel", "holedslab"], ["customfuel", "slab"]])
        with common.quiet():
            a = build_assembly(stack, [16.0] * (len(stack) + 1), ctx.rng.choice(["fluid", "duct"]))
        chg, snapshot, iterSolid = make_changer()
        case = {"assembly": "built:" + "/".join(stack), "mode": "long near-unity sequence: " + variant}
        if not guarded_set_assembly(ctx, chg, a, case):
            continue
        start = snapshot(a)
        prod = [[Fraction(1) for _c in b["comps"]] for b in start]
        H0 = a.getTotalHeight()
        sol = [c for b in a[:-1] for c in iterSolid(b)]
        eps = ctx.rng.choice([5e-7, -5e-7, 2.5e-7, 9e-7])
        n = n_presc if variant == "prescribed" else n_therm
        T = 400.0
        try:
            with common.quiet():
                if variant == "prescribed":
                    chg.expansionData.setExpansionFactors(sol, [1.0 + eps] * len(sol))
                for k in range(n):
                    if variant == "thermal":
                        T += 0.05
                        chg.performThermalAxialExpansion(a, [0.0, H0 / 4, H0 / 2, 3 * H0 / 4, H0], [T] * 5, setFuel=True)
                    else:
                        chg.axiallyExpandAssembly()
                    for ib, b in enumerate(chg.pre[:-1]):
                        for ic, c in enumerate(b["comps"]):
                            prod[ib][ic] *= Fraction(c["g"])
        except Exception as e:  # noqa
            if not real_code_failure(ctx, e, "long sequence of near-unity expansions", dict(case, step=k)):
                raise
            continue
        end = snapshot(a)
        if not fclose(a.getTotalHeight(), H0, 1e-12):
            ctx.fail("height-preserved", "total assembly height is unchanged", case, observed=a.getTotalHeight(), expected=H0)
        for ib in range(len(start) - 1):
            t = tgt_of(chg.pre[ib])
            for ic, (cs, ce) in enumerate(zip(start[ib]["comps"], end[ib]["comps"])):
                p = float(prod[ib][ic])
                lin0, lin1 = cs["nd"] * cs["area"], ce["nd"] * ce["area"]
                if abs(p - 1.0) > 1e-9 and not fclose(lin1 * p, lin0, 1e-10):
                    ctx.fail("near-unity-growth-divides-density", "after a long sequence of growth fractions within 1e-6 of 1.0 "
                             "every density is the initial one divided by the exact product of the factors (no step's density "
                             "update skipped)", dict(case, steps=n, block=ib, comp=cs["name"], product=p),
                             observed=lin1, expected=lin0 / p)
                if (variant == "prescribed" or ic == t) and not fclose(cs["mass"], ce["mass"], 1e-9):
                    ctx.fail("near-unity-growth-conserves-mass", "... and masses are conserved to round-off", 
                             dict(case, steps=n, block=ib, comp=cs["name"]), observed=ce["mass"], expected=cs["mass"])
        ctx.count(f"long near-unity sequence ({variant})", n)
        ctx.case(("long-unity", variant, tuple(stack), eps, n), nontrivial=True)


def run_thermal_patterns(ctx, collect):
    """call patterns of the thermal path through the public pieces (setAssembly, updateComponentTemp(sBy1DTempField),
    computeThermalExpansionFactors, axiallyExpandAssembly): factors computed once, twice, or after every block's
    temperature update must equal update-all / compute-once (performThermalAxialExpansion on a twin); the inverse
    temperature change afterwards restores densities (and heights of blocks whose target sits on the block below)"""
    fx = fixtures()
    pool = [x for x in fx["assems"]]
    with common.quiet():
        pool += [build_assembly(k, [16.0] * (len(k) + 1)) for k in (["fuel", "holedslab", "slab"], ["customfuel", "fuel", "slab"])]
    pool += top_pool(ctx)
    req, chk = collect
    for _ in range(ctx.pick(12, 150)):
        a0 = ctx.rng.choice(pool)
        pattern = ctx.rng.choice(["once", "twice", "thrice", "after-each-block", "after-each-block+final"])
        a, twin = copy.deepcopy(a0), copy.deepcopy(a0)
        H0, top0 = a.getTotalHeight(), float(a[-1].p.ztop)
        T0 = float(next(iter(a[0])).temperatureInC)
        start = None
        temps = [ctx.rng.choice([300.0, 350.0, 425.0, 500.0, 0.0]) for _ in range(2)]
        legs = [("out", temps[0]), ("on", temps[1])]
        chg, snapshot, iterSolid = make_changer()
        ref, _s, _i = make_changer()
        budget = [0, 0]
        for leg, T in legs:
            case = {"assembly": label(a0), "mode": "thermal-call-pattern", "pattern": pattern, "leg": leg, "T": T}
            grid = np.linspace(0.0, H0, 3000)
            temps_before = {id(c): float(c.temperatureInC) for b in a for c in b}
            chg.pre = None
            try:
                with common.quiet():
                    chg.setAssembly(a, True)
                    ed = chg.expansionData
                    if pattern.startswith("after-each-block"):
                        for b in a:
                            for c in b:
                                ed.updateComponentTemp(c, T)
                            ed.computeThermalExpansionFactors()
                        if pattern.endswith("+final"):
                            ed.computeThermalExpansionFactors()
                    else:
                        ed.updateComponentTempsBy1DTempField(list(grid), [T] * len(grid))
                        for _k in range({"once": 1, "twice": 2, "thrice": 3}[pattern]):
                            ed.computeThermalExpansionFactors()
                    chg.axiallyExpandAssembly()
                    ref.performThermalAxialExpansion(twin, list(grid), [T] * len(grid), setFuel=True)
            except Exception as e:  # noqa
                ctx.fail("expansion-raises", "a physical expansion of an assembly with a dummy block succeeds", case,
                         observed=repr(e)[:300])
                break
            pre, post, tw = chg.pre, snapshot(a), snapshot(twin)
            if start is None:
                start = post        # the isothermal state at temps[0]: the closed cycle returns to it
            oracle_step(ctx, case, a, pre, post, masses(pre), H0, top0, "percomp", budget)
            for ib, b in enumerate(a[:-1]):
                for ic, c in enumerate(iterSolid(b)):
                    exp = expected_factor(c, temps_before[id(c)], T)
                    got = pre[ib]["comps"][ic]["g"]
                    if not fclose(got, exp, 1e-12):
                        ctx.fail("thermal-factors-idempotent", "computeThermalExpansionFactors gives the material's expansion "
                                 "between the previous and the new temperature however often it is called",
                                 dict(case, block=ib, comp=c.name, t_from=temps_before[id(c)]), observed=got, expected=exp)
            for ib, (x, y) in enumerate(zip(post, tw)):
                same = fclose(x["h"], y["h"], 1e-13) and fclose(x["zt"], y["zt"], 1e-13) and all(
                    fclose(cx["nd"], cy["nd"], 1e-13) for cx, cy in zip(x["comps"], y["comps"]))
                if not same:
                    ctx.fail("thermal-call-pattern-equals-single-call", "update-all / compute-once and the same steps with repeated "
                             "factor computation give the same assembly", dict(case, block=ib), observed=[x["h"], x["zt"]],
                             expected=[y["h"], y["zt"]])
            safe_request(ctx, case, pre, req, chk, (case, pre, post, [float(x) for x in a.spatialGrid._bounds[2]]))
            ctx.count(f"thermal call pattern {pattern}")
            ctx.case(("thermal-pattern", label(a0), pattern, leg, T, _), nontrivial=True)
        else:
            # back to the first temperature with the same pattern-free single call: densities (and aligned heights) return
            case = {"assembly": label(a0), "mode": "thermal-call-pattern", "pattern": pattern, "leg": "back", "T": temps[0]}
            try:
                with common.quiet():
                    chg.performThermalAxialExpansion(a, list(np.linspace(0.0, H0, 3000)), [temps[0]] * 3000, setFuel=True)
            except Exception as e:  # noqa
                ctx.fail("expansion-raises", "a physical expansion of an assembly with a dummy block succeeds", case, observed=repr(e)[:300])
                continue
            end = snapshot(a)
            al = chg.pre
            for ib in range(len(start) - 1):
                for cs, ce in zip(start[ib]["comps"], end[ib]["comps"]):
                    if not fclose(cs["nd"] * cs["area"], ce["nd"] * ce["area"], 1e-9):
                        ctx.fail("closed-cycle-restores-densities", "a closed temperature cycle restores the linear densities",
                                 dict(case, block=ib, comp=cs["name"]), observed=ce["nd"] * ce["area"], expected=cs["nd"] * cs["area"])
                t = al[ib]["targets"]
                if t and all(aligned(al, jb, al[jb]["targets"][0]) for jb in range(ib + 1) if al[jb]["targets"]):
                    if not fclose(start[ib]["h"], end[ib]["h"], 1e-9):
                        ctx.fail("closed-cycle-restores-heights", "a closed temperature cycle restores block heights",
                                 dict(case, block=ib), observed=end[ib]["h"], expected=start[ib]["h"])


def flag_int(f):
    return int.from_bytes(f.to_bytes(), "big")


def run_targets(ctx):
    """ExpansionData._setTargetComponents / determineTargetComponent / _isFuelLocked on single blocks of the fixture and
    of the built assemblies: unset target (flag-based choice), explicit valid / unknown names, setFuel on / off, blocks
    with components removed (no candidate -> only-solid fallback or refusal)"""
    from armi.reactor.converters.axialExpansionChanger.expansionData import (TARGET_FLAGS_IN_PREFERRED_ORDER, ExpansionData)
    from armi.reactor.flags import Flags
    from armi.materials import material as mat_mod

    req, chk = LINK
    F = [flag_int(x) for x in (Flags.PLENUM, Flags.ACLP, Flags.DUMMY, Flags.FUEL, Flags.CLAD)]
    pref = "[" + ",".join(str(flag_int(x)) for x in TARGET_FLAGS_IN_PREFERRED_ORDER) + "]"
    fx = fixtures()
    assems = list(fx["assems"])
    with common.quiet():
        assems += [build_assembly(k, [16.0] * (len(k) + 1)) for k in BUILT_STACKS[:6]]
    assems += top_pool(ctx)       # dummy blocks that carry solids (with and without a designated target)
    seen = set()
    for a0 in assems:
        for ib, b0 in enumerate(a0):
            key = (a0.getType() if a0.getType() != "builtAssembly" else id(a0), b0.getType(), ib if a0.getType() == "builtAssembly" else 0,
                   tuple(c.name for c in b0))
            if key in seen:
                continue
            seen.add(key)
            names = [c.name for c in b0]
            variants = [("", None), ("", "drop-first-solid"), ("", "drop-flagged")]
            variants += [(ctx.rng.choice(names), None), ("no-such-component", None)]
            variants += [("", "twin-flags")]
            variants += [("", "flags:" + nm) for nm in ("ACLP", "PLENUM", "DUMMY", "FUEL", "SHIELD", "DUCT", "CONTROL")]
            for explicit, surgery in variants:
                for setFuel in (True, False):
                    b = copy.deepcopy(b0)
                    if surgery and surgery.startswith("flags:"):
                        b.p.flags = getattr(Flags, surgery[6:])      # the block carries exactly this flag
                    if surgery == "drop-first-solid":
                        sol = [c for c in b if not isinstance(c.material, mat_mod.Fluid)]
                        if len(sol) < 2:
                            continue
                        b.remove(sol[0])
                    elif surgery == "drop-flagged":
                        sol = [c for c in b if c.hasFlags(Flags.CLAD) or c.hasFlags(Flags.FUEL)]
                        if not sol:
                            continue
                        for c in sol:
                            b.remove(c)
                    if surgery == "twin-flags":      # two children carrying the same flags: several candidates
                        sol = [c for c in b if not isinstance(c.material, mat_mod.Fluid)]
                        if len(sol) < 2:
                            continue
                        sol[1].p.flags = sol[0].p.flags
                    b.p.axialExpTargetComponent = explicit
                    children = list(b)
                    cs = "[" + ",".join(f"[{flag_int(c.p.flags)},{int(not isinstance(c.material, mat_mod.Fluid))}]" for c in children) + "]"
                    if explicit == "":
                        ex = "-"
                    else:
                        hits = [k for k, c in enumerate(children) if c.name == explicit]
                        ex = str(hits[0]) if len(hits) == 1 else "x"
                    case = {"assembly": label(a0), "block": b0.getType(), "explicit": explicit, "surgery": surgery,
                            "setFuel": setFuel, "children": [c.name for c in children]}
                    try:
                        with common.quiet():
                            ed = ExpansionData([b], setFuel, False)
                        tg = [k for k, c in enumerate(children) if ed.isTargetComponent(c)]
                        out = "none" if not tg else (str(tg[0]) if len(tg) == 1 else "several")
                        if tg and b.p.axialExpTargetComponent != children[tg[0]].name:
                            ctx.fail("target-name-recorded", "the chosen target's name is recorded on the block", case,
                                     observed=b.p.axialExpTargetComponent, expected=children[tg[0]].name)
                    except (RuntimeError, ValueError, AttributeError):
                        out = "reject"
                    except Exception as e:  # noqa
                        ctx.fail("target-selection-unexpected-exception", "target selection chooses one child or refuses with "
                                 "RuntimeError / ValueError", case, observed=repr(e)[:200])
                        continue
                    if out == "several":
                        ctx.fail("target-unique", "a block has at most one target component", case, observed=tg)
                        continue
                    req.append(f"target {F[0]} {F[1]} {F[2]} {F[3]} {F[4]} {pref} {'T' if setFuel else 'F'} "
                               f"{flag_int(b.p.flags)} {ex} {cs}")
                    chk.append((dict(case, what="target component"), out))
                    ctx.count("target selection: " + ("refused" if out == "reject" else ("dummy: none" if out == "none" else "chosen")))
                    ctx.case(("target", a0.getType(), b0.getType(), explicit, surgery, setFuel), nontrivial=True)


def run_link_pairs(ctx):
    """areAxiallyLinked on pairs of freshly constructed components (classes, multiplicities and dimensions from a
    small lattice so that equal / touching / nested dimensions all occur), both argument orders"""
    from armi.reactor.components import DerivedShape, UnshapedComponent
    from armi.reactor.components.basicShapes import Circle, Hexagon
    from armi.reactor.components.complexShapes import HexHoledCircle, HoledHexagon
    from armi.reactor.converters.axialExpansionChanger import assemblyAxialLinkage as aal

    req, chk = LINK
    _c, snapshot, _i = make_changer()
    T = {"Tinput": 25.0, "Thot": ctx.rng.choice([25.0, 400.0])}
    dims = [0.0, 0.5, 0.75, 1.0, 1.25, 1.5, 2.0]

    def make(k=None, mult=None):
        k = ctx.rng.randrange(6) if k is None else k
        mat = ctx.rng.choice(["HT9", "HT9", "HT9", "UZr", "Sodium"])
        mult = ctx.rng.choice([1.0, 61.0, 127.0]) if mult is None else mult
        a, b = sorted(ctx.rng.sample(dims, 2))
        if k == 0:
            return Circle("c", mat, od=b, id=a, mult=mult, **T)
        if k == 1:
            return Hexagon("h", mat, op=b, ip=a, mult=mult, **T)
        if k == 2:
            return HoledHexagon("hh", mat, op=max(b, 0.5), holeOD=min(a, 0.25), nHoles=ctx.rng.choice([1, 7]), mult=mult, **T)
        if k == 3:
            return HexHoledCircle("hc", mat, od=max(b, 0.5), holeOP=min(a, 0.25), mult=mult, **T)
        if k == 4:
            return UnshapedComponent("u", mat, area=1.0, **T)
        return Circle("c2", mat, od=b, id=a, mult=mult, **T)

    geo = None
    for _ in range(ctx.pick(400, 5000)):
        with common.quiet():
            k0, m0 = ctx.rng.randrange(6), ctx.rng.choice([1.0, 61.0, 127.0])
            c = make(k0, m0)
            u = ctx.rng.random()
            d = make(k0, m0) if u < 0.6 else (make(k0) if u < 0.8 else make())
        # geometry through the same reader the snapshot uses
        from armi.reactor.components import UnshapedComponent as U

        def g(x):
            tag = CLASS_TAGS.setdefault(type(x), len(CLASS_TAGS) + 1)
            un = isinstance(x, U)
            if un:
                i = o = 0.0
            else:
                i, o = float(x.getCircleInnerDiameter(cold=True)), float(x.getBoundingCircleOuterDiameter(cold=True))
            try:
                m = float(x.getDimension("mult"))
            except Exception:  # noqa
                m = 1.0
            return [tag, int(un), int(bool(x.containsSolidMaterial())), m, i, o]

        case = {"A": [type(c).__name__, c.material.name], "B": [type(d).__name__, d.material.name]}
        try:
            with common.quiet():
                r1, r2 = bool(aal.areAxiallyLinked(c, d)), bool(aal.areAxiallyLinked(d, c))
            gc, gd = g(c), g(d)
        except Exception as e:  # noqa
            ctx.fail("linkage-check-raises", "areAxiallyLinked answers for every pair of components", case, observed=repr(e)[:200])
            continue
        case.update(geoA=gc, geoB=gd)
        if r1 != r2:
            ctx.fail("linkage-symmetric", "areAxiallyLinked(A, B) == areAxiallyLinked(B, A)", case, observed=[r1, r2])
        req.append(f"linked {ratlist(gc)} {ratlist(gd)}")
        chk.append((dict(case, what="areAxiallyLinked"), "T" if r1 else "F"))
        ctx.count("areAxiallyLinked pairs: " + ("linked" if r1 else "not linked"))
        ctx.case(("pair", tuple(gc), tuple(gd)), nontrivial=True)


def compare_links(ctx):
    req, chk = LINK
    model = lean_run("AxialExp", req)
    for (case, impl), line, rq in zip(chk, model, req):
        if isinstance(impl, tuple):         # a list of numbers, compared numerically
            try:
                vals = common.parse_list(line) if line.startswith("[") else None
                okk = vals is not None and len(vals) == len(impl[1]) and all(relclose(y, x, 1e-12) for x, y in zip(vals, impl[1]))
            except Exception:  # noqa
                okk = False
            if not okk:
                ctx.disagree("Model/AxialExp.lean (numeric list) vs " + str(case.get("what")), dict(case, request=rq[:300]),
                             line[:300], str(impl[1])[:300])
            continue
        if line != impl:
            ctx.disagree("Model/Linkage.lean vs AssemblyAxialLinkage / ExpansionData target selection",
                         dict(case, request=rq[:300]), line[:300], impl[:300])
    ctx.evaluations += len(req)
    ctx.count("linkage / alignment / target-selection model requests", len(req))
    if req:
        ctx.samples.append({"request": req[0][:300], "model": model[0][:200], "impl": chk[0][1][:200]})


def real_code_failure(ctx, e, where, spec):
    """an exception raised INSIDE the real code on a valid input is a failure of the property's implementation (with the
    input as replay), never an infrastructure failure; an exception raised by the harness itself is re-raised"""
    import traceback

    tb = traceback.extract_tb(e.__traceback__)
    inner = [f for f in tb if "/armi/" in f.filename.replace("\\", "/") and "/harness/" not in f.filename]
    if not inner or "/harness/" in tb[-1].filename:
        return False
    last = inner[-1]
    calls = [f for f in tb if "/harness/" in f.filename]
    site = f"{os.path.basename(last.filename)}:{last.name}"
    if "assemblyAxialLinkage" in last.filename:
        key, clause = "linkage-raises-on-valid-assembly", "the axial linkage of a valid assembly can be built"
    elif isinstance(e, ArithmeticError):
        key, clause = "expansion-raises", "a physical expansion of an assembly with a dummy block succeeds"
    else:
        key, clause = "real-code-raises-on-valid-input", "the real code accepts a valid assembly / call"
    ctx.fail(key, clause, dict(spec, where=where, raised_in=site,
                               harness_line=(f"{os.path.basename(calls[-1].filename)}:{calls[-1].lineno}" if calls else None)),
             observed=repr(e)[:300])
    return True


def assembly_spec(a):
    """enough of an assembly to rebuild the failing input: type, block types, heights, solid components with their
    cold dimensions and temperatures"""
    try:
        blocks = []
        for b in a:
            comps = []
            for c in b:
                d = {"name": c.name, "shape": type(c).__name__, "material": type(c.material).__name__,
                     "Tinput": float(c.inputTemperatureInC), "Thot": float(c.temperatureInC)}
                for k in ("od", "id", "op", "ip", "mult"):
                    try:
                        d[k] = float(c.getDimension(k, cold=True))
                    except Exception:  # noqa
                        pass
                comps.append(d)
            blocks.append({"type": b.getType(), "height": float(b.getHeight()), "components": comps})
        return {"assembly": label(a) if id(a) in TOP_TAG else a.getType(), "blocks": blocks}
    except Exception as e:  # noqa
        return {"assembly": repr(a)[:80], "spec_error": repr(e)[:80]}


def stream(ctx, collect, fn, *args):
    """run one generator stream; exceptions that escape it from inside the real code become keyed failures"""
    try:
        fn(ctx, *args)
    except common.Infra:
        raise
    except Exception as e:  # noqa
        if not real_code_failure(ctx, e, "stream " + fn.__name__, {"stream": fn.__name__, "seed": ctx.seed}):
            raise
    finally:
        for lists in (collect, LINK, ROUTES):
            n = min(len(lists[0]), len(lists[1]))
            del lists[0][n:], lists[1][n:]


def run(ctx):
    del LINK[0][:], LINK[1][:]
    collect = ([], [])
    del ROUTES[0][:], ROUTES[1][:]
    try:
        fixtures()
        top_pool(ctx)
    except common.Infra:
        raise
    except Exception as e:  # noqa
        if not real_code_failure(ctx, e, "fixture preparation (loading armi/tests/detailedAxialExpansion, which expands every "
                                 "assembly from cold to hot)", {"inputs": "armi/tests/detailedAxialExpansion"}):
            raise
        return
    for fn, args in ((run_targets, ()), (run_link_pairs, ()), (run_store, ()), (run_blocktemps, ()), (run_thermal_dispatch, ()),
                     (run_alias_cells, ()), (run_tight_gaps, (collect,)), (run_long_unity, ()), (run_built, (collect,)),
                     (run_state_carry, (collect,)), (run_reuse, (collect,)), (run_retarget, (collect,)),
                     (run_aliased, (collect,)), (run_thermal_patterns, (collect,)), (run_rejects, (collect,)),
                     (run_cold_to_hot, ()), (run_core_mesh, ()), (run_zero_celsius, (collect,)), (run_small_steps, (collect,)),
                     (run_sequences, (ctx.pick(150, 1500), collect))):
        stream(ctx, collect, fn, *args)
    compare(ctx, *collect)
    compare_links(ctx)
    compare_routes(ctx)
    ctx.rule = ("one case = one real expansion (assembly type of the detailedAxialExpansion fixture, history of earlier "
                "expansions on the same object, mode uniform / per-component / inverse pair / thermal, percent vector or "
                "temperature field); sequences of 1-5 expansions on one deep copy; closed isothermal cycles through exactly "
                "0.0 C (25-0-100-25, 0-50-0, 25-0-0-300-25) on every assembly type; 10-50 very small steps (L1/L0 = 1 +- "
                "a few 1e-6, isothermal +0.25 C) with every clause after every step and an accumulated-drift clause; every "
                "case is non-trivial (heights change); assemblies built through HexAssembly/HexBlock/component constructors "
                "(incl. a solid Custom-material fuel target) with HoledHexagon / HexHoledCircle targets above Hexagon / Circle components (and the reverse, and same-class "
                "controls) under differential expansion, with linkage mutuality/symmetry clauses; one changer reused for successive "
                "calls naming different component subsets, then the exact inverse, against a fresh changer per call; plus refused calls (non-positive factor, growth the dummy block "
                "cannot absorb, negative height of a thin block). Every stream also draws assemblies whose top dummy block carries "
                "solid components (duct / socket / duct+socket / duct+socket+ring / duct designated as target; added to fixture "
                "copies, built through the constructors, and loaded from an edited blueprint copy). One ExpansionData re-used for "
                "3-8 successive setExpansionFactors + axiallyExpandAssembly steps in five patterns (grow-hold-shrink, g-1-1-h, one "
                "group per step with all others exactly 1.0, subsets of components, subsets of blocks), each step also through a "
                "fresh ExpansionData on a twin and the whole history through the model's runReuse / runFresh; setExpansionFactors "
                "call sequences (valid with repeats and exact 1.0, zero / negative factor, different lengths) with every stored "
                "factor read back; temperature grids (fine, block boundaries, coarse, short, jittered, unequal lengths) through "
                "updateComponentTempsBy1DTempField. Aliased compositions (run_aliased, run_alias_cells): solid components that "
                "share one numberDensities dict object (direct assignment within a block / to the same pin in the block above, "
                "updateParamsFrom / copyParamsFrom clones), 1-3 expansions (uniform, per-component, isothermal) with every clause "
                "after every single step and a twin whose components own their compositions. Re-designated targets "
                "(run_retarget): 2-4 expansions of one assembly, the designated target of random blocks changed in between "
                "(later -> earlier in the component order, earlier -> later, random; setAxialExpTargetComp or the parameter), a "
                "brand-new changer each time, per-component growth; the targets must be exactly the currently designated "
                "components. Tight cold gaps (run_tight_gaps): constructor-built stacks whose pin cold od 0.760 < neighbouring "
                "annulus cold id 0.765 < pin hot od (pin with clad, bare pin, annulus-only liner blocks) at 25 (= input) / "
                "350 / 450 / 600 C and mixed temperatures: linkage table = the table at Thot = Tinput = the model's table from "
                "cold dimensions, then two differential expansions. Long near-unity sequences (run_long_unity): 400 (thorough "
                "2000) re-used-ExpansionData steps of 1 +- 2.5e-7..9e-7 and 120 (600) isothermal steps of +0.05 C; densities "
                "against the exact product of the factors to 1e-10. Every stream runs under a guard: an exception that leaves "
                "the real code on a valid input (fixture preparation, setAssembly / linkage construction, expandColdDimsToHot, "
                "...) is a keyed failure with the assembly specification, not an infrastructure failure.")


def search(ctx, disagreements, broken):
    sub = type(ctx)(ctx.prop, "quick", ctx.seed + 17)
    collect = ([], [])
    run_sequences(sub, 60, collect)
    out, seen = [], set()
    for f in sub.failures:
        if f.key not in seen:
            seen.add(f.key)
            out.append(Failure(f.key, f.clause, f.case, f.observed, f.expected, "found by the directed search"))
    return out


def replay(ctx, payload):
    """re-run the generator streams with the payload's seed until the failing clause shows again"""
    seed = int(payload.get("seed", 0))
    for sd in (seed, seed + 17):
        sub = type(ctx)(ctx.prop, "quick", sd)
        collect = ([], [])
        del LINK[0][:], LINK[1][:], ROUTES[0][:], ROUTES[1][:]
        for fn, args in ((run_rejects, (collect,)), (run_tight_gaps, (collect,)), (run_long_unity, ()), (run_alias_cells, ()),
                         (run_cold_to_hot, ()), (run_retarget, (collect,)), (run_aliased, (collect,)), (run_reuse, (collect,)),
                         (run_built, (collect,)), (run_state_carry, (collect,)), (run_thermal_patterns, (collect,)),
                         (run_core_mesh, ()), (run_zero_celsius, (collect,)), (run_small_steps, (collect,)),
                         (run_store, ()), (run_blocktemps, ()), (run_targets, ()), (run_sequences, (60, collect))):
            stream(sub, collect, fn, *args)
            hit = [f for f in sub.failures if f.key == payload["key"]]
            if hit:
                return hit[0].to_json()
    return None
