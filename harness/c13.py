"""C13 - third-core <-> full-core conversion and edge assemblies multiply / restore the core exactly.

Theorems: lean/ArmiVerif/Props/C13.lean over Model/Sym3.lean.
Tie: the real reference reactor (third-core hex, 73 assemblies, 9 rings) and cut-down variants of it
(fewer rings, random holes, with / without edge assemblies already present, random dyadic block
parameters) are driven through random sequences of
  ThirdCoreHexToFullCoreChanger.convert / restorePreviousGeometry,
  EdgeAssemblyChanger.addEdgeAssemblies / removeEdgeAssemblies
on one persistent pair of changer objects; after every operation the canonical state (symmetry,
next assembly number, changer bookkeeping, per child: assemNum, cell, payload id, orientation, exact
volume-integrated parameter sums) and the geometric totals (mass per nuclide, volume) are compared
with the Lean model fed the same start state and operations.
Oracle (implementation only): x3 / orbit / independence / uniqueness clauses after convert, exact
restore clauses in every third-core state, lookup tables truthful after every operation.
Below block level (both fixtures have auto-created pin lattices on their pinned blocks; a few assemblies per case get
partial lattices, single off-centre IndexLocations and off-centre CoordinateLocations): after every operation every
pin lattice is owned by the block that holds it, child locators sit on their own block's lattice, no structural object
is held by two assemblies; after convert the pins of every copy resolve (real getGlobalCoordinates) to the source's
pins turned by 120 / 240 degrees pin by pin, the whole reachable object graph of sampled orbits and of every edge pair is
pairwise disjoint; in every third-core state the sources' lattices are the objects they were and their pins resolve to
the original coordinates. The same ownership structure (objects named by first encounter) and the sampled pin indices
are compared with Model/Sym3.lean `Sub` after every operation.
Function level: _scaleBlockVolIntegratedParams on None / list / float / array values vs Model scaleBlockVals.
Sources rotated before the conversion (Assembly.rotate by 60 degrees x n on a random subset / all assemblies) with
per-corner / per-edge vectors (lists and arrays) in a random subset of the nine CORNERS / EDGES block parameters on a
random subset of blocks: every vector of a copy is its source's shifted by the copy's own turn; block orientations and
boundary vectors are part of the state compared with the model (Sub: orient, bnd).
Redundant / repeated calls on the same changer objects (phrases: convert twice, restore twice, addEdge twice, removeEdge
without add, convert-restore-convert-restore, restore with and without the reactor argument): a redundant call leaves
core and changer bookkeeping (list of parameters to scale, added assemblies - part of the compared state) as they were.
Cores with zones (40 % of the generated cores): copies belong to the zone of their source; after undoing the zones hold
what they held (oracle only; the unchanged code fails this: finding restore-leaves-copies-in-zones).
"""
import copy
import math

import numpy as np
from fractions import Fraction

from harness import common
from harness.common import Failure, lean_run

PROP_MODULES = ["ArmiVerif.Props.C13"]
PARTIAL = ("all theorems listed in DESIGN section 5 C13 are proved, incl. invariance over arbitrary op sequences (good_run) "
           "under the stated start conditions (a non-centre assembly, an assembly on the 0-degree line; "
           "the excluded points are run and listed as findings); "
           "mass / volume totals are compared to 1e-9 relative (floats); stored parameters exactly (dyadic values); "
           "lookup tables are derived from the child list in the model (they are explicit state in C14's model); "
           "zone membership of copies is checked on the real core only (not in the model); "
           "block-internal rotation of boundary parameters is C08's subject; pin sites of copies are modelled at index level "
           "(rotateIndex of the local (i, j); the Euclidean statement is C08 rotateIndex_geom_field) and checked in global "
           "coordinates on the real objects")
ASSUMPTIONS = [
    "copy.deepcopy of an assembly yields an independent equal payload: modelled below block level for blocks, pin "
    "lattices, lattice owners and (sampled) pin sites (Model/Sym3 copyBlock, compared by first-encounter object naming "
    "after every operation); for the rest of the object graph (components, materials, parameter collections, arrays, "
    "locators) identity-disjointness is checked on the real copies: structural objects of every assembly after every "
    "operation, the complete reachable graph for 2-4 orbits per conversion and every edge pair",
    "pin coordinates: every pin of 2-4 orbits per conversion, 3 sites per pinned component for all other assemblies, "
    "through the real getGlobalCoordinates",
    "the SINCE_LAST_GEOMETRY_TRANSFORMATION assignment flag of the parameter definitions is process-global state; "
    "the model carries it as one boolean and every case starts with freshly assigned parameters (flag set)",
    "HexBlock.getSymmetryFactor's edge-assembly detection (cell (-1,2) occupied) is transcribed as is",
]

NUCS = ["U235", "U238", "FE56"]
PARAMS = ["power", "kgHM"]          # scalar volume-integrated block parameters
LISTPARAM = "mgFlux"               # a list-valued one (2 groups)
CORNERPARAM, EDGEPARAM = "pointsCornerFastFluxFr", "pointsEdgeDpa"   # ParamLocation.CORNERS / EDGES, 6 entries
NPAR = len(PARAMS) + 2
NGEO = len(NUCS) + 1
OPS = ["convert", "restore", "addEdge", "removeEdge"]

_BASE = {}


FIXTURES = {"ref": (None, None), "afci": ("anl-afci-177", "anl-afci-177.yaml")}


def _load(fixture, settings=None):
    import os
    from armi.reactor.tests.test_reactors import loadTestReactor
    from armi.tests import TEST_ROOT
    sub, fname = FIXTURES[fixture or "ref"]
    with common.scratch_dir(), common.quiet():
        if sub is None:
            return loadTestReactor(TEST_ROOT, customSettings=settings or {})
        return loadTestReactor(os.path.join(TEST_ROOT, sub), inputFileName=fname, customSettings=settings or {})


def base_reactor(fixture="ref"):
    """The reference reactor (or the second fixture), loaded once per process: only its cell list is used."""
    if fixture not in _BASE:
        _BASE[fixture] = _load(fixture)
    return _BASE[fixture]


def fresh_reactor(track, fixture="ref"):
    """A freshly loaded reactor with its spent-fuel pool (copy.deepcopy of a Reactor drops excore['sfp'] and
    the pool's name-table entries, so every case loads its own; ~2 s). Fixtures: the reference third-core hex
    reactor (73 assemblies, 9 rings) and anl-afci-177 (105 assemblies, 11 rings); both have auto-created pin lattices."""
    return _load(fixture, {"trackAssems": bool(track)})


def cell_of(a):
    idx = a.spatialLocator.indices
    return (int(idx[0]), int(idx[1]))


def ring_of(c):
    return max(abs(c[0]), abs(c[1]), abs(c[0] + c[1])) + 1


def on0(c):
    return c[0] > 0 and c[0] == -2 * c[1]


def on120(c):
    return c[1] == -2 * c[0] and c[1] > 0


def orbit(c):
    i, j = c
    return [c] if c == (0, 0) else [c, (-i - j, i), (j, -i - j)]


class SetupRaised(Exception):
    """Core.removeAssembly(a, discharge=False) or addEdgeAssemblies raised while the case's core was being prepared"""


def build_case(spec):
    """Fresh reactor for a case spec: dict(rings, holes, edges0, vseed)."""
    import random
    from armi.reactor.converters import geometryConverters as gc

    o, r = fresh_reactor(spec.get("track", False), spec.get("fixture", "ref"))
    core = r.core
    holes = {tuple(h) for h in spec["holes"]}
    try:
        for a in list(core):
            c = cell_of(a)
            if ring_of(c) > spec["rings"] or c in holes:
                core.removeAssembly(a, discharge=False)
        if spec.get("edges0"):
            # a "fresh case that has edge assemblies": added by a changer we then forget
            with common.quiet():
                gc.EdgeAssemblyChanger().addEdgeAssemblies(core)
    except Exception as e:  # noqa - taking assemblies out / adding edge assemblies are operations of the property, too
        raise SetupRaised(e)
    prerot = spec.get("prerot", "none")
    if prerot != "none":
        # assemblies that were rotated during fuel management: 60 degrees x n through the public Assembly.rotate
        # (orientation, pins, displacement and boundary data all follow); the case's data are assigned afterwards
        rr = random.Random(spec["vseed"] + 29)
        with common.quiet():
            for a in sorted(core, key=cell_of):
                n = rr.choice([1, 2, 3, 4, 5, 5, 1, 0]) if (prerot == "all" or rr.random() < 0.5) else 0
                if n:
                    a.rotate(math.radians(60.0 * n))
    rb = random.Random(spec["vseed"] + 41)
    rng = random.Random(spec["vseed"])
    for k, a in enumerate(sorted(core, key=cell_of)):
        a._verifSrc = 1000 + k
        for b in a:
            for p in PARAMS:
                b.p[p] = rng.randint(1, 512) / 8.0
            # a bowed assembly: non-zero displacement vector; per-corner / per-edge vectors (6 distinct entries)
            b.p.displacementX = rng.choice([-1, 1]) * rng.randint(1, 64) / 16.0
            b.p.displacementY = rng.choice([-1, 1]) * rng.randint(1, 64) / 16.0
            c0 = rng.randint(1, 100)
            b.p[CORNERPARAM] = [(c0 + 7 * q) / 4.0 for q in range(6)]
            b.p[EDGEPARAM] = [(c0 + 11 * q + 1) / 8.0 for q in range(6)]
            if spec.get("bnd", "two") == "many" and rb.random() < 0.6:
                # per-corner / per-edge data on a random subset of blocks and parameters, lists and arrays
                for n in bnd_names(b):
                    if n in (CORNERPARAM, EDGEPARAM) or rb.random() < 0.4:
                        continue
                    v6 = [rb.randint(1, 4096) / 16.0 for _ in range(6)]
                    b.p[n] = np.array(v6) if rb.random() < 0.5 else v6
            vals = [rng.randint(1, 512) / 8.0, rng.randint(1, 512) / 8.0]
            b.p[LISTPARAM] = vals if spec.get("arr", "list") == "list" else np.array(vals)
        if spec.get("arr") == "aliased" and cell_of(a) == (0, 0):
            # one array object shared by all blocks of the centre assembly (a memoised flux table does this)
            shared = np.array([rng.randint(1, 512) / 8.0, rng.randint(1, 512) / 8.0])
            for b in a:
                b.p[LISTPARAM] = shared
    vary_pins(core, random.Random(spec["vseed"] + 17), spec.get("pins", "auto"))
    r._verifZones = None
    if spec.get("zones"):
        # a core with zones: every assembly (but a few) in one of 2-3 zones, by location label
        from armi.reactor import zones as zmod
        rz = random.Random(spec["vseed"] + 53)
        nz = rz.choice([2, 3])
        members = {"zone%d" % q: [] for q in range(nz)}
        for a in sorted(core, key=cell_of):
            if not on120(cell_of(a)) and rz.random() < 0.9:
                members["zone%d" % rz.randrange(nz)].append(a.getLocation())
        core.zones = zmod.Zones()
        for name, locs in sorted(members.items()):
            core.zones.addZone(zmod.Zone(name, locs))
        r._verifZones = {z.name: set(z.locs) for z in core.zones}
    # what the name tables and the pool hold besides the core children (pool assemblies, blueprint / load-queue
    # assemblies): must be exactly this after every operation
    sfp = r.excore.get("sfp")
    here = {id(a) for a in core} | ({id(a) for a in sfp} if sfp is not None else set())
    hereb = {id(b) for a in core for b in a} | ({id(b) for a in sfp for b in a} if sfp is not None else set())
    r._verifExtraA = {k: id(v) for k, v in core.assembliesByName.items() if id(v) not in here}
    r._verifExtraB = {k: id(v) for k, v in core.blocksByName.items() if id(v) not in hereb}
    r._verifSfp = [(id(a), a.name, tuple(id(b) for b in a)) for a in sfp] if sfp is not None else None
    return o, r


def par_of(a):
    out = [sum((Fraction(float(b.p[p])) for b in a), Fraction(0)) for p in PARAMS]
    for g in range(2):
        out.append(sum((Fraction(float(b.p[LISTPARAM][g])) for b in a), Fraction(0)))
    return out


def whole_geo(a):
    """whole-hexagon mass per nuclide and volume of an assembly (what the model calls `geo`)."""
    out = []
    for n in NUCS:
        out.append(sum(b.getMass(n) * b.getSymmetryFactor() for b in a))
    out.append(sum(b.getVolume() * b.getSymmetryFactor() for b in a))
    return out


def canon_state(r, ch, ec):
    core = r.core
    kids = []
    for a in core:
        c = cell_of(a)
        kids.append("[%d,%d,%d,%d,%d,%s]" % (a.getNum(), c[0], c[1], getattr(a, "_verifSrc", -1),
                                              int(round(float(a[0].p.orientation[2]))), common.ratlist(par_of(a))))
    sfp = r.excore.get("sfp")
    skip = set(getattr(r, "_verifExtraA", {}).values()) | {i for (i, _, _) in (getattr(r, "_verifSfp", None) or [])}
    names = sorted(v.getNum() for v in core.assembliesByName.values() if id(v) not in skip)
    return "full=%s next=%d convAdded=%s edgeAdded=%s convList=%s kids=[%s] names=%s" % (
        "T" if core.isFullCore else "F", int(r.p.maxAssemNum),
        common.intlist(a.getNum() for a in ch._newAssembliesAdded),
        common.intlist(a.getNum() for a in ec._newAssembliesAdded),
        "T" if ch.listOfVolIntegratedParamsToScale else "F", ",".join(kids), common.intlist(names))


def init_line(r):
    core = r.core
    kids = []
    for a in core:
        c = cell_of(a)
        kids.append("[%d,%d,%d,%d,%d,%s,%s]" % (a.getNum(), c[0], c[1], a._verifSrc,
                                                 int(round(float(a[0].p.orientation[2]))),
                                                 common.ratlist(whole_geo(a)), common.ratlist(par_of(a))))
    return "init %s %d T [%s]" % ("T" if core.isFullCore else "F", int(r.p.maxAssemNum), ",".join(kids))


def geo_totals(core):
    return [core.getMass(n) for n in NUCS] + [sum(b.getVolume() for b in core.getBlocks())]


def par_totals(core):
    tot = [Fraction(0)] * NPAR
    for a in core:
        tot = [x + y for x, y in zip(tot, par_of(a))]
    return tot


_BND = []


def bnd_names(b):
    """names of all CORNERS / EDGES block parameters (what HexBlock._rotateBoundaryParameters looks at)"""
    if not _BND:
        from armi.reactor.parameters import ParamLocation
        _BND.extend(list(b.p.paramDefs.atLocation(ParamLocation.CORNERS).names) +
                    list(b.p.paramDefs.atLocation(ParamLocation.EDGES).names))
    return _BND


def bnd_val(v):
    """canonical value of a boundary parameter: kind (list / array / other) and the numbers"""
    if isinstance(v, np.ndarray):
        return ("A", tuple(float(x) for x in v.flat))
    if isinstance(v, list):
        return ("L", tuple(float(x) for x in v))
    return ("O", canon_val(v))


def bnd_sig(b):
    return tuple((n, bnd_val(b.p[n])) for n in bnd_names(b))


def bnd_turned(sig, k):
    """the boundary data of a source turned by k * 120 degrees: every 6-long vector shifted by 2k places
    (new[m] = old[(m - 2k) mod 6]), everything else as it was"""
    sh = (2 * k) % 6
    out = []
    for n, (kind, vals) in sig:
        if kind in ("A", "L") and len(vals) == 6 and sh:
            vals = tuple(vals[-sh:] + vals[:-sh])
        out.append((n, (kind, vals)))
    return tuple(out)


def spatial_sig(b):
    return (float(b.p.displacementX), float(b.p.displacementY), bnd_sig(b))


def block_sig(b):
    return (b.name, tuple(float(b.p[p]) for p in PARAMS), tuple(float(x) for x in b.p[LISTPARAM]),
            float(b.getHeight()), int(round(float(b.p.orientation[2])))) + spatial_sig(b)


def snapshot(r, with_mass):
    """Observable third-core state, per non-edge cell: object identity, name, block signatures, (mass)."""
    core = r.core
    out = {}
    for a in core:
        c = cell_of(a)
        if on120(c):
            continue
        ent = [id(a), a.name, tuple(block_sig(b) for b in a), tuple(id(b) for b in a)]
        if with_mass:
            ent.append(tuple(float(a.getMass(n)) for n in NUCS))
            ent.append(float(a.getSymmetryFactor()))
            ent.append(tuple(float(b.getArea()) for b in a))
            ent.append(tuple(float(b.getVolume()) for b in a))
        out[c] = tuple(ent)
    return out


RECOMPUTED = {"flux", "fluxAdj", "fluxGamma"}     # scaleParamsRelatedToSymmetry re-derives these from the scaled multigroup flux


def canon_val(v):
    if v is None or isinstance(v, (bool, int, str)):
        return v
    if isinstance(v, (float, np.floating)):
        return float(v)
    if isinstance(v, np.integer):
        return int(v)
    if isinstance(v, np.ndarray):
        return ("A",) + tuple(canon_val(x) for x in v.flat)
    if isinstance(v, (list, tuple)):
        return ("L",) + tuple(canon_val(x) for x in v)
    if isinstance(v, dict):
        return ("D",) + tuple((str(k), canon_val(x)) for k, x in sorted(v.items(), key=lambda kv: str(kv[0])))
    return ("O", type(v).__name__, str(v)[:60])


def params_sig(obj):
    """every parameter value stored on one object (by definition, independent of the assignment flags)"""
    from armi.reactor.parameters import parameterDefinitions
    out = []
    for pd in obj.p.paramDefs:
        if pd.name in RECOMPUTED:
            continue
        v = getattr(obj.p, pd.fieldName, parameterDefinitions.NoDefault)
        if v is parameterDefinitions.NoDefault:
            continue
        out.append((pd.name, canon_val(v)))
    return tuple(out)


def all_params(r):
    """per non-edge cell: all parameters of the assembly, its blocks and their components"""
    out = {}
    for a in r.core:
        c = cell_of(a)
        if on120(c):
            continue
        out[c] = (id(a), params_sig(a), tuple((params_sig(b), tuple(params_sig(x) for x in b)) for b in a))
    return out


def first_param_diff(x, y):
    """name of the first parameter that differs between two all_params entries (for the report)"""
    def walk(p, q, where):
        for (n1, v1), (n2, v2) in zip(p, q):
            if n1 != n2 or not same(v1, v2):
                return "%s %s: %s -> %s" % (where, n1, str(v2)[:60], str(v1)[:60])
        if len(p) != len(q):
            return "%s: set of stored parameters changed" % where
        return None
    d = walk(x[1], y[1], "assembly")
    if d:
        return d
    for bi, ((bp, cps), (bq, cqs)) in enumerate(zip(x[2], y[2])):
        d = walk(bp, bq, "block %d" % bi)
        if d:
            return d
        for ci, (cp, cq) in enumerate(zip(cps, cqs)):
            d = walk(cp, cq, "block %d component %d" % (bi, ci))
            if d:
                return d
    return "structure"


def volint_totals(assems):
    """Sum over the blocks of `assems` of EVERY volume-integrated block parameter that holds numbers (scalars, lists,
    arrays summed elementwise into one number per parameter)."""
    from armi.reactor.parameters import ParamLocation
    tot = {}
    names = None
    for a in assems:
        for b in a:
            if names is None:
                names = [n for n in b.p.paramDefs.atLocation(ParamLocation.VOLUME_INTEGRATED).names]
            for n in names:
                v = b.p.get(n)
                if v is None or isinstance(v, (str, bool)):
                    continue
                try:
                    x = float(np.sum(np.asarray(v, dtype=float)))
                except (TypeError, ValueError):
                    continue
                tot[n] = tot.get(n, 0.0) + x
    return tot


def same(x, y):
    """structural equality; floats to 1e-9 relative (recomputed masses / areas), everything else exact"""
    if isinstance(x, float) and isinstance(y, float):
        return x == y or abs(x - y) <= 1e-9 * max(abs(x), abs(y))
    if isinstance(x, (tuple, list)) and isinstance(y, (tuple, list)):
        return len(x) == len(y) and all(same(a, b) for a, b in zip(x, y))
    if isinstance(x, dict) and isinstance(y, dict):
        return set(x) == set(y) and all(same(x[k], y[k]) for k in x)
    return x == y


def edge_pairs(core):
    """(assembly on the 0-degree line, its partner on the 120-degree line) for every cut assembly with both halves"""
    by = {cell_of(a): a for a in core}
    return [(a, by[(-c[0] - c[1], c[0])]) for c, a in sorted(by.items()) if on0(c) and (-c[0] - c[1], c[0]) in by]


def lines_aligned(core):
    cells = {cell_of(a) for a in core}
    low = {(-c[0] - c[1], c[0]) for c in cells if on0(c)}
    up = {c for c in cells if on120(c)}
    return low == up


def symmetry_ok(r, fails, case, tag, base_totals):
    """Symmetry factor by geometric classification of the cell (centre 3; on a symmetry line with its 120-degree partner
    also modelled 2; else 1), and: a third core carrying its edge assemblies holds the same mass / volume as without."""
    core = r.core
    if core.isFullCore:
        bad = [a.name for a in core if a.getSymmetryFactor() != 1.0 or any(b.getSymmetryFactor() != 1.0 for b in a)]
        if bad:
            fails.append(Failure("symmetry-factor-by-geometry", "full-core assemblies are whole (factor 1)", case,
                                 observed=bad[:4], note=tag))
        return
    cells = {cell_of(a) for a in core}
    wrong, heuristic = [], True
    for a in core:
        c = cell_of(a)
        if c == (0, 0):
            want = 3.0
        elif on0(c) and (-c[0] - c[1], c[0]) in cells:
            want = 2.0
        elif on120(c) and (c[1], c[0]) in cells:
            want = 2.0
        else:
            want = 1.0
        got = {float(a.getSymmetryFactor())} | {float(b.getSymmetryFactor()) for b in a}
        if got != {want}:
            wrong.append((a.name, c, sorted(got), want))
            if not (got == {1.0} and want == 2.0 and (-1, 2) not in cells):
                heuristic = False
    if wrong:
        # the unchanged code recognises edge assemblies by the ring-3 cell (-1,2) alone: with a hole there, cut
        # assemblies of other rings count as whole (a listed finding); any other mismatch is new
        key = "edge-symmetry-factor-needs-ring3-edge-cell" if heuristic else "symmetry-factor-by-geometry"
        fails.append(Failure(key, "a block cut by a symmetry line (both halves modelled) has symmetry factor 2, the centre 3, "
                             "every other 1 - blocks on the 120-degree line exactly as their partners on the 0-degree line",
                             case, observed=wrong[:4], note=tag))
        return
    if base_totals is not None and lines_aligned(core):
        got = geo_totals(core)
        for gi, (x, y) in enumerate(zip(got, base_totals)):
            if not close(x, y):
                fails.append(Failure("mass-with-edge-assemblies", "a third core carrying its edge assemblies holds the same mass "
                                     "and volume as without them (= full core / 3)", case, observed=x, expected=y,
                                     note=tag + " quantity %s" % (NUCS + ["volume"])[gi]))
                return


def lookups_ok(r, fails, case, tag):
    """childrenByLocator / assembliesByName / blocksByName resolve exactly to the children."""
    core = r.core
    kids = list(core)
    names = [a.name for a in kids]
    if len(set(names)) != len(names):
        fails.append(Failure("names-unique", "assembly names in the core are pairwise distinct", case,
                             observed=sorted(n for n in names if names.count(n) > 1)[:4], note=tag))
    cells = [cell_of(a) for a in kids]
    if len(set(cells)) != len(cells):
        fails.append(Failure("one-assembly-per-cell", "each location holds at most one assembly", case,
                             observed=sorted(c for c in cells if cells.count(c) > 1)[:4], note=tag))
    by = core.childrenByLocator
    if len(by) != len(kids) or any(by.get(a.spatialLocator) is not a for a in kids):
        fails.append(Failure("bylocator-truthful", "childrenByLocator lists exactly the assemblies present", case,
                             observed=[len(by), len(kids)], note=tag))
    sfp = r.excore.get("sfp")
    sfpnames = {a.name for a in sfp} if sfp is not None else set()
    bn = core.assembliesByName
    extraA = getattr(r, "_verifExtraA", {})
    stale = [n for n in bn if n not in set(names) and n not in sfpnames and extraA.get(n) != id(bn[n])]
    missing = [a.name for a in kids if bn.get(a.name) is not a]
    missing += [n for n, i in extraA.items() if n not in bn or id(bn[n]) != i]
    if sfp is not None:
        missing += [a.name for a in sfp if bn.get(a.name) is not a]
    if stale or missing:
        fails.append(Failure("byname-truthful", "assembliesByName resolves exactly the assemblies present", case,
                             observed={"stale": stale[:4], "missing": missing[:4]}, note=tag))
    bb = core.blocksByName
    bmissing = [b.name for a in kids for b in a if bb.get(b.name) is not b]
    present = {b.name for a in kids for b in a} | ({b.name for a in sfp for b in a} if sfp is not None else set())
    extraB = getattr(r, "_verifExtraB", {})
    bstale = [n for n in bb if n not in present and extraB.get(n) != id(bb[n])]
    if sfp is not None:
        bmissing += [b.name for a in sfp for b in a if bb.get(b.name) is not b]
    if bmissing or bstale:
        fails.append(Failure("blocksbyname-truthful", "blocksByName resolves exactly the blocks present", case,
                             observed={"stale": bstale[:4], "missing": bmissing[:4]}, note=tag))


    snap = getattr(r, "_verifSfp", None)
    if snap is not None:
        now = [(id(a), a.name, tuple(id(b) for b in a)) for a in sfp]
        if now != snap:
            fails.append(Failure("sfp-untouched", "geometry conversions neither add to nor take from the spent-fuel pool "
                                 "(transient copies are purged, not discharged)", case,
                                 observed={"before": len(snap), "after": len(now),
                                           "new": [n for (_, n, _) in now if n not in {m for (_, m, _) in snap}][:4]},
                                 note=tag))


# ---------------------------------------------------------------------------------------------------------------
# below block level: pin lattices (block.spatialGrid), their armiObject back references, child locators, pin-level
# global coordinates, object-graph independence of copies
# ---------------------------------------------------------------------------------------------------------------
NSITE = 3                      # sampled sites per MultiIndexLocation (first, last, one pseudo-random); all when full=True


def site_positions(n, key, full=False):
    if full or n <= NSITE:
        return list(range(n))
    return [0, 1 + (key * 2654435761) % (n - 2), n - 1]


def child_sites(c, key, full=False):
    """The locator objects of one component that an observer below block level resolves: list of IndexLocation-like
    objects (sub-locators of a MultiIndexLocation, or the locator itself)."""
    from armi.reactor import grids
    loc = c.spatialLocator
    if loc is None:
        return "none", []
    if isinstance(loc, grids.MultiIndexLocation):
        subs = list(loc)
        return "multi", [subs[p] for p in site_positions(len(subs), key, full)]
    if isinstance(loc, grids.CoordinateLocation):
        return "coord", [loc]
    return "index", [loc]


def block_pins(b, key, full=False):
    """per child: (kind, number of sites, global coordinates of the (sampled) sites, local indices of those sites)"""
    out = []
    for ci, c in enumerate(b):
        kind, sites = child_sites(c, key + 7 * ci, full)
        n = len(c.spatialLocator) if kind == "multi" else len(sites)
        try:
            xyz = tuple(tuple(float(v) for v in s.getGlobalCoordinates()) for s in sites)
        except Exception as e:  # noqa - a locator that cannot be resolved is an observation, too
            xyz = ("unresolvable", type(e).__name__)
        out.append((kind, n, xyz))
    return tuple(out)


def assem_pins(a, vseed, full=False):
    return tuple(block_pins(b, vseed + 31 * bi, full) for bi, b in enumerate(a))


def pins_close(p, q, tol=1e-8):
    """same structure, coordinates within tol (absolute, cm)"""
    if isinstance(p, float) and isinstance(q, float):
        return abs(p - q) <= tol
    if isinstance(p, tuple) and isinstance(q, tuple):
        return len(p) == len(q) and all(pins_close(x, y, tol) for x, y in zip(p, q))
    return p == q


def rot_pins(p, k):
    """the pin table of a source turned by k * 120 degrees about the core axis"""
    ang = math.radians(120.0 * k)
    cs, sn = math.cos(ang), math.sin(ang)
    out = []
    for blk in p:
        row = []
        for kind, n, xyz in blk:
            if xyz and xyz[0] == "unresolvable":
                row.append((kind, n, xyz))
            else:
                row.append((kind, n, tuple((x * cs - y * sn, x * sn + y * cs, z) for (x, y, z) in xyz)))
        out.append(tuple(row))
    return tuple(out)


def sub_structure(a):
    """Ownership facts of one assembly, by object identity: per block (id(block), id(pin lattice) or None,
    id(lattice.armiObject), every child locator that has a grid sits on the block's lattice)."""
    out = []
    for b in a:
        g = b.spatialGrid
        on_own = all(getattr(c.spatialLocator, "grid", None) is g for c in b
                     if c.spatialLocator is not None and getattr(c.spatialLocator, "grid", None) is not None)
        out.append((id(b), id(g) if g is not None else None, id(g.armiObject) if g is not None else None, on_own))
    return tuple(out)


def top_objects(a):
    """the structural objects below an assembly that must belong to it alone (identity -> description)"""
    out = {id(a): "assembly", id(a.p): "assembly.p"}
    if a.spatialGrid is not None:
        out[id(a.spatialGrid)] = "assembly.spatialGrid"
    for bi, b in enumerate(a):
        out[id(b)] = "block %d" % bi
        out[id(b.p)] = "block %d .p" % bi
        if b.spatialGrid is not None:
            out[id(b.spatialGrid)] = "block %d .spatialGrid" % bi
        if b.spatialLocator is not None:
            out[id(b.spatialLocator)] = "block %d .spatialLocator" % bi
        for c in b:
            out[id(c)] = "block %d component %s" % (bi, c.name)
            out[id(c.p)] = "block %d component %s .p" % (bi, c.name)
            if getattr(c, "material", None) is not None:
                out[id(c.material)] = "block %d component %s .material" % (bi, c.name)
            if c.spatialLocator is not None:
                out[id(c.spatialLocator)] = "block %d component %s .spatialLocator" % (bi, c.name)
    return out


_ATOMS = None
_COUNTED = None


def reach(root):
    """identity -> (path, counts) of every mutable object reachable from an assembly going DOWN (counts: it is one of the
    kinds that must not be shared - composite, parameter collection, grid, locator, material, numpy array, or a
    list / dict / set held as a parameter value): attributes, containers, numpy
    object arrays; never through `parent` / `armiObject` (back references, checked separately), the assembly's own
    locator (it lives on the core's grid), nor the two members Block.__deepcopy__ documents as shared on purpose
    (macros, _lumpedFissionProducts). Tuples / frozensets are descended into but are not counted themselves."""
    import enum
    import types
    global _ATOMS
    if _ATOMS is None:
        _ATOMS = (str, bytes, int, float, complex, bool, type(None), type, types.FunctionType, types.ModuleType,
                  types.BuiltinFunctionType, types.MethodType, enum.Enum, np.generic)
    global _COUNTED
    if _COUNTED is None:
        from armi import materials
        from armi.reactor import composites, grids
        from armi.reactor.parameters import parameterCollections
        _COUNTED = (composites.ArmiObject, parameterCollections.ParameterCollection, grids.Grid, grids.LocationBase,
                    materials.Material, np.ndarray)
    skip = {"parent", "macros", "_lumpedFissionProducts", "armiObject", "__dict__", "__weakref__"}
    seen, passed = {}, set()
    if root.spatialLocator is not None:
        passed.add(id(root.spatialLocator))
    stack = [(root, "assembly")]
    while stack:
        x, path = stack.pop()
        if isinstance(x, _ATOMS) or id(x) in seen or id(x) in passed:
            continue
        if isinstance(x, (tuple, frozenset)):
            passed.add(id(x))
            stack.extend((v, path) for v in x)
            continue
        seen[id(x)] = (path, isinstance(x, _COUNTED) or (isinstance(x, (list, dict, set)) and "._p_" in path))
        if isinstance(x, dict):
            for k, v in x.items():
                stack.append((v, path + "[%r]" % (k,)))
                stack.append((k, path + ".key"))
        elif isinstance(x, (list, set)):
            stack.extend((v, path + "[]") for v in x)
        elif isinstance(x, np.ndarray):
            if x.dtype == object:
                stack.extend((v, path + "[]") for v in x.flat)
        else:
            d = getattr(x, "__dict__", None)
            if d:
                stack.extend((v, path + "." + k) for k, v in d.items() if k not in skip)
            for cls in type(x).__mro__:
                for k in getattr(cls, "__slots__", ()) or ():
                    if k in skip:
                        continue
                    try:
                        stack.append((getattr(x, k), path + "." + k))
                    except AttributeError:
                        pass
    return seen


def zones_of(core, a):
    return sorted(z.name for z in core.zones if a.getLocation() in z.locs)


def zones_ok(r, fails, case, tag):
    """Third-core states: the zones hold the locations they held at the start (the copies' locations, which convert adds
    to the zone of their source, are gone again)."""
    base = getattr(r, "_verifZones", None)
    core = r.core
    if base is None or core.isFullCore:
        return
    now = {z.name: set(z.locs) for z in core.zones}
    if now == base:
        return
    grid = core.spatialGrid
    only_stale_copies = set(now) == set(base)
    for name in base:
        if not only_stale_copies:
            break
        images = set()
        for a in core:
            if a.getLocation() in base[name]:
                c = cell_of(a)
                images |= {grid.getLabel((x[0], x[1], 0))[:7] for x in orbit(c)[1:]}
        if base[name] - now[name] or not (now[name] - base[name]) <= images:
            only_stale_copies = False
    key = "restore-leaves-copies-in-zones" if only_stale_copies else "restore-exact-zones"
    diff = {n: sorted(now.get(n, set()) ^ base.get(n, set()))[:4] for n in set(now) | set(base)
            if now.get(n) != base.get(n)}
    fails.append(Failure(key, "undoing the conversion returns the core to its previous state: every zone holds the "
                         "locations it held before", case, observed=diff, note=tag))


def sub_line(core, vseed):
    """Canonical form of what hangs below the assemblies, for the comparison with Model/Sym3.lean `Sub`: objects are
    named (assembly number, role) by FIRST encounter walking the children in order (role = block index for a block,
    100 + block index for its pin lattice); -2 = an object that belongs to no assembly of the core."""
    from armi.reactor import grids
    names = {}
    for a in core:
        for bi, b in enumerate(a):
            names.setdefault(id(b), (a.getNum(), bi))
            if b.spatialGrid is not None:
                names.setdefault(id(b.spatialGrid), (a.getNum(), 100 + bi))
    ents = []
    for a in core:
        blks = []
        for bi, (b, (_, gid, oid, on_own)) in enumerate(zip(a, sub_structure(a))):
            pins = []
            for ci, c in enumerate(b):
                kind, sites = child_sites(c, vseed + 31 * bi + 7 * ci)
                if kind in ("multi", "index"):
                    pins += ["[%d,%d]" % (int(s.i), int(s.j)) for s in sites]
            gn = names[gid] if gid is not None else (-1, 0)
            on = names.get(oid, (-2, 0)) if gid is not None else (-1, 0)
            bv = []
            for n in bnd_names(b):
                kind, vals = bnd_val(b.p[n])
                bv.append(common.ratlist([Fraction(x) for x in vals]) if kind in ("A", "L") else "[]")
            blks.append("[%d,%d,%d,%d,%d,%d,%d,[%s],%d,[%s]]" % (
                names[id(b)] + gn + on + (1 if on_own else 0, ",".join(pins), int(round(float(b.p.orientation[2]))),
                                          ",".join(bv))))
        ents.append("[%d,[%s]]" % (a.getNum(), ",".join(blks)))
    return "[" + ",".join(ents) + "]"


def sub_ok(r, fails, case, tag, base_sub):
    """In EVERY state: each pin lattice belongs to the block that holds it, child locators sit on their own block's
    lattice, no structural object below an assembly is held by two assemblies; in third-core states the sources'
    lattices are the objects they were and their pins resolve to the original global coordinates."""
    core = r.core
    vseed = case["spec"]["vseed"]
    owner, shared, notown, offgrid = {}, [], [], []
    for a in core:
        for i, what in top_objects(a).items():
            other = owner.setdefault(i, (a, what))
            if other[0] is not a:
                shared.append((a.name, what, other[0].name, other[1]))
        for bi, (bid, gid, oid, on_own) in enumerate(sub_structure(a)):
            if gid is not None and oid != bid:
                notown.append((a.name, cell_of(a), bi))
            if not on_own:
                offgrid.append((a.name, cell_of(a), bi))
    if shared:
        fails.append(Failure("copies-independent-deep", "no object below an assembly (pin lattice, locator, component, "
                             "material, parameter collection) is held by two assemblies", case, observed=shared[:4], note=tag))
    if notown:
        fails.append(Failure("pin-lattice-owned", "the pin lattice of every block refers back to that block "
                             "(spatialGrid.armiObject is the block)", case, observed=notown[:4], note=tag))
    if offgrid:
        fails.append(Failure("pin-locators-on-own-lattice", "every child locator of a block sits on that block's pin lattice",
                             case, observed=offgrid[:4], note=tag))
    if base_sub is None:
        return
    by = {cell_of(a): a for a in core}
    for c, (aid, struct, pins) in base_sub.items():
        a = by.get(c)
        if a is None or id(a) != aid:
            continue                               # reported by restore-exact
        if [(b, g is not None, o == b, w) for (b, g, o, w) in sub_structure(a)] != \
                [(b, g is not None, o == b, w) for (b, g, o, w) in struct]:
            fails.append(Failure("restore-exact-pin-lattice", "the original assemblies keep their blocks and the blocks their pin "
                                 "lattices (each owned by its block, children on it) through conversions and back", case,
                                 observed=[c, a.name], note=tag))
            return
        if core.isFullCore:
            continue                               # the sources' pins in the full core are compared in check_full (k = 0)
        now = assem_pins(a, vseed)
        if not pins_close(now, pins, 1e-9):
            bad = [(bi, ci) for bi, (x, y) in enumerate(zip(now, pins)) for ci, (u, v) in enumerate(zip(x, y))
                   if not pins_close(u, v, 1e-9)]
            bi, ci = bad[0] if bad else (0, 0)
            fails.append(Failure("restore-exact-pins", "the pins of the original assemblies resolve to their original "
                                 "global coordinates in every state (full core, third core again, with and without edge "
                                 "assemblies)", case,
                                 observed=[c, a.name, "block %d child %d" % (bi, ci), now[bi][ci][2][:1]],
                                 expected=pins[bi][ci][2][:1], note=tag))
            return


def base_sub_snapshot(r, vseed):
    return {cell_of(a): (id(a), sub_structure(a), assem_pins(a, vseed)) for a in r.core if not on120(cell_of(a))}


def copies_deep_ok(core, groups, fails, case, tag):
    """object graphs of the members of each group (source + its copies) are pairwise disjoint"""
    for cells in groups:
        by = {cell_of(a): a for a in core}
        mem = [by[c] for c in cells if c in by]
        seen = {}
        for a in mem:
            for i, (path, counts) in reach(a).items():
                if not counts:
                    continue
                if i in seen and seen[i][0] is not a:
                    fails.append(Failure("copies-independent-deep", "no object reachable from a copy (grid, locator, "
                                         "component, material, parameter collection, array) is shared with its source or "
                                         "with the other copy", case,
                                         observed=[a.name, path, seen[i][0].name, seen[i][1]], note=tag))
                    return
                seen[i] = (a, path)


def vary_pins(core, rng, mode):
    """Pin layouts other than the complete auto-created lattice, on a few assemblies: components that occupy only part
    of the lattice (what a blueprint lattice map gives; not invariant under 60-degree turns), a single off-centre
    IndexLocation, an off-centre CoordinateLocation."""
    from armi.reactor import grids
    pinned = [a for a in sorted(core, key=cell_of) if any(b.spatialGrid is not None for b in a)]
    if not pinned or mode == "auto":
        return
    for a in rng.sample(pinned, min(len(pinned), 6)):
        for b in a:
            g = b.spatialGrid
            if g is None or rng.random() < 0.3:
                continue
            for c in b:
                loc = c.spatialLocator
                what = rng.choice(["partial", "partial", "single", "keep"]) if mode == "mixed" else "partial"
                if isinstance(loc, grids.MultiIndexLocation) and what == "partial":
                    subs = [s for s in loc if rng.random() < 0.6] or [list(loc)[-1]]
                    new = grids.MultiIndexLocation(g)
                    new.extend([g[int(s.i), int(s.j), int(s.k)] for s in subs])
                    c.spatialLocator = new
                elif isinstance(loc, grids.MultiIndexLocation) and what == "single":
                    i, j = rng.choice([(1, 0), (2, -1), (-1, 3), (0, -2), (3, 1)])
                    c.spatialLocator = g[i, j, 0]
                elif isinstance(loc, grids.CoordinateLocation) and mode == "mixed" and rng.random() < 0.5:
                    c.spatialLocator = grids.CoordinateLocation(rng.randint(-8, 8) / 16.0, rng.randint(1, 8) / 16.0, 0.0, g)


def close(x, y, tol=1e-9):
    return abs(x - y) <= tol * max(1.0, abs(x), abs(y))


def run_case(ctx, spec, ops, compare=True):
    """Drive one case on the real code; returns (failures, request lines, impl lines, float checks)."""
    from armi.reactor.converters import geometryConverters as gc

    case = {"spec": spec, "ops": list(ops)}
    fails = []
    try:
        o, r = build_case(spec)
    except SetupRaised as e:
        ctx.count("setup raised")
        return [Failure("operation-raises", "removing assemblies without discharge / adding edge assemblies completes on "
                        "every third-core hex core (here: while the case's core was cut down from the fixture)", case,
                        observed=repr(e.args[0])[:200], note="setup")], [], [], []
    core = r.core
    ch = gc.ThirdCoreHexToFullCoreChanger(o.cs)
    ch2 = gc.ThirdCoreHexToFullCoreChanger(o.cs)     # a second (inner) changer, used by the ops convert2 / restore2
    ec = gc.EdgeAssemblyChanger()
    req = [init_line(r), "pinit " + sub_line(core, spec["vseed"])]
    impl = [None, "ok"]      # init: the model's echo (not compared with impl)
    floats = []              # (index of request line, impl float list)
    lookups_ok(r, fails, case, "init")
    base_totals = geo_totals(core) if not any(on120(cell_of(a)) for a in core) else None
    symmetry_ok(r, fails, case, "init", base_totals)
    base0 = snapshot(r, with_mass=False)
    base_sub = base_sub_snapshot(r, spec["vseed"])
    base_par = all_params(r)
    sub_ok(r, fails, case, "init", base_sub)
    # hypotheses of the theorems below block level (Props/C13 `Clean`, `FreshTable`) on the real start state: every
    # object is named by its own assembly (nothing shared, every lattice owned by its block) and every assembly number
    # is below maxAssemNum
    hyp = all(a.getNum() < int(r.p.maxAssemNum) for a in core) and not any(
        f.key in ("copies-independent-deep", "pin-lattice-owned") for f in fails)
    ctx.count("theorem hypotheses Clean / FreshTable at init: " + ("hold" if hyp else "VIOLATED"))
    ctx.count("blocks with a pin lattice", sum(1 for a in core for b in a if b.spatialGrid is not None))
    ctx.count("pin layout " + spec.get("pins", "auto"))
    ctx.count("fixture " + spec.get("fixture", "ref"))
    ctx.count("prior rotations " + spec.get("prerot", "none"))
    ctx.count("cores with zones" if spec.get("zones") else "cores without zones")
    ctx.count("source assemblies with non-zero orientation", sum(1 for a in core if int(round(float(a[0].p.orientation[2]))) % 360))
    ctx.count("blocks with more than two boundary vectors",
              sum(1 for a in core for b in a if sum(1 for _, (k, v) in bnd_sig(b) if k in "AL" and len(v) == 6) > 2))
    had_edges0 = any(on120(cell_of(a)) for a in core)
    full0 = snapshot(r, with_mass=True) if not had_edges0 else None
    pre_convert = None
    for k, op in enumerate(ops):
        tag = "op %d %s" % (k, op)
        was_full = core.isFullCore
        cells_now = {cell_of(a) for a in core}
        shape_before = (len(core), (0, 0) in cells_now, sum(1 for c in cells_now if on120(c)),
                        sum(1 for c in cells_now if on0(c)), (-1, 2) in cells_now, any(c[1] < 0 for c in cells_now),
                        bool(ch._newAssembliesAdded), bool(ec._newAssembliesAdded), bool(ch.listOfVolIntegratedParamsToScale))
        if op == "convert" and not was_full:
            src = [a for a in core if not on120(cell_of(a))]
            pre_convert = {
                "edges": [cell_of(a) for a in core if on120(cell_of(a))],
                "cells": [cell_of(a) for a in src],
                "whole": {cell_of(a): whole_geo(a) for a in src},
                "par": {cell_of(a): par_of(a) for a in src},
                "src": {cell_of(a): (a._verifSrc, int(round(float(a[0].p.orientation[2]))), a.name) for a in src},
                "names": {a.name for a in core},
                "spatial": {cell_of(a): [spatial_sig(b) for b in a] for a in src},
                "objs": {id(x) for a in src for x in [a] + a.getChildren(deep=True)},
                "calc": [core.calcTotalParam(p, generationNum=2, addSymmetricPositions=True) for p in PARAMS],
                "pins": {cell_of(a): assem_pins(a, spec["vseed"]) for a in src},
                "volint": volint_totals(src),
                "zones": {cell_of(a): zones_of(core, a) for a in src} if getattr(r, "_verifZones", None) is not None else None,
                "volint_centre": volint_totals([a for a in src if cell_of(a) == (0, 0)]),
            }
            # a few orbits get the complete treatment (every pin, whole object graph)
            import random as _random
            pinned = sorted(cell_of(a) for a in src if any(b.spatialGrid is not None for b in a))
            deep = _random.Random(spec["vseed"] + k).sample(pinned, min(len(pinned), ctx.pick(2, 4))) if pinned else []
            pre_convert["deep"] = deep
            pre_convert["allpins"] = {c: assem_pins(a, spec["vseed"], full=True) for a in src for c in [cell_of(a)] if c in deep}
        if op in ("convert2", "restore2") and not (core.isFullCore and not ch2._newAssembliesAdded):
            continue                          # the inner changer is only exercised on a core the outer one expanded
        before_inner = canon_state(r, ch, ec) if op in ("convert2", "restore2") else None
        # calls the property makes no-ops: convert / addEdge / removeEdge on a full core, addEdge through a changer that
        # already added its edge assemblies: core AND changer bookkeeping stay as they are
        noop = (was_full and op in ("convert", "addEdge", "removeEdge")) or \
            (op == "addEdge" and not was_full and bool(ec._newAssembliesAdded))
        before_noop = (canon_state(r, ch, ec), tuple(ch.listOfVolIntegratedParamsToScale),
                       tuple(id(a) for a in ch._newAssembliesAdded), tuple(id(a) for a in ec._newAssembliesAdded)) \
            if noop else None
        if op == "solveScale":
            pairs = edge_pairs(core)
            if core.isFullCore or not pairs or not lines_aligned(core):
                continue                      # only meaningful on a third core whose cut assemblies all have both halves
        raised = None
        try:
            with common.quiet():
                if op == "solveScale":
                    # what a flux solver on the model with edge assemblies hands back: each half of a cut assembly
                    # carries half of the whole hexagon's volume-integrated values; then the public scaling call
                    for a, image in pairs:
                        for b, bi in zip(a, image):
                            for pn in PARAMS:
                                whole = float(b.p[pn])
                                b.p[pn] = whole / 2.0
                                bi.p[pn] = whole / 2.0
                            vals = [float(x) for x in b.p[LISTPARAM]]
                            b.p[LISTPARAM] = [v / 2.0 for v in vals]
                            bi.p[LISTPARAM] = [v / 2.0 for v in vals]
                    ec.scaleParamsRelatedToSymmetry(core)
                elif op == "convert2":
                    ch2.convert(r)
                elif op == "restore2":
                    ch2.restorePreviousGeometry(r)
                elif op == "convert":
                    ch.convert(r)
                elif op == "restore":
                    # both call forms: with the reactor, and without (the changer remembers the one it converted)
                    if (spec["vseed"] + k) % 2:
                        ch.restorePreviousGeometry(r)
                    else:
                        ch.restorePreviousGeometry()
                elif op == "addEdge":
                    ec.addEdgeAssemblies(core)
                elif op == "removeEdge":
                    ec.removeEdgeAssemblies(core)
        except Exception as e:  # noqa
            raised = e
        ctx.count("op " + op + (" (raised)" if raised is not None else ""))
        ctx.distinct.add(("op", op, was_full, bool(spec.get("track")), shape_before, spec["rings"], len(spec["holes"]), bool(spec.get("edges0")),
                          spec.get("arr", "list"), spec.get("pins", "auto"), spec.get("fixture", "ref"),
                          spec.get("prerot", "none"), spec.get("bnd", "two"),
                          "ok" if raised is None else type(raised).__name__))
        req.append(op)
        if raised is not None:
            line = canon_state(r, ch, ec) + " raised" if op == "restore" else "reject"
            impl.append(line)
        else:
            impl.append(canon_state(r, ch, ec))
        req.append("geo %d" % NGEO)
        impl.append(None)
        floats.append((len(req) - 1, geo_totals(core)))
        _ = [b.getArea() for b in core.getBlocks()], core.getVolume(), core.getMass()   # populate caches
        req.append("par %d" % NPAR)
        impl.append(common.ratlist(par_totals(core)))
        if raised is None:
            req.append("sub")
            impl.append(sub_line(core, spec["vseed"]))
        # ---------------- implementation-side oracle
        if before_inner is not None and raised is None and canon_state(r, ch, ec) != before_inner:
            fails.append(Failure("inner-changer-noop-touches-core", "a second changer whose convert() was a no-op (core already "
                                 "full) leaves the full core untouched, also in its restorePreviousGeometry()", case,
                                 observed={"symmetry": str(core.symmetry), "assemblies": len(core)}, note=tag))
        if before_noop is not None and raised is None:
            after_noop = (canon_state(r, ch, ec), tuple(ch.listOfVolIntegratedParamsToScale),
                          tuple(id(a) for a in ch._newAssembliesAdded), tuple(id(a) for a in ec._newAssembliesAdded))
            ctx.count("redundant call " + op)
            if after_noop != before_noop:
                what = ["core state", "list of parameters to scale", "assemblies the conversion added",
                        "edge assemblies added"]
                fails.append(Failure("redundant-call-not-a-noop", "a redundant call (convert / addEdge / removeEdge on a core "
                                     "that is already full, addEdge twice) leaves the core and what the changer remembers for "
                                     "undoing as they were", case,
                                     observed=[w for w, x, y in zip(what, before_noop, after_noop) if x != y], note=tag))
        lookups_ok(r, fails, case, tag)
        sub_ok(r, fails, case, tag, base_sub)
        if raised is None:
            zones_ok(r, fails, case, tag)
        if raised is None and op == "addEdge" and not core.isFullCore:
            copies_deep_ok(core, [[cell_of(a), cell_of(image)] for a, image in edge_pairs(core)], fails, case, tag)
        if raised is None:
            symmetry_ok(r, fails, case, tag, base_totals)
        if raised is not None:
            key = "restore-without-centre-raises" if (op == "restore" and not any(cell_of(a) == (0, 0) for a in core)) \
                else "operation-raises"
            fails.append(Failure(key, "the four conversion operations complete on every third-core hex core", case,
                                 observed=repr(raised)[:200], note=tag))
            break
        if op == "convert" and not was_full:
            check_full(r, pre_convert, fails, case, tag)
        if op == "restore" and was_full and core.isFullCore:
            key = "restore-centre-only-core-stays-full" if len(core) == 1 else "restore-leaves-full-core"
            fails.append(Failure(key, "undoing the conversion returns the core to third-core symmetry", case,
                                 observed=str(core.symmetry), note=tag))
        if not core.isFullCore:
            now = snapshot(r, with_mass=False)
            if now != base0:
                diff = [c for c in set(now) | set(base0) if now.get(c) != base0.get(c)]
                fails.append(Failure("restore-exact", "after undoing, the same assemblies sit at the same places with the "
                                     "same names, blocks and parameters", case, observed=sorted(diff)[:5], note=tag))
            nowp = all_params(r) if op in ("restore", "removeEdge") else base_par      # after the undo operations
            if nowp is not base_par and not same(nowp, base_par) and now == base0:
                diff = sorted(c for c in set(nowp) & set(base_par) if not same(nowp[c], base_par[c]))
                what = first_param_diff(nowp[diff[0]], base_par[diff[0]]) if diff else "cells"
                fails.append(Failure("restore-exact-all-params", "after undoing, every assembly, block and component has the "
                                     "parameters it had (every stored parameter, floats to 1e-9 relative)", case,
                                     observed=[diff[:4], what], note=tag))
            edges_now = [cell_of(a) for a in core if on120(cell_of(a))]
            if op == "restore" and was_full and pre_convert is not None and pre_convert["edges"] and not edges_now:
                fails.append(Failure("restore-loses-edge-assemblies", "undoing the conversion returns the core to its "
                                     "previous state (edge assemblies included)", case,
                                     observed={"edges before convert": pre_convert["edges"], "after restore": edges_now},
                                     note=tag))
            if not edges_now and full0 is not None:
                nowm = snapshot(r, with_mass=True)
                if not same(nowm, full0):
                    diff = [c for c in set(nowm) | set(full0) if not same(nowm.get(c), full0.get(c))]
                    fails.append(Failure("restore-exact-mass-symmetry", "after undoing, masses and symmetry factors are "
                                         "the previous ones", case, observed=sorted(diff)[:5], note=tag))
    return fails, req, impl, floats


def check_full(r, pre, fails, case, tag):
    """x3 / orbit / independence clauses on the real full core against the third-core state `pre`."""
    core = r.core
    cells = [cell_of(a) for a in core]
    want = [x for c in pre["cells"] for x in orbit(c)]
    if sorted(cells) != sorted(want) or len(set(cells)) != len(cells):
        fails.append(Failure("full-cells-are-orbits", "full-core cells are exactly the 120-degree orbits of the "
                             "third-core cells, none twice", case,
                             observed={"extra": sorted(set(cells) - set(want))[:5], "missing": sorted(set(want) - set(cells))[:5]},
                             note=tag))
    n = len(pre["cells"])
    centre = 1 if (0, 0) in pre["cells"] else 0
    if len(core) != 3 * n - 2 * centre:
        fails.append(Failure("count-times-three", "assembly count is 3n - 2*[centre]", case,
                             observed=len(core), expected=3 * n - 2 * centre, note=tag))
    if not core.isFullCore:
        fails.append(Failure("full-symmetry", "converted core reports full-core symmetry", case, note=tag))
    # totals: mass per nuclide and volume
    got = geo_totals(core)
    for gi in range(NGEO):
        third = sum(pre["whole"][c][gi] / (3.0 if c == (0, 0) else 1.0) for c in pre["cells"])
        if not close(got[gi], 3.0 * third):
            fails.append(Failure("mass-volume-times-three", "mass of every nuclide and volume are three times the "
                                 "third-core values", case, observed=got[gi], expected=3.0 * third,
                                 note=tag + " quantity %s" % (NUCS + ["volume"])[gi]))
    gotp = par_totals(core)
    for pi in range(NPAR):
        third = sum((pre["par"][c][pi] for c in pre["cells"]), Fraction(0))
        if gotp[pi] != 3 * third:
            onlyc = (0, 0) in pre["cells"]
            key = "param-total-times-three"
            if onlyc:
                ca = core.childrenByLocator[core.spatialGrid[0, 0, 0]]
                # the listed finding is narrow: the unchanged code leaves the centre unscaled only when the centre is the
                # FIRST assembly the loop visits (no cell with j < 0: nothing is copied, hence nothing re-flagged,
                # before it) after a flag-clearing addEdgeAssemblies; any other unscaled centre is a plain violation
                centre_first = not any(c[1] < 0 for c in pre["cells"])
                if centre_first and par_of(ca)[pi] == pre["par"][(0, 0)][pi] and \
                        gotp[pi] - 3 * third == -2 * pre["par"][(0, 0)][pi]:
                    key = "centre-params-not-scaled"
            fails.append(Failure(key, "every volume-integrated total is three times the third-core value "
                                 "(the centre assembly counting once)", case, observed=str(gotp[pi]),
                                 expected=str(3 * third), note=tag + " param %d" % pi))
            break
    else:
        # the same relation for EVERY volume-integrated block parameter the blocks carry (floats, 1e-9 relative)
        gotv = volint_totals(core)
        for n, third in sorted(pre.get("volint", {}).items()):
            if not close(gotv.get(n, 0.0), 3.0 * third, 1e-9) and abs(gotv.get(n, 0.0) - 3.0 * third) > 1e-9 * abs(third):
                # the listed finding (see above), on a parameter that was not assigned since the flag-clearing
                # addEdgeAssemblies: the centre is the first assembly visited and keeps its third-core value
                cval = pre.get("volint_centre", {}).get(n)
                centre_first = (0, 0) in pre["cells"] and not any(c[1] < 0 for c in pre["cells"])
                if centre_first and cval is not None and close(gotv.get(n, 0.0) - 3.0 * third, -2.0 * cval, 1e-9):
                    fails.append(Failure("centre-params-not-scaled", "every volume-integrated total is three times the "
                                         "third-core value (the centre assembly counting once)", case,
                                         observed=[n, gotv.get(n)], expected=3.0 * third, note=tag))
                    break
                fails.append(Failure("param-total-times-three-all", "every volume-integrated total is three times the "
                                     "third-core value (the centre assembly counting once), for every volume-integrated "
                                     "block parameter", case, observed=[n, gotv.get(n)], expected=3.0 * third, note=tag))
                break
    # the public totals API: calcTotalParam agrees with the block sums, and its whole-core estimate
    # (addSymmetricPositions) is the same number before and after the conversion
    for pi, pn in enumerate(PARAMS):
        api = core.calcTotalParam(pn, generationNum=2)
        if Fraction(float(api)) != gotp[pi]:
            fails.append(Failure("calctotalparam-sum", "calcTotalParam sums the block parameter", case,
                                 observed=api, expected=str(gotp[pi]), note=tag))
        if not pre["edges"]:
            whole = core.calcTotalParam(pn, generationNum=2, addSymmetricPositions=True)
            if Fraction(float(whole)) != Fraction(float(pre["calc"][pi])) and gotp[pi] == 3 * sum(
                    (pre["par"][c][pi] for c in pre["cells"]), Fraction(0)):
                fails.append(Failure("calctotalparam-whole-core", "the whole-core total (symmetric positions added) is "
                                     "the same before and after growing to full core", case,
                                     observed=whole, expected=pre["calc"][pi], note=tag))
    # copies: independent, uniquely named, same payload, rotated into place
    bycell = {cell_of(a): a for a in core}
    seen = set()
    shared = False
    for a in core:
        for x in [a] + a.getChildren(deep=True):
            if id(x) in seen:
                shared = True
            seen.add(id(x))
    if shared:
        fails.append(Failure("copies-independent", "no object is shared between two assemblies", case, note=tag))
    copies_deep_ok(core, [orbit(c) for c in pre.get("deep", [])], fails, case, tag)
    for c in pre["cells"]:
        src, orient, name = pre["src"][c]
        for k, x in enumerate(orbit(c)):
            a = bycell.get(x)
            if a is None:
                continue
            o2 = int(round(float(a[0].p.orientation[2])))
            if getattr(a, "_verifSrc", None) != src:
                fails.append(Failure("copy-payload", "each new assembly is a copy of its source", case,
                                     observed=[x, getattr(a, "_verifSrc", None)], expected=src, note=tag))
                return
            if (o2 - orient) % 360 != (120 * k) % 360 or any(
                    int(round(float(b.p.orientation[2]))) != o2 for b in a):
                fails.append(Failure("copy-rotated", "each copy is rotated by the angle of its image cell", case,
                                     observed=[x, o2], expected=orient + 120 * k, note=tag))
                return
            # displacement vector rotated by the copy's angle (from the ORIGINAL x and y), corner / edge vectors shifted
            # by two positions per 120 degrees (iterables.pivot(v, -rotNum)); the source itself untouched
            ang = math.radians(120.0 * k)
            for bi, (b, (dx, dy, bsig)) in enumerate(zip(a, pre["spatial"][c])):
                ex = dx * math.cos(ang) - dy * math.sin(ang)
                ey = dx * math.sin(ang) + dy * math.cos(ang)
                gx, gy = float(b.p.displacementX), float(b.p.displacementY)
                tol = 1e-9 * max(1.0, math.hypot(dx, dy))
                if abs(gx - ex) > tol or abs(gy - ey) > tol:
                    fails.append(Failure("copy-rotated-displacement", "each copy's displacement vector is its source's "
                                         "rotated by 120 / 240 degrees (both components, length preserved)", case,
                                         observed=[x, bi, gx, gy], expected=[ex, ey], note=tag))
                    return
                wantb, gotb = bnd_turned(bsig, k), bnd_sig(b)
                if gotb != wantb:
                    bad = [(n, g, w) for (n, g), (_, w) in zip(gotb, wantb) if g != w]
                    fails.append(Failure("copy-rotated-boundary-params", "every corner / edge vector of a copy is its "
                                         "source's shifted by the copy's own turn (2 or 4 sixty-degree steps), whatever "
                                         "the source's orientation was; same kind (list / array)", case,
                                         observed=[x, bi, "source orientation %d" % orient, bad[0][0], bad[0][1]],
                                         expected=bad[0][2], note=tag))
                    return
            full = c in pre.get("deep", [])
            want = rot_pins(pre["allpins"][c] if full else pre["pins"][c], k)
            got = assem_pins(a, case["spec"]["vseed"], full=full)
            if not pins_close(got, want):
                bad = [(bi, ci) for bi, (p, q) in enumerate(zip(got, want)) for ci, (u, v) in enumerate(zip(p, q))
                       if not pins_close(u, v)]
                bi, ci = bad[0] if bad else (0, 0)
                fails.append(Failure("copy-pins-rotated", "the pins (child locators) of each copy resolve to the global "
                                     "coordinates of its source's pins turned by 120 / 240 degrees about the core axis, "
                                     "pin by pin", case,
                                     observed=[x, "block %d child %d" % (bi, ci), got[bi][ci][:2], got[bi][ci][2][:2]]
                                     if len(got) > bi and len(got[bi]) > ci else [x, len(got)],
                                     expected=want[bi][ci][2][:2] if len(want) > bi and len(want[bi]) > ci else None,
                                     note=tag))
                return
            if pre.get("zones") is not None and zones_of(core, a) != pre["zones"][c]:
                fails.append(Failure("copy-zone-membership", "each new assembly belongs to the zone of its source (and the "
                                     "sources stay where they were)", case, observed=[x, zones_of(core, a)],
                                     expected=pre["zones"][c], note=tag))
                return
            if k == 0 and a.name != name:
                fails.append(Failure("source-keeps-name", "source assemblies keep their names", case,
                                     observed=a.name, expected=name, note=tag))
            if k > 0 and a.name in pre["names"]:
                fails.append(Failure("copies-uniquely-named", "each new assembly has a fresh name", case,
                                     observed=a.name, note=tag))
                return


def gen_spec(rng, kind):
    fixture = rng.choice(["ref", "ref", "ref", "ref", "afci"])
    big = _BASE.get("thorough")       # quick: the 9-ring reference core is visited by the fixed corpus only
    rings = rng.choice([2, 3, 3, 4, 5, 6, 7, 9] if big else [2, 3, 3, 4, 4, 5, 6]) if fixture == "ref" else \
        rng.choice([3, 4, 5, 6, 8, 11] if big else [3, 4, 5])
    _, r0 = base_reactor(fixture)
    cells = [cell_of(a) for a in r0.core if ring_of(cell_of(a)) <= rings]
    p = rng.choice([0.0, 0.0, 0.1, 0.3])
    holes = [c for c in cells if c != (0, 0) and rng.random() < p]
    if kind == "nocentre":
        holes.append((0, 0))
    if kind == "centreonly":
        rings, holes = 1, []
    if kind == "jnonneg":
        holes = sorted(set(holes) | {c for c in cells if c[1] < 0})
    # keep at least one non-centre assembly (an empty core is no third-core model; the centre-only core is the separate
    # excluded-point stream)
    if kind != "centreonly" and len([c for c in cells if c not in holes and c != (0, 0)]) == 0:
        holes = [(0, 0)] if kind == "nocentre" else []
    edges0 = kind == "plain" and rng.random() < 0.25
    return {"rings": rings, "holes": sorted(holes), "edges0": edges0, "vseed": rng.randint(0, 10 ** 6),
            "arr": rng.choice(["list", "array", "aliased"]), "track": rng.random() < 0.5,
            "pins": rng.choice(["auto", "partial", "mixed", "mixed"]), "fixture": fixture,
            "prerot": rng.choice(["none", "some", "some", "all"]), "bnd": rng.choice(["two", "many", "many"]),
            "zones": rng.random() < 0.4}


PHRASES = [["convert", "convert", "restore"], ["convert", "restore", "restore"], ["convert", "convert", "restore", "restore"],
           ["addEdge", "addEdge", "removeEdge"], ["removeEdge"], ["addEdge", "removeEdge", "removeEdge"],
           ["convert", "restore", "convert", "restore"], ["convert", "addEdge", "removeEdge", "convert", "restore"],
           ["addEdge", "convert", "convert", "restore"], ["restore"], ["convert", "convert2", "convert", "restore2", "restore"],
           ["addEdge", "solveScale", "addEdge", "removeEdge"]]


def gen_ops(rng, n):
    if rng.random() < 0.5:
        # sequences of phrases with redundant / repeated calls on the same changer objects
        ops = []
        while len(ops) < n:
            ops += rng.choice(PHRASES)
        return ops[:n + 2]
    ops = []
    for _ in range(n):
        ops.append(rng.choice(["convert", "restore", "addEdge", "removeEdge", "convert", "restore", "solveScale", "addEdge",
                               "convert2", "restore2"]))
    return ops


def in_model_domain(spec, ops):
    """The correspondence stream: everything we generate is inside the modelled domain."""
    return True


def run(ctx):
    rng = ctx.rng
    _BASE["thorough"] = bool(ctx.thorough)
    ncases = ctx.pick(20, 100)
    plan = []
    # fixed corpus first: the design-round probes and the excluded points
    plan.append(({"rings": 9, "holes": [], "edges0": False, "vseed": 1}, ["convert", "restore"]))
    plan.append(({"rings": 5, "holes": [], "edges0": False, "vseed": 12},
                 ["addEdge", "solveScale", "removeEdge", "addEdge", "solveScale", "convert", "restore"]))
    plan.append(({"rings": 4, "holes": [], "edges0": False, "vseed": 21, "pins": "mixed"},
                 ["convert", "restore", "addEdge", "removeEdge", "addEdge", "convert", "restore"]))
    # the same changer objects used again with redundant calls (convert on a full core, restore twice, addEdge twice, ...)
    plan.append(({"rings": 3, "holes": [], "edges0": False, "vseed": 41, "arr": "array"},
                 ["convert", "convert", "restore", "restore", "convert", "restore"]))
    plan.append(({"rings": 4, "holes": [], "edges0": False, "vseed": 42, "prerot": "all", "bnd": "many", "zones": True},
                 ["addEdge", "addEdge", "removeEdge", "removeEdge", "convert", "addEdge", "removeEdge", "convert", "restore"]))
    # sources rotated during fuel management, per-corner / per-edge data on a random subset of blocks
    plan.append(({"rings": 5, "holes": [[1, 1]], "edges0": False, "vseed": 43, "prerot": "some", "bnd": "many", "arr": "array",
                  "pins": "mixed"}, ["convert", "restore", "addEdge", "convert", "restore"]))
    plan.append(({"rings": 5, "holes": [], "edges0": False, "vseed": 11, "track": True, "pins": "partial"},
                 ["convert", "restore", "addEdge", "removeEdge", "convert", "restore", "addEdge", "removeEdge"]))
    plan.append(({"rings": 5, "holes": [], "edges0": False, "vseed": 7, "arr": "aliased"},
                 ["addEdge", "removeEdge", "convert", "restore", "addEdge", "removeEdge"]))
    plan.append(({"rings": 7, "holes": [], "edges0": False, "vseed": 2, "prerot": "some"}, ["addEdge", "convert", "restore"]))      # F10
    plan.append(({"rings": 6, "holes": [[2, -1]], "edges0": False, "vseed": 3},
                 ["addEdge", "removeEdge", "convert", "addEdge", "restore", "addEdge", "removeEdge"]))
    # nothing on the 0-degree line, but cells with j < 0 exist (the centre is not the first assembly convert visits):
    # addEdge adds nothing and clears the flags, convert must still scale the centre (copies re-flag before it)
    plan.append(({"rings": 5, "holes": [[2, -1], [4, -2]], "edges0": False, "vseed": 13},
                 ["addEdge", "convert", "restore"]))
    plan.append(({"rings": 6, "holes": [[2, -1], [4, -2], [1, 1]], "edges0": False, "vseed": 14, "track": True},
                 ["addEdge", "convert", "restore", "addEdge", "convert"]))
    # nested changers: outer.convert, inner.convert (no-op: already full), inner.restore (nothing to undo), outer.restore
    plan.append(({"rings": 4, "holes": [], "edges0": False, "vseed": 15},
                 ["convert", "convert2", "restore2", "restore", "convert", "convert2", "restore2", "restore"]))
    plan.append(({"rings": 5, "holes": [[3, -1]], "edges0": False, "vseed": 31, "pins": "mixed", "fixture": "afci", "track": True},
                 ["convert", "restore", "addEdge", "solveScale", "removeEdge", "convert", "restore"]))
    plan.append((gen_spec(rng, "nocentre"), ["convert", "restore"]))
    plan.append((gen_spec(rng, "centreonly"), ["convert", "restore"]))
    plan.append((gen_spec(rng, "jnonneg"), ["addEdge", "convert", "restore"]))
    while len(plan) < ncases:
        kind = rng.choice(["plain"] * 8 + ["nocentre", "jnonneg"])
        plan.append((gen_spec(rng, kind), gen_ops(rng, rng.randint(2, ctx.pick(6, 10)))))
    allreq, allimpl, allcases, allfloats = [], [], [], []
    for spec, ops in plan:
        spec = {**spec, "holes": [list(h) for h in spec["holes"]]}
        fails, req, impl, floats = run_case(ctx, spec, ops)
        for f in fails:
            ctx.fail(f.key, f.clause, f.case, f.observed, f.expected, f.note)
        off = len(allreq)
        allreq += req
        allimpl += impl
        allcases += [{"spec": spec, "ops": ops, "line": i} for i in range(len(req))]
        allfloats += [(off + i, v) for i, v in floats]
        ctx.case(("case", str(spec), tuple(ops)), nontrivial=True,
                 sample={"spec": spec, "ops": ops, "state after last op": next((x[:300] for x in reversed(impl) if isinstance(x, str) and x.startswith("full=")), None)})
        ctx.count("cores with holes" if spec["holes"] else "cores without holes")
    # domain predicate: exhaustive against the real grid
    dom_req, dom_impl, dom_cases = domain_requests(ctx)
    sc_req, sc_impl, sc_cases = scale_requests(ctx)
    model = lean_run("Sym3", allreq + dom_req + sc_req)
    mstate, mdom, mscale = model[:len(allreq)], model[len(allreq):len(allreq) + len(dom_req)], model[len(allreq) + len(dom_req):]
    ctx.compare("Model/Sym3.lean scaleBlockVals vs _scaleBlockVolIntegratedParams", sc_cases, mscale, sc_impl)
    cases2, m2, i2 = [], [], []
    for c, m, i in zip(allcases, mstate, allimpl):
        if i is None:
            continue
        cases2.append(c); m2.append(m); i2.append(i)
    ctx.compare("Model/Sym3.lean state vs real core", cases2, m2, i2)
    for idx, vals in allfloats:
        qs = [Fraction(x) for x in common.parse_list(mstate[idx])]
        for gi, (q, v) in enumerate(zip(qs, vals)):
            if not common.close(v, q, 1e-9):
                ctx.disagree("Model/Sym3.lean geoTotal vs Core.getMass/volume", allcases[idx], str(float(q)), str(v))
                break
    ctx.compare("Model/Sym3.lean inDomain/lines vs HexGrid", dom_cases, mdom, dom_impl)
    ctx.evaluations += len(allreq) + len(dom_req) + len(sc_req)
    ctx.rule = ("every case on a freshly loaded reactor with its spent-fuel pool, trackAssems on or off (the pool and the full "
                "name tables must be what they were after every operation); generated: reference third-core hex reactor cut down to 1-9 rings with random holes (0/10/30 %), with or "
                "without pre-existing edge assemblies, random dyadic block parameters; random sequences (2-10) of "
                "convert / restore / addEdge / removeEdge on persistent changer objects; excluded points (no centre "
                "assembly, centre only, no cell with j<0 after a flag-resetting addEdge) as separate cases. distinct = "
                "distinct (operation, core/changer state shape, core spec class) triples - state shape = symmetry, number of "
                "assemblies, centre present, number of cells on the 0/120-degree lines, edge detector cell occupied, "
                "any j<0 cell, the three changer bookkeeping flags, outcome - plus one entry per distinct (core spec, op "
                "sequence); each compares the full canonical state after every op.")


SCALE_NAMES = ["power", "kgHM", "mgFlux", "adjMgFlux", "mgFluxGamma", "powerGamma", "powerNeutron"]


def scale_requests(ctx):
    """Function-level stream: ThirdCoreHexToFullCoreChanger._scaleBlockVolIntegratedParams(b, direction) on one real
    block whose listed parameters hold None / list / float / numpy array values (dyadic, multiples of 3 for "down" so
    the float result is exact) against Model/Sym3.lean scaleBlockVals."""
    from armi.reactor.converters import geometryConverters as gc
    rng = ctx.rng
    o, r0 = base_reactor("ref")
    blk = copy.deepcopy(r0.core.getFirstBlock())
    ch = gc.ThirdCoreHexToFullCoreChanger(o.cs)

    def show(v):
        if v is None:
            return "N"
        if type(v) is list:
            return "L" + common.ratlist([Fraction(float(x)) for x in v])
        if isinstance(v, np.ndarray) and v.ndim > 0:
            return "A" + common.ratlist([Fraction(float(x)) for x in v])
        return "S" + common.ratlist([Fraction(float(v))])

    req, impl, cases = [], [], []
    for _ in range(ctx.pick(40, 400)):
        direction = rng.choice(["up", "down"])
        names = rng.sample(SCALE_NAMES, rng.randint(1, len(SCALE_NAMES)))
        ch.listOfVolIntegratedParamsToScale = list(names)
        kinds = []
        for n in names:
            kind = rng.choice(["N", "L", "S", "A", "L", "S"])
            m = 3 if direction == "down" else 1
            vals = [m * rng.randint(-64, 512) / 8.0 for _ in range(rng.randint(0, 4))]
            blk.p[n] = None if kind == "N" else vals if kind == "L" else np.array(vals) if kind == "A" else \
                m * rng.randint(-64, 512) / 8.0
            kinds.append(kind)
        before = [show(blk.p[n]) for n in names]
        ch._scaleBlockVolIntegratedParams(blk, direction)
        req.append("scalevals %s [%s]" % (direction, ",".join(before)))
        impl.append("[" + ",".join(show(blk.p[n]) for n in names) + "]")
        cases.append(("scalevals", direction, tuple(before)))
        ctx.count("scale value kinds " + direction + " " + "".join(sorted(set(kinds))))
    return req, impl, cases


def domain_requests(ctx):
    from armi.reactor import grids
    g = grids.HexGrid.fromPitch(1.0, numRings=3, symmetry="third periodic")
    N = ctx.pick(14, 40)
    req, impl, cases = [], [], []
    for i in range(-N, N + 1):
        for j in range(-N, N + 1):
            if abs(i + j) > N:
                continue
            loc = g[i, j, 0]
            req.append("domain %d %d" % (i, j)); impl.append("T" if g.locatorInDomain(loc, symmetryOverlap=True) else "F")
            cases.append(("domain", i, j))
            req.append("sector %d %d" % (i, j)); impl.append("T" if g.isInFirstThird(loc, includeTopEdge=False) else "F")
            cases.append(("sector", i, j))
            ln = g.overlapsWhichSymmetryLine((i, j, 0))
            req.append("lines %d %d" % (i, j))
            impl.append(("T" if ln == grids.BOUNDARY_0_DEGREES else "F") + ("T" if ln == grids.BOUNDARY_120_DEGREES else "F"))
            cases.append(("lines", i, j))
    ctx.count("domain cells", len(req) // 3)
    return req, impl, cases


def search(ctx, disagreements, broken):
    """Directed search, capped (quick ~90 s): the disagreeing case itself, then its prefixes and a few short
    sequences on the same core, oracle only; stops at the first concrete failing input or when the budget is spent."""
    import time
    deadline = time.time() + ctx.pick(90, 300)
    out, done = [], set()
    sub = type(ctx)(ctx.prop, ctx.tier, ctx.seed)
    short = [["addEdge", "solveScale", "removeEdge"], ["convert", "restore"], ["addEdge", "convert", "restore"],
             ["addEdge", "removeEdge"], ["convert"]]
    cases = []
    for d in disagreements:
        c = d.case
        if isinstance(c, dict) and "spec" in c and str(c["spec"]) not in done:
            done.add(str(c["spec"]))
            cases.append(c)
    for c in cases:
        for ops in [list(c["ops"])] + short:
            if time.time() > deadline:
                return out
            fails, _, _, _ = run_case(sub, c["spec"], ops)
            out += fails
            if out:
                return out
    return out


def replay(ctx, payload):
    case = payload["case"]
    if not isinstance(case, dict) or "spec" not in case:
        return None
    fails, _, _, _ = run_case(ctx, case["spec"], case["ops"])
    hit = [f for f in fails if f.key == payload["key"]]
    return hit[0].to_json() if hit else None
