"""C14 - fuel shuffling conserves the inventory and keeps the core's lookups truthful.

Theorems: lean/ArmiVerif/Props/C14.lean over Model/Shuffle.lean.
Tie: random operation sequences on the real reference core with its spent-fuel pool (trackAssems on / off,
stationary block flags none / GRID_PLATE / FUEL): FuelHandler.swapAssemblies, swapCascade, dischargeSwap (fresh or
pooled incoming), Core.removeAssembly (discharge / purge), Core.add at an empty cell.  After every operation the
canonical state (child order with cells and block objects, childrenByLocator, registered assembly / block objects,
pool children) is compared with the Lean model; objects are numbered by identity.
Oracle (implementation only, after every operation): inventory conservation, one assembly per cell, the three
lookup tables truthful by NAME, purged assemblies not found, contents of every block unchanged, non-stationary
block sequence of every assembly unchanged, stationary blocks stay at their core cell.
Below block level (after every operation): every block's parent is the assembly that lists it and its locator sits on
that assembly's axial grid, every pin lattice refers back to its block; for the assemblies an operation touched (all at
the start and the end) the pin sites of every block are where they were in the block and resolve to the centre of the
assembly's cell + that offset at the block's elevation.
"""
import copy

from harness import common
from harness.common import Failure, lean_run

PROP_MODULES = ["ArmiVerif.Props.C14"]
PARTIAL = ("block-level lookup theorem blocks_run_with_purge covers arbitrary histories (purges, either tracking "
           "setting, stationary blocks changing hands between fresh / core / pool assemblies): every block present is "
           "found, nothing else is; its preconditions: charged assemblies bring new distinct blocks, a fresh discharge "
           "swap is not refused (a refused one leaves the fresh assembly's block names registered: transcribed, compared, "
           "not covered by the theorem); the name-level theorems are general for the registration steps and witness-"
           "level for the whole fresh discharge; "
           "the identity-level state machine identifies names with the objects they resolve to; renaming (renumber / makeUnique) "
           "is modelled in a separate name-level layer (nCoreAdd / nDischarge / nPurge) tied by name probes around fresh discharges; numMoves / lastLocationLabel bookkeeping and the "
           "symmetry-factor rescaling of volume-integrated parameters on moves are not modelled; SpentFuelPool._getNextLocation "
           "is modelled at function level (sfpNext, probed on the real pool after every pool-changing operation)")
ASSUMPTIONS = [
    "copy.deepcopy + makeUnique yields a fresh assembly sharing nothing with its source",
    "dict semantics of childrenByLocator / assembliesByName / blocksByName are modelled as total functions",
]

_BASE = {}
NAME_PROBES = []


def base_reactor(track):
    """A freshly loaded reference reactor (copy.deepcopy of a Reactor drops `excore["sfp"]` and the pool's
    entries in assembliesByName, so every case loads its own; ~2 s)."""
    from armi.reactor.tests.test_reactors import loadTestReactor
    from armi.tests import TEST_ROOT
    with common.scratch_dir(), common.quiet():
        o, r = loadTestReactor(TEST_ROOT, customSettings={"trackAssems": track})
    return o, r


def cell_of(a):
    idx = a.spatialLocator.indices
    return (int(idx[0]), int(idx[1]))


class World:
    """One case: a private copy of the reactor plus object numbering and the expected inventory."""

    def __init__(self, track, stat):
        from armi.physics.fuelCycle import fuelHandlers
        from armi.reactor.flags import Flags
        o, self.r = base_reactor(track)
        self.o = o
        self.core, self.sfp = self.r.core, self.r.excore["sfp"]
        self.track = track
        flags = {"none": [], "gridplate": [Flags.GRID_PLATE], "fuel": [Flags.FUEL],
                 "multi": [Flags.GRID_PLATE, Flags.PLENUM]}[stat]
        self.core.stationaryBlockFlagsList = flags
        self.flags = flags

        class _O:  # minimal operator facade for FuelHandler (it only needs .r and .cs)
            pass
        op = _O(); op.r = self.r; op.cs = o.cs
        self.fh = fuelHandlers.FuelHandler(op)
        self.num, self.objs = {}, []
        for a in list(self.core) + list(self.sfp):
            self.reg(a)
        self.cells = [cell_of(a) for a in self.core]
        self.purged = []           # assembly objects purged (name, object)
        self.universe = {id(a): a for a in list(self.core) + list(self.sfp)}
        self.sig = {}
        for a in self.universe.values():
            for b in a:
                self.sig[id(b)] = self.block_sig(b)
        self.nonstat = {id(a): [id(b) for b in a if not self.is_stat(b)] for a in self.universe.values()}
        self.cellstat = {cell_of(a): self.stat_of(a) for a in self.core}

    def reg(self, x):
        for y in [x] + list(x):
            if id(y) not in self.num:
                self.num[id(y)] = len(self.objs) + 1
                self.objs.append(y)
        return self.num[id(x)]

    def n(self, x):
        return self.num[id(x)]

    def stat_of(self, a):
        """stationary blocks of an assembly with their axial index and bottom elevation (their core position)"""
        return [(id(b), k, round(float(b.p.zbottom), 9)) for k, b in enumerate(a) if self.is_stat(b)]

    def is_stat(self, b):
        return any(b.hasFlags(f) for f in self.flags)

    @staticmethod
    def block_sig(b):
        return (b.getType(), round(b.getHeight(), 9),
                tuple(sorted((k, round(v, 14)) for k, v in b.getNumberDensities().items())),
                tuple(sorted((c.name, round(c.getDimension("mult") or 0, 9)) for c in b)))

    def asm_str(self, a):
        return "[%d,[%s]]" % (self.n(a), ",".join("[%d,%d]" % (self.n(b), 1 if self.is_stat(b) else 0) for b in a))

    def init_line(self):
        kids = ",".join("[%d,%d,%d,[%s]]" % (self.n(a), cell_of(a)[0], cell_of(a)[1],
                                             ",".join("[%d,%d]" % (self.n(b), 1 if self.is_stat(b) else 0) for b in a))
                        for a in self.core)
        sf = ",".join(self.asm_str(a) for a in self.sfp)
        return "init %s [%s] [%s]" % ("T" if self.track else "F", kids, sf)

    def canon(self):
        core, sfp = self.core, self.sfp
        kids = ",".join("[%d,%d,%d,[%s]]" % (self.n(a), cell_of(a)[0], cell_of(a)[1], ",".join(str(self.n(b)) for b in a))
                        for a in core)
        by = core.childrenByLocator
        grid = core.spatialGrid
        ent = []
        for c in self.cells:
            v = by.get(grid[c[0], c[1], 0])
            if v is not None:
                ent.append("[%d,%d,%d]" % (c[0], c[1], self.n(v)))
        extra = [k for k in by if (int(k.i), int(k.j)) not in set(self.cells)]
        if extra:
            ent.append("[extra-keys-%d]" % len(extra))
        regA = {id(v) for v in core.assembliesByName.values()}
        regB = {id(v) for v in core.blocksByName.values()}
        # known ids in the order the driver learns them: assemblies / blocks by first registration
        aids = [self.num[id(x)] for x in self.objs if id(x) in regA]
        bids = [self.num[id(x)] for x in self.objs if id(x) in regB]
        sf = ",".join("[%d,[%s]]" % (self.n(a), ",".join(str(self.n(b)) for b in a)) for a in sfp)
        return "core=[%s] byLoc=[%s] byName=[%s] bbn=[%s] sfp=[%s]" % (
            kids, ",".join(ent), ",".join(map(str, aids)), ",".join(map(str, bids)), sf)


def oracle(w, fails, case, tag, fresh_stationary=False):
    core, sfp = w.core, w.sfp
    kids = list(core)
    names = [a.name for a in kids]
    if len(set(names)) != len(names):
        fails.append(Failure("core-names-unique", "no assembly is duplicated in the core", case, note=tag))
    cells = [cell_of(a) for a in kids]
    if len(set(cells)) != len(cells):
        dup = sorted(c for c in set(cells) if cells.count(c) > 1)
        fails.append(Failure("one-assembly-per-cell", "each core location holds at most one assembly", case,
                             observed=dup[:3], note=tag))
    by = core.childrenByLocator
    if len(by) != len(kids) or any(by.get(a.spatialLocator) is not a for a in kids):
        wrong = [a.name for a in kids if by.get(a.spatialLocator) is not a]
        fails.append(Failure("bylocator-truthful", "the lookup by location lists exactly the assemblies present, each "
                             "where the operation put it", case, observed=[len(by), len(kids), wrong[:3]], note=tag))
    pcells = [(int(a.spatialLocator.i), int(a.spatialLocator.j), int(a.spatialLocator.k)) for a in sfp
              if a.spatialLocator is not None and a.spatialLocator.grid is sfp.spatialGrid]
    if len(set(pcells)) != len(pcells) or len(pcells) != len(list(sfp)):
        fails.append(Failure("pool-cells-distinct", "every assembly sent to the pool sits at a pool cell of its own", case,
                             observed={"pool": len(list(sfp)), "on the pool grid": len(pcells),
                                       "twice": sorted(c for c in set(pcells) if pcells.count(c) > 1)[:3]}, note=tag))
    if any(a.parent is not core for a in kids) or any(a.parent is not sfp for a in sfp):
        fails.append(Failure("parent-links", "every assembly's parent is the container that lists it", case, note=tag))
    bn, bb = core.assembliesByName, core.blocksByName
    miss = [a.name for a in kids if bn.get(a.name) is not a]
    if w.track:
        miss += [a.name for a in sfp if bn.get(a.name) is not a]
    if miss:
        fails.append(Failure("byname-finds-present", "every assembly in the core or the pool is found under its name",
                             case, observed=miss[:4], note=tag))
    pool = list(sfp) if w.track else []
    # (i) every block present is found under its current name
    bmiss = [b.name for a in kids + pool for b in a if bb.get(b.name) is not b]
    if bmiss:
        # the one clause known to fail at the excluded point: with tracking ON the pooled outgoing assembly holds
        # the fresh assembly's exchanged stationary block under its never-registered name `B-<negative>-nnn`
        # (before fix 2acbfbd a fresh discharge with stationary blocks failed here: discharge-fresh-stationary-block-names)
        key = "discharge-fresh-stationary-block-names" if (fresh_stationary and all(n.startswith("B-") for n in bmiss)) \
            else "blocks-found-by-name"
        fails.append(Failure(key, "every block in the core or the pool is found under its current name", case,
                             observed={"not found": bmiss[:4]}, note=tag))
    # (ii) a lookup never returns something that is neither in the core nor in the pool (purged objects)
    # (blueprint / load-queue assemblies are legitimately registered without being in the core, so "absent" means:
    #  one of the assemblies this history purged, or a block such an assembly left with)
    purged_a = {id(a) for a in w.purged}
    purged_b = {id(b) for a in w.purged for b in a}
    gone_a = [k for k, v in bn.items() if id(v) in purged_a]
    gone_b = [k for k, v in bb.items() if id(v) in purged_b]
    if gone_a:
        fails.append(Failure("purged-not-found", "assembliesByName never returns a purged assembly", case, observed=gone_a[:4], note=tag))
    if gone_b:
        # derived form of the same excluded point: the key a renamed (exchanged stationary) block was registered
        # under before `renumber` is never deleted, so it still resolves to that block after its assembly is purged
        stale_only = fresh_stationary and all(bb[k].name != k for k in gone_b)
        key = "stale-block-key-returns-purged-block" if stale_only else "purged-not-found"
        fails.append(Failure(key, "blocksByName never returns a block of a purged assembly", case,
                             observed=gone_b[:4], note=tag))
    ctx_stale = sum(1 for k, v in bb.items() if v.name != k)
    if ctx_stale:
        w.stale_seen = max(getattr(w, "stale_seen", 0), ctx_stale)   # reported in the evidence histogram only
    for a in w.purged:
        if bn.get(a.name) is a or a in kids or a in list(sfp) or any(bb.get(b.name) is b for b in a):
            found = [b.name for b in a if bb.get(b.name) is b]
            fails.append(Failure("purged-not-found", "a purged assembly (or one of the blocks it left with) is never "
                                 "returned by a lookup", case, observed={"assembly": a.name, "blocks still found": found[:5]},
                                 note=tag))
    if tag == "init":
        below_ok(w, fails, case, tag, list(core))
    present = {id(a) for a in kids} | {id(a) for a in sfp}
    expected = set(w.universe) - {id(a) for a in w.purged}
    if present != expected or len(kids) + len(sfp) != len(present):
        fails.append(Failure("inventory-conserved", "core plus pool hold exactly the assemblies that were there or were "
                             "charged, minus the purged ones, none twice", case,
                             observed={"lost": [w.universe[i].name for i in expected - present][:4],
                                       "unexpected": len(present - expected)}, note=tag))


def _sites(c):
    """(sampled) locator sites of a component: first / middle / last of a MultiIndexLocation, or the locator itself"""
    from armi.reactor import grids
    loc = c.spatialLocator
    if loc is None:
        return []
    if isinstance(loc, grids.MultiIndexLocation):
        subs = list(loc)
        return [subs[p] for p in sorted({0, len(subs) // 2, len(subs) - 1})] if subs else []
    return [loc]


def below_ok(w, fails, case, tag, assems=None):
    """Below block level, after every operation: every block hangs under the assembly that lists it and sits on that
    assembly's axial grid; every pin lattice belongs to the block that holds it and the block's children sit on it;
    the pins of every core assembly resolve to the global position "centre of the assembly's cell + the pin's offset
    in its block (as it was when the block was first seen: contents) + the block's elevation in its assembly"."""
    import numpy as np
    core = w.core
    pinsig = w.__dict__.setdefault("pinsig", {})
    bad_parent, bad_grid, bad_owner = [], [], []
    for a in list(core) + list(w.sfp):
        for b in a:
            if b.parent is not a or any(c.parent is not b for c in b):
                bad_parent.append((a.name, b.name))
            if b.spatialLocator is None or b.spatialLocator.grid is not a.spatialGrid:
                bad_grid.append((a.name, b.name))
            g = b.spatialGrid
            if g is not None and (g.armiObject is not b or any(
                    getattr(c.spatialLocator, "grid", None) not in (None, g) for c in b)):
                bad_owner.append((a.name, b.name))
    if bad_parent:
        fails.append(Failure("below-parent-links", "every block's parent is the assembly that lists it, every component's "
                             "parent its block", case, observed=bad_parent[:4], note=tag))
    if bad_grid:
        fails.append(Failure("block-on-own-assembly-grid", "every block sits on the axial grid of the assembly that lists it",
                             case, observed=bad_grid[:4], note=tag))
    if bad_owner:
        fails.append(Failure("pin-lattice-owned", "a block's pin lattice refers back to that block and its children sit on it",
                             case, observed=bad_owner[:4], note=tag))
    if bad_parent or bad_grid or bad_owner or assems is None:
        return
    incore = {id(a) for a in core}
    for a in assems:
        if id(a) not in incore:
            continue
        c0 = cell_of(a)
        centre = np.array(core.spatialGrid.getCoordinates((c0[0], c0[1], 0)), dtype=float)
        z = 0.0
        for b in a:
            h = float(b.getHeight())
            local = []
            sites = [s for c in b for s in _sites(c) if getattr(s, "grid", None) is not None]
            for s in sites:
                local.append(tuple(float(v) for v in s.getLocalCoordinates()))
            was = pinsig.setdefault(id(b), tuple(local))
            if was != tuple(local):
                fails.append(Failure("contents-pins-unchanged", "moves never alter an assembly's contents: the pin sites of "
                                     "every block are where they were in the block", case, observed=[a.name, b.name], note=tag))
                return
            for s, loc in zip(sites, local):
                got = np.array(s.getGlobalCoordinates(), dtype=float)
                want = np.array([centre[0] + loc[0], centre[1] + loc[1], z + h / 2.0 + loc[2]])
                if not np.allclose(got, want, atol=1e-6):
                    fails.append(Failure("pins-follow-assembly", "each assembly sits where the operation put it, down to its "
                                         "pins: a pin resolves to its cell's centre + its offset in the block, at the block's "
                                         "elevation", case, observed=[a.name, c0, b.name, [round(float(v), 6) for v in got]],
                                         expected=[round(float(v), 6) for v in want], note=tag))
                    return
            z += h


def contents_ok(w, fails, case, tag, assems):
    below_ok(w, fails, case, tag, assems)
    for a in assems:
        seq = [id(b) for b in a if not w.is_stat(b)]
        if seq != w.nonstat.get(id(a)):
            fails.append(Failure("contents-block-order", "moves never alter an assembly's (non-stationary) block order",
                                 case, observed=a.name, note=tag))
        for b in a:
            if w.block_sig(b) != w.sig.get(id(b)):
                fails.append(Failure("contents-block-unchanged", "block heights, dimensions and number densities are "
                                     "unchanged by moves", case, observed=[a.name, b.name], note=tag))
                return
        ks = [int(b.spatialLocator.k) for b in a]
        if ks != list(range(len(a))):
            fails.append(Failure("contents-block-positions", "blocks sit at consecutive axial positions", case,
                                 observed=[a.name, ks], note=tag))
    for a in w.core:
        c = cell_of(a)
        st = w.stat_of(a)
        if c in w.cellstat and st != w.cellstat[c]:
            fails.append(Failure("stationary-stay", "blocks designated stationary keep their core position", case,
                                 observed=[a.name, c], note=tag))
            return


def fresh_assembly(w, rng):
    src = rng.choice(list(w.core))
    with common.quiet():
        new = copy.deepcopy(src)
        new.makeUnique()
    w.reg(new)
    w.universe[id(new)] = new
    for b in new:
        w.sig[id(b)] = w.block_sig(b)
    w.nonstat[id(new)] = [id(b) for b in new if not w.is_stat(b)]
    return new


def gen_op(w, rng, allow_fresh):
    kids = list(w.core)
    empty = [c for c in w.cells if w.core.childrenByLocator.get(w.core.spatialGrid[c[0], c[1], 0]) is None]
    choices = ["swap"] * 4 + ["cascade"] * 2 + ["dsfp"] * 2 + ["remove"] + (["add"] * 2 if empty else [])
    if allow_fresh:
        choices += ["dnew"] * 2
    if w.purged:
        choices += ["readd"] * 2
    forced = getattr(w, "_force_add_at", None)
    if forced is not None:
        # right after a move that ended where it started: the cell is still occupied, Core.add there must be refused
        w._force_add_at = None
        return ("add", fresh_assembly(w, rng), forced)
    kind = rng.choice(choices)
    if kind == "swap" and rng.random() < 0.15:
        a = rng.choice(kids)            # swapAssemblies(a, a): skipped by the code, with or without stationary blocks
        w._force_add_at = cell_of(a)
        return ("swap", a, a)
    if kind == "cascade" and rng.random() < 0.3:
        lst = rng.sample(kids, rng.randint(2, 4))     # a cascade naming its first assembly again (the code only warns)
        lst.insert(rng.randint(1, len(lst)), lst[0])
        if rng.random() < 0.5:
            w._force_add_at = cell_of(lst[0])
        return ("cascade", lst)
    if kind == "readd":
        # Core.add(A) WITHOUT locator for an assembly purged earlier: its detached locator still names its old cell;
        # refused when that cell was refilled meanwhile (fix: detached locator mapped to the core's own cell first)
        a = rng.choice(w.purged)
        idx = a.spatialLocator.indices
        return ("readd", a, (int(idx[0]), int(idx[1])))
    if kind == "swap":
        a, b = rng.sample(kids, 2)
        return ("swap", a, b)
    if kind == "cascade":
        lst = rng.sample(kids, rng.randint(2, 5))
        if rng.random() < 0.3:          # None levels (a findAssembly miss): skipped by the code
            for _ in range(rng.randint(1, 2)):
                lst.insert(rng.randint(0 if rng.random() < 0.15 else 1, len(lst)), None)
        return ("cascade", lst)
    if kind == "dsfp" and len(w.sfp) > 0:
        return ("dsfp", rng.choice(list(w.sfp)), rng.choice(kids))
    if kind == "dnew" and allow_fresh:
        new = fresh_assembly(w, rng)
        lay = [k for k, b in enumerate(new) if w.is_stat(b)]
        same = [a for a in kids if [k for k, b in enumerate(a) if w.is_stat(b)] == lay]
        # mostly a discharge the code accepts; sometimes one it refuses (different stationary positions)
        out = rng.choice(same) if (same and rng.random() < 0.85) else rng.choice(kids)
        return ("dnew", new, out)
    if kind == "remove" and len(kids) > 20:
        return ("remove", rng.choice(kids), rng.random() < 0.5)
    if kind == "add" and empty and allow_fresh:
        if rng.random() < 0.2:      # Core.add at an occupied cell: refused, core unchanged (fix f30dfba)
            return ("add", fresh_assembly(w, rng), cell_of(rng.choice(kids)))
        return ("add", fresh_assembly(w, rng), rng.choice(empty))
    a, b = rng.sample(kids, 2)
    return ("swap", a, b)


def op_shape(w, op, exc):
    """(operation kind and flags, shape of the state it acted on): what makes two evaluated operations different
    cases for the evidence count - which cells are special (centre / symmetry line), how many stationary blocks
    change assembly, where the incoming assembly comes from, pool size class, outcome."""
    k = op[0]
    outcome = "ok" if exc is None else type(exc).__name__
    pool = min(len(w.sfp), 6)
    ncore = len(w.core)

    def special(a):
        try:
            c = cell_of(a)
        except Exception:
            return "detached"
        if c == (0, 0):
            return "centre"
        if (c[0] > 0 and c[0] == -2 * c[1]) or (c[0] == c[1] and c[0] > 0):
            return "line"
        return "plain"

    def nstat(a):
        return sum(1 for b in a if w.is_stat(b))

    if k == "swap":
        return (k, tuple(sorted([special(op[1]), special(op[2])])), (nstat(op[1]), nstat(op[2])), outcome, pool, ncore)
    if k == "cascade":
        real = [a for a in op[1] if a is not None]
        return (k, len(op[1]), tuple(i for i, a in enumerate(op[1]) if a is None), len(real) - len({id(a) for a in real}),
                tuple(sorted(special(a) for a in real)), tuple(nstat(a) for a in real), outcome, pool, ncore)
    if k in ("dnew", "dsfp"):
        return (k, nstat(op[1]), special(op[2]), nstat(op[2]), op[2].getType(), outcome, pool, ncore)
    if k == "remove":
        return (k, bool(op[2]), special(op[1]), op[1].getType(), outcome, pool, ncore)
    return (k, tuple(op[2]), op[1].getType(), outcome, pool, ncore)


def cascade_expectation(op):
    """cells after `swapCascade(lst)` by its definition: swap lst[0] with every later non-None entry, in order"""
    lst = op[1]
    real = [a for a in lst if a is not None]
    pos = {id(a): cell_of(a) for a in real}
    if lst and lst[0] is not None:
        for x in lst[1:]:
            if x is None or x is lst[0]:
                continue
            pos[id(lst[0])], pos[id(x)] = pos[id(x)], pos[id(lst[0])]
    return [(a, pos[id(a)]) for a in {id(a): a for a in real}.values()]


def op_line(w, op):
    k = op[0]
    if k == "swap":
        return "swap %d %d" % (w.n(op[1]), w.n(op[2]))
    if k == "cascade":
        return "cascade [%s]" % ",".join("_" if a is None else str(w.n(a)) for a in op[1])
    if k == "dnew":
        return "dnew %s %d" % (w.asm_str(op[1]), w.n(op[2]))
    if k == "dsfp":
        return "dsfp %d %d" % (w.n(op[1]), w.n(op[2]))
    if k == "remove":
        return "remove %d %s" % (w.n(op[1]), "T" if op[2] else "F")
    if k in ("add", "readd"):
        return "add %s %d %d" % (w.asm_str(op[1]), op[2][0], op[2][1])
    raise ValueError(k)


def apply_op(w, op):
    """Run the real operation; returns the exception or None. Updates the expected inventory."""
    k = op[0]
    core = w.core
    try:
        with common.quiet():
            if k == "swap":
                w.fh.swapAssemblies(op[1], op[2])
            elif k == "cascade":
                w.fh.swapCascade(list(op[1]))
            elif k in ("dnew", "dsfp"):
                out = op[2]
                c = cell_of(out)
                w.fh.dischargeSwap(op[1], out)
                if not w.track:
                    w.purged.append(out)
            elif k == "remove":
                a, dis = op[1], op[2]
                c = cell_of(a)
                core.removeAssembly(a, discharge=dis)
                w.cellstat.pop(c, None)
                if not (dis and w.track):
                    w.purged.append(a)
            elif k == "add":
                a, c = op[1], op[2]
                core.add(a, core.spatialGrid[c[0], c[1], 0])
                w.cellstat[c] = w.stat_of(a)
            elif k == "readd":
                a, c = op[1], op[2]
                core.add(a)
                w.purged = [x for x in w.purged if x is not a]
                w.cellstat[c] = w.stat_of(a)
    except Exception as e:  # noqa
        return e
    return None


def sfp_probe(w):
    """Function-level probe of SpentFuelPool._getNextLocation on the pool as it is now (read only): request for
    Model/Shuffle.lean sfpNext and the real answer."""
    sfp = w.sfp
    if sfp.numColumns is None:
        sfp._updateNumberOfColumns()
    filled = [(int(a.spatialLocator.i), int(a.spatialLocator.j)) for a in sfp
              if a.spatialLocator is not None and a.spatialLocator.grid is sfp.spatialGrid]
    w.nc_ok = getattr(w, "nc_ok", True) and int(sfp.numColumns) > 0     # hypothesis of Props/C14 sfpNext_free
    loc = sfp._getNextLocation()
    return ("sfpnext %d [%s]" % (int(sfp.numColumns), ",".join("[%d,%d]" % c for c in filled)),
            "[%d,%d]" % (int(loc.i), int(loc.j)))


def touched(op):
    k = op[0]
    if k == "swap":
        return [op[1], op[2]]
    if k == "cascade":
        return [a for a in op[1] if a is not None]
    if k in ("dnew", "dsfp"):
        return [op[1], op[2]]
    return [op[1]]


def run_sequence(ctx, track, stat, nops, seed, compare=True):
    import random
    rng = random.Random(seed)
    case = {"track": track, "stationary": stat, "nops": nops, "seed": seed}
    fails = []
    w = World(track, stat)
    req, impl = [w.init_line()], [w.canon()]
    oracle(w, fails, case, "init")
    allow_fresh = True
    for k in range(nops):
        op = gen_op(w, rng, allow_fresh)
        line = op_line(w, op)
        before = w.canon()
        shape_before = op_shape(w, op, None)
        expect_cells = cascade_expectation(op) if op[0] == "cascade" else None
        exc = apply_op(w, op)
        if expect_cells is not None and exc is None:
            wrong = [(a.name, cell_of(a), c) for a, c in expect_cells if cell_of(a) != c]
            if wrong:
                fails.append(Failure("cascade-sequential-definition", "a cascade swaps its first assembly with each later "
                                     "non-None entry in order: every assembly sits where that puts it", case,
                                     observed=[(n, got) for n, got, _ in wrong[:4]], expected=[(n, c) for n, _, c in wrong[:4]],
                                     note="op %d: %s" % (k, line[:100])))
        tag = "op %d: %s" % (k, line if len(line) < 120 else line[:117] + "...")
        ctx.count("op " + op[0] + (" (raised)" if exc is not None else ""))
        ctx.distinct.add(("op",) + shape_before[:-3] + ("ok" if exc is None else type(exc).__name__,)
                         + shape_before[-2:] + (track, stat))
        req.append(line)
        if exc is not None and op[0] == "cascade" and isinstance(exc, ValueError):
            # a cascade is a loop of swaps: the swaps before the refused one stay done
            impl.append(w.canon() + " raised")
        elif exc is not None and op[0] == "dnew" and isinstance(exc, ValueError):
            # the fresh assembly's block names were registered before the stationary-position test (fix 2acbfbd)
            impl.append(w.canon() + " raised")
            w.universe.pop(id(op[1]), None)
        elif exc is not None and op[0] in ("add", "readd") and isinstance(exc, ValueError):
            impl.append(w.canon() + " raised")
            if op[0] == "add":
                w.universe.pop(id(op[1]), None)
            if w.canon() != before:
                key = "add-at-occupied-keeps-child" if op[0] == "add" else "readd-without-locator-two-at-one-cell"
                fails.append(Failure(key, "a refused add leaves the core as it was", case,
                                     observed=repr(exc)[:160], note=tag))
                break
        elif exc is not None:
            impl.append("reject")
            if w.canon() != before:
                fails.append(Failure("rejected-op-changes-state", "an operation the code refuses leaves the core as it was",
                                     case, observed=repr(exc)[:160], note=tag))
                break
            if not isinstance(exc, ValueError):
                fails.append(Failure("valid-op-raises", "a valid shuffling operation completes", case,
                                     observed=repr(exc)[:160], note=tag))
                break
        else:
            impl.append(w.canon())
        if op[0] in ("remove", "dnew", "dsfp") or k % 5 == 0:       # the pool changed (or now and then)
            q, a = sfp_probe(w)
            req.append(q); impl.append(a)
            ctx.count("sfp next-location probes" if w.nc_ok else "sfp probes with numColumns = 0 (hypothesis violated)")
        nf = len(fails)
        oracle(w, fails, case, tag)
        contents_ok(w, fails, case, tag, touched(op))
        if len(fails) > nf:
            break
    contents_ok(w, fails, case, "end of sequence", list(w.core) + list(w.sfp))
    return fails, req, impl


def _bname(b):
    import re
    m = re.match(r"^B(-?\d+)-(\d+)$", b.name)
    return (int(m.group(1)), int(m.group(2)))


class NameProbe:
    """Name-level correspondence around one fresh dischargeSwap (Model/Shuffle.lean `nDischarge` / `nPurge`)."""

    def __init__(self, w, inc, out, later):
        self.w, self.inc, self.out, self.later = w, inc, out, later
        self.next = int(w.r.p.maxAssemNum)
        self.out_name = out.name

        def asm(a):
            return "[%d,%d,[%s]]" % (w.n(a), a.getNum(), ",".join(
                "[%d,%d,%d,%d]" % ((w.n(b),) + _bname(b) + (1 if w.is_stat(b) else 0,)) for b in a))
        self.req = "names %s %d %s %s %s" % ("T" if w.track else "F", self.next, asm(inc), asm(out), "T" if later else "F")
        self.keys = [(_bname(b), b.name) for b in list(inc) + list(out)]
        self.line = None

    def _look(self):
        bb = self.w.core.blocksByName
        seen, out = set(), []
        for k, nm in self.keys:
            if k in seen:
                continue
            seen.add(k)
            v = bb.get(nm)
            out.append("[%d,%d,%s]" % (k[0], k[1], self.w.n(v) if v is not None else "_"))
        return "[" + ",".join(out) + "]"

    def after_discharge(self):
        w, inc, out = self.w, self.inc, self.out
        self.keys += [(_bname(b), b.name) for b in list(inc) + list(out)]

        def blocks(a):
            return "[" + ",".join("[%d,%d,%d]" % ((w.n(b),) + _bname(b)) for b in a) + "]"
        bn = w.core.assembliesByName
        by = [bn.get(inc.name), bn.get(self.out_name)]
        self.line = "inc=%d%s out=%s byName=[%s] bbn=%s" % (
            inc.getNum(), blocks(inc), blocks(out), ",".join(str(w.n(v)) if v is not None else "_" for v in by), self._look())

    def after_purge(self):
        self.line += " afterPurge=" + self._look()


def excluded_points(ctx):
    """Points outside the theorems' hypotheses, run on the real code (oracle only)."""
    import random
    from armi.physics.fuelCycle import fuelHandlers  # noqa
    fails = []
    # fresh incoming assembly WITH stationary blocks: outside the model's domain (names are not modelled), so the
    # stream is judged by the oracle alone - ALL clauses stay on; only the two clauses known to fail are keyed as
    # findings (tracking on: unregistered block name in the pool; later purge: stale key resolves to a purged block)
    rng = random.Random(5)
    for track, stat in ((True, "gridplate"), (False, "gridplate"), (True, "multi"), (False, "multi")):
        w = World(track, stat)
        case = {"stream": "fresh discharge with stationary blocks", "track": track, "stationary": stat}
        kids = list(w.core)
        fuel = [a for a in kids if len({w.is_stat(b) for b in a}) == 2]

        def same_layout(x, y):
            return [k for k, b in enumerate(x) if w.is_stat(b)] == [k for k, b in enumerate(y) if w.is_stat(b)]

        def do(op, tag):
            exc = apply_op(w, op)
            if exc is not None:
                fails.append(Failure("valid-op-raises", "a valid shuffling operation completes", case,
                                     observed=repr(exc)[:160], note=tag))
            n0 = len(fails)
            oracle(w, fails, case, tag, fresh_stationary=True)
            contents_ok(w, fails, case, tag, touched(op))
            ctx.count("excluded-stream op " + op[0])
            return exc is None and len(fails) == n0

        new1 = fresh_assembly(w, rng)
        out1 = next(a for a in fuel if same_layout(new1, a))
        p1 = NameProbe(w, new1, out1, later=False)
        if do(("dnew", new1, out1), "dischargeSwap(fresh1, %s)" % out1.name) or True:
            p1.after_discharge()
        new2 = fresh_assembly(w, rng)
        out2 = next(a for a in fuel if a is not out1 and a.parent is w.core and same_layout(new2, a))
        p2 = NameProbe(w, new2, out2, later=True)
        do(("dnew", new2, out2), "dischargeSwap(fresh2, %s)" % out2.name)
        p2.after_discharge()
        partner = next(a for a in w.core if a is not new1 and a is not new2 and same_layout(new1, a))
        do(("swap", new1, partner), "swap(fresh1, %s)" % partner.name)
        others = [a for a in w.core if a not in (new1, new2, partner)]
        do(("remove", others[5], True), "removeAssembly(%s, discharge=True)" % others[5].name)
        do(("remove", others[6], False), "removeAssembly(%s, discharge=False)" % others[6].name)
        if len(w.sfp) > 0:
            pooled = list(w.sfp)[0]
            tgt = next((a for a in w.core if a not in (new1, new2) and same_layout(pooled, a)), None)
            if tgt is not None:
                do(("dsfp", pooled, tgt), "dischargeSwap(pooled %s, %s)" % (pooled.name, tgt.name))
        # finally purge an assembly that carries a renamed (exchanged) stationary block
        do(("remove", new2, False), "removeAssembly(fresh2, discharge=False)")
        p2.after_purge()
        for pr in (p1, p2):
            NAME_PROBES.append((dict(case, probe=pr.req[:60]), pr.req, pr.line))
        contents_ok(w, fails, case, "end of stream", list(w.core) + list(w.sfp))
        ctx.distinct.add(("excluded-stream", track, stat))
        ctx.count("excluded: fresh discharge with stationary blocks (track=%s, %s)" % (track, stat))
    # swapAssemblies(a, a) WITH stationary blocks (also generated at random): deterministic probe of the former finding
    w = World(True, "gridplate")
    case = {"stream": "swapAssemblies(a, a) with stationary blocks"}
    a = list(w.core)[5]
    nblocks = len(a)
    exc = apply_op(w, ("swap", a, a))
    n0 = len(fails)
    oracle(w, fails, case, "swapAssemblies(a, a)")
    contents_ok(w, fails, case, "swapAssemblies(a, a)", [a])
    if len(a) != nblocks:
        del fails[n0:]
        fails.append(Failure("self-swap-loses-stationary-block", "moves never alter an assembly's contents", case,
                             observed={"blocks before": nblocks, "after": len(a), "exception": repr(exc)[:80]}))
    ctx.count("excluded: self-swap with stationary blocks")
    # F11a: add at an occupied location
    w = World(True, "none")
    case = {"stream": "Core.add at an occupied location"}
    kids = list(w.core)
    new = fresh_assembly(w, rng)
    n0 = len(w.core)
    try:
        with common.quiet():
            w.core.add(new, kids[6].spatialLocator)
        fails.append(Failure("add-at-occupied-accepted", "adding at an occupied location is refused", case))
    except Exception as e:  # noqa
        if new in w.core or len(w.core) != n0:
            fails.append(Failure("add-at-occupied-keeps-child", "a refused add leaves the core as it was (the location "
                                 "table lists exactly the assemblies present)", case,
                                 observed={"exception": type(e).__name__, "children": [n0, len(w.core)],
                                           "in childrenByLocator": any(v is new for v in w.core.childrenByLocator.values())}))
    ctx.count("excluded: add at occupied location")
    # F11b: remove A, put B at its cell, re-add A without locator
    w = World(True, "none")
    case = {"stream": "re-add a removed assembly without locator after its cell was refilled"}
    kids = list(w.core)
    A = kids[7]
    c = cell_of(A)
    try:
        with common.quiet():
            w.core.removeAssembly(A, discharge=False)
            B = fresh_assembly(w, rng)
            w.core.add(B, w.core.spatialGrid[c[0], c[1], 0])
    except Exception as e:  # noqa
        fails.append(Failure("valid-op-raises", "removing an assembly and adding another at the freed cell completes",
                             case, observed=repr(e)[:160]))
        ctx.count("excluded: re-add without locator")
        return fails
    try:
        with common.quiet():
            w.core.add(A)
        at = [x.name for x in w.core if cell_of(x) == c]
        if len(at) > 1:
            fails.append(Failure("readd-without-locator-two-at-one-cell", "each core location holds at most one assembly",
                                 case, observed={"cell": c, "assemblies": at}))
    except Exception:
        pass
    ctx.count("excluded: re-add without locator")
    return fails


def run(ctx):
    rng = ctx.rng
    nseq = ctx.pick(10, 120)
    allreq, allimpl, allcases = [], [], []
    combos = [(True, "none"), (False, "none"), (True, "gridplate"), (False, "gridplate"), (True, "fuel"), (False, "multi"),
              (True, "none"), (False, "none"), (True, "multi"), (False, "fuel")]
    for k in range(nseq):
        track, stat = combos[k % len(combos)]
        nops = rng.randint(20, ctx.pick(40, 200))
        seed = rng.randint(0, 10 ** 9)
        try:
            fails, req, impl = run_sequence(ctx, track, stat, nops, seed)
        except common.Infra:
            raise
        except Exception as e:  # noqa  (the oracle itself tripped over an inconsistent core)
            import traceback
            fails, req, impl = [Failure("valid-op-raises", "the core stays consistent enough to be inspected after valid "
                                        "operations", {"track": track, "stationary": stat, "nops": nops, "seed": seed},
                                        observed=traceback.format_exc()[-400:])], [], []
        for f in fails:
            ctx.fail(f.key, f.clause, f.case, f.observed, f.expected, f.note)
        allreq += req
        allimpl += impl
        case = {"track": track, "stationary": stat, "nops": nops, "seed": seed}
        allcases += [dict(case, line=i, op=req[i][:100]) for i in range(len(req))]
        ctx.case(("seq", track, stat, nops, seed), nontrivial=True,
                 sample={"case": case, "first ops": req[1:4]})
        ctx.count("sequences track=%s stationary=%s" % (track, stat))
    del NAME_PROBES[:]
    for f in excluded_points(ctx):
        ctx.fail(f.key, f.clause, f.case, f.observed, f.expected, f.note)
    if NAME_PROBES:
        nm = lean_run("Shuffle", [q for _, q, _ in NAME_PROBES])
        ctx.compare("Model/Shuffle.lean names layer (nDischarge / nPurge) vs real names and blocksByName",
                    [c for c, _, _ in NAME_PROBES], nm, [l for _, _, l in NAME_PROBES])
        ctx.evaluations += len(NAME_PROBES)
        ctx.count("name-level probes", len(NAME_PROBES))
    # one driver process per sequence is not needed: `init` resets the model state
    model = lean_run("Shuffle", allreq)
    ctx.compare("Model/Shuffle.lean state vs real core/sfp", allcases, model, allimpl)
    ctx.evaluations += len(allreq)
    ctx.rule = ("generated: sequences of 20-200 valid operations (swap, cascade of 2-5, dischargeSwap with a fresh or pooled "
                "assembly, removeAssembly discharge/purge, add at an empty cell) on the reference core (73 assemblies, "
                "pool of 4), trackAssems on/off, stationary flags [] / [GRID_PLATE] / [FUEL] / [GRID_PLATE, PLENUM] (the last two make some swaps raise); "
                "excluded points (F11 a/b, fresh discharge with stationary blocks) run separately. distinct = distinct "
                "(operation kind and flags, tracking/stationary setting, state shape) triples, where state shape = which of "
                "the touched cells are centre / symmetry-line / plain, number of stationary blocks per touched assembly, "
                "assembly type, origin of the incoming assembly, pool size class, core size, outcome (ok / exception "
                "class), plus one entry per distinct operation sequence; every op compares the whole canonical state.")


def search(ctx, disagreements, broken):
    """Directed search, capped (quick ~90 s): re-run the disagreeing sequences first (oracle only), then the same
    settings with neighbouring seeds; stops at the first concrete failing input or when the budget is spent."""
    import time
    deadline = time.time() + ctx.pick(90, 300)
    out, done = [], set()
    cases = [d.case for d in disagreements if isinstance(d.case, dict) and "seed" in d.case]
    sub = type(ctx)(ctx.prop, ctx.tier, ctx.seed)
    for c in cases:                       # the disagreeing sequences themselves
        key = (c["track"], c["stationary"], c["seed"])
        if key in done or time.time() > deadline:
            continue
        done.add(key)
        fails, _, _ = run_sequence(sub, c["track"], c["stationary"], c["nops"], c["seed"])
        out += fails
        if out:
            return out
    for c in cases:                       # neighbours
        for k in range(1, 4):
            if time.time() > deadline:
                return out
            key = (c["track"], c["stationary"], c["seed"] + k)
            if key in done:
                continue
            done.add(key)
            fails, _, _ = run_sequence(sub, c["track"], c["stationary"], max(c["nops"], 40), c["seed"] + k)
            out += fails
            if out:
                return out
    return out


def replay(ctx, payload):
    case = payload["case"]
    if isinstance(case, dict) and "seed" in case:
        fails, _, _ = run_sequence(ctx, case["track"], case["stationary"], case["nops"], case["seed"])
    else:
        fails = excluded_points(ctx)
    hit = [f for f in fails if f.key == payload["key"]]
    return hit[0].to_json() if hit else None
