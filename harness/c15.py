"""C15 - a run visits every time node once, in order, calling hooks in stack order.

Theorems: lean/ArmiVerif/Props/C15.lean over lean/ArmiVerif/Model/Schedule.lean.
Tie (stack construction): add/remove/get sequences and createInterfaces on a real Operator vs Model/IfaceStack.lean.
Tie (coupler): `_performTightCoupling` called directly on a real Operator whose interfaces carry real TightCouplers (own
maxIters below / at / above the run's cap, starting counters, dyadic tolerances and scripted values) vs `Schedule.coupledLoopS`
(rounds, the couplers' own warnings, their counters afterwards); the interactAll<Event> methods called directly with excluded names.
Tie (schedule): a real `Operator` on the smallest test reactor whose stack is replaced by recording
`Interface` subclasses (generated order / enabled / bolForce / reverseAtEOL / deferred / halting /
real `TightCoupler`s with scripted convergence); the event log (hook, interface, arguments,
r.p.cycle, r.p.timeNode) of `o.operate()` is compared exactly with `Schedule.run`.
`getActiveInterfaces` is also called directly with excluded names; the node arithmetic of
armi.utils is compared exhaustively for all burn-step vectors of length <= 4, entries <= 4; step
lengths for generated simple/detailed cycle inputs over exact rationals.
Oracle: an independent plain-Python reference schedule (written from the property text) evaluated
clause by clause on the real log; arithmetic inverse laws evaluated on the real functions.
"""
import itertools
import os
from fractions import Fraction

from harness import common
from harness.common import Failure, lean_run

PROP_MODULES = ["ArmiVerif.Props.C15"]
PARTIAL = ("PROVED on the model: run_shape (run = independent declarative schedule, every configuration), active_spec, "
           "stack_order, active_nodup, eol_reverse_last, args_reflect_state, everyNode_calls, visited_mem, visited_sorted, "
           "fullCycles_range, halt_stops_and_EOL, complete_run, coupling_iters_converged / _cap, coupling_calls, "
           "TightCoupler bookkeeping (isConverged_verdict, checkAll_verdict, coupledLoopS_rounds, roundsSpec_spec / _le_cap, "
           "coupling_rounds_any_coupler_maxIters: rounds = min(run cap, first all-converged round + 1) whatever maxIters / counter "
           "each interface's own coupler carries; coupling_rounds_congr; itersAt_eq_roundsSpec; coupling_rounds_with_couplers), "
           "cum_node_inverse (+ _right), cum_step_inverse, prev_node_spec, allNodes_numbering, visited_full_run, "
           "cum_numbering_is_visit_order (+ _index), steps_sum_simple / _detailed, steps_detailed_length, steps_cumulative_sum. "
           "Stack construction (Model/IfaceStack.lean): getInterface_spec, pyInsert_spec, addInterface_keeps_order, "
           "addInterface_duplicate_name, names_unique(_step), sortByOrder_perm / _sorted / _stable, createInterfaces_sorted. "
           "CORRESPONDENCE ONLY: _processInterfaceDependencies (dependency passes), uniqueness of functions over "
           "add/remove sequences (oracle clause), which configurations the code refuses (wellFormed). "
           "Repeat notation (expandRepeatedFloats): expand_length, expand_plain, expand_val_rep, expand_rep_rep, expand_reject. "
           "NOT MODELLED: float rounding of l*a/b (step lengths are exact rationals), "
           "r.p.stepLength / power inside hooks (oracle clauses only), MPI workers")
ASSUMPTIONS = [
    "a hook's return value matters only at BOC (truthy = halt request); convergence of a coupler is an arbitrary "
    "function of (interface, cycle, node, iteration), realised in the tie by real TightCouplers fed scripted values",
    "recording interfaces observe r.p.cycle / r.p.timeNode inside each hook; r.p.stepLength / power are not compared",
]

DB = "database"


# --------------------------------------------------------------------------- configurations
def gen_config(rng, small=False):
    """A run configuration (plain dict, JSON-able)."""
    detailed = rng.random() < 0.5
    nC = rng.randint(1, 2 if small else 4)
    if detailed:
        bs = [rng.choice([0, 1, 1, 2, 2, 3]) for _ in range(nC)]
    else:
        b = rng.choice([0, 1, 2, 2, 3])
        if b == 0 and rng.random() < 0.7:
            nC = 1
        bs = [b] * nC
    r = rng.random()
    if r < 0.5:
        sc, sn = 0, 0
    elif r < 0.9:
        sc = rng.randint(0, nC - 1)
        sn = rng.randint(0, bs[sc] if sc < len(bs) else 0)
    else:  # odd restart points: beyond the last cycle / beyond the last node
        sc = rng.randint(0, nC + 1)
        sn = rng.randint(0, 5)
    n = rng.randint(1, 3 if small else 6)
    ids = list(range(1, n + 1))
    coupling = rng.random() < 0.45
    has_db = coupling and rng.random() < 0.93 or (not coupling and rng.random() < 0.3)
    stack = []
    for i in ids:
        stack.append({"id": i, "enabled": rng.random() < 0.8, "bolForce": rng.random() < 0.3,
                      "reverse": rng.random() < 0.35, "coupler": coupling and rng.random() < 0.5})
    if has_db:
        stack.insert(rng.randint(0, len(stack)),
                     {"id": 0, "enabled": rng.random() < 0.85, "bolForce": rng.random() < 0.3,
                      "reverse": rng.random() < 0.2, "coupler": False})
    allids = [s["id"] for s in stack]
    deferred = [i for i in allids if rng.random() < 0.25] if rng.random() < 0.5 else []
    if rng.random() < 0.1:
        deferred.append(77)  # a name that is not in the stack
    defCycle = rng.randint(0, nC + 1)
    maxIters = rng.choice([1, 2, 3, 4, 5, 6]) if rng.random() < 0.95 else 0
    # every coupled interface carries ITS OWN TightCoupler; its maxIters is independent of the run setting (smaller, equal,
    # larger) - it only drives the coupler's own counter / warning, never the operator's loop
    for s in stack:
        if s["coupler"]:
            s["cmax"] = rng.choice([None, 1, 1, 2, 2, 3, 4, 6])
    skip = [c for c in range(nC + 1) if rng.random() < 0.25] if rng.random() < 0.5 else []
    halt = []
    if rng.random() < 0.35:
        for _ in range(rng.randint(1, 2)):
            halt.append([rng.choice(allids), rng.randint(0, nC - 1)])
    conv = []
    if coupling:
        p = rng.choice([0.0, 0.3, 0.6, 1.0])
        how = rng.choice(["bernoulli", "first", "first", "first"])
        for s in stack:
            if s["coupler"]:
                for c in range(nC):
                    for nd in range((bs[c] if c < len(bs) else 0) + 1):
                        if how == "first":
                            # an independent convergence iteration per coupler and node: 0, 1, 2, ... (also at / past the cap =
                            # never within it), converged from then on or at that iteration only
                            k = rng.choice([0, 1, 2, 3, 4, 5, 7, None])
                            if k is not None:
                                its = range(k, max(maxIters, 1) + 1) if rng.random() < 0.7 else [k]
                                conv += [[s["id"], c, nd, it] for it in its if it < max(maxIters, 1)]
                            continue
                        for it in range(max(maxIters, 1)):
                            if rng.random() < p:
                                conv.append([s["id"], c, nd, it])
    kinds = [rng.choice(["days", "bl", "cum"]) if b > 0 else "days" for b in bs] if detailed else []
    truthy = [i for i in allids if rng.random() < 0.3] if rng.random() < 0.4 else []
    avail = rng.choice([0.0, 0.0, 0.5, 1.0, 1.0]) if not detailed else None
    bolSet = None
    if rng.random() < 0.3:
        c_ = rng.randint(0, nC - 1)
        bolSet = [rng.choice(allids + [77]), c_, rng.randint(0, bs[c_] if c_ < len(bs) else 0)]
    spelling = "".join(rng.choice("isf") for _ in skip)
    return {"skipSpelling": spelling, "bolSet": bolSet, "avail": avail, "kinds": kinds, "truthyAll": truthy, "detailed": detailed, "nCycles": nC, "burnSteps": bs, "startCycle": sc, "startNode": sn,
            "stack": stack, "deferred": deferred, "deferredCycle": defCycle, "coupling": coupling,
            "maxIters": maxIters, "skip": skip, "halt": halt, "conv": conv}


def bit(b):
    return "1" if b else "0"


def stack_arg(stack):
    return "[" + ",".join(f"[{s['id']},{bit(s['enabled'])},{bit(s['bolForce'])},{bit(s['reverse'])},{bit(s['coupler'])}]"
                          for s in stack) + "]"


def nested(ll):
    return "[" + ",".join("[" + ",".join(str(x) for x in l) + "]" for l in ll) + "]"


def model_burn_steps(cfg):
    """What `Operator.burnSteps` (getBurnSteps) holds for this input: the simple input with zero burn steps
    yields step lengths [[]], i.e. ONE cycle of zero steps whatever nCycles says (checked in section_steps)."""
    if not cfg["detailed"] and cfg["burnSteps"] and cfg["burnSteps"][0] == 0:
        return [0]
    return cfg["burnSteps"]


def run_request(cfg):
    bset = cfg.get("bolSet")
    return ("run {nC} {bs} {sc} {sn} {stack} {dfr} {dc} {cp} {mi} {skip} 0 {halt} {conv} {bset}".format(
        bset="_" if not bset else common.intlist(bset),
        nC=cfg["nCycles"], bs=common.intlist(model_burn_steps(cfg)), sc=cfg["startCycle"], sn=cfg["startNode"],
        stack=stack_arg(cfg["stack"]), dfr=common.intlist(cfg["deferred"]), dc=cfg["deferredCycle"],
        cp="T" if cfg["coupling"] else "F", mi=cfg["maxIters"], skip=common.intlist(cfg["skip"]),
        halt=nested(cfg["halt"]), conv=nested(cfg["conv"])))


def name_of(i):
    return DB if i == 0 else f"i{i}"


# --------------------------------------------------------------------------- the real run
_classes = {}
SIDE = []      # (cycle, node, r.p.availabilityFactor, r.p.stepLength) seen inside EveryNode hooks of the last real run


def rec_classes():
    """Recording Interface subclass (built lazily, after armi is importable)."""
    if "Rec" in _classes:
        return _classes
    from armi import interfaces

    class Rec(interfaces.Interface):
        name = "rec"

        def __init__(self, r, cs, spec, cfg, log):
            self.name = name_of(spec["id"])
            super().__init__(r, cs)
            self.ident = spec["id"]
            self.log = log
            self.haltCycles = {c for (i, c) in cfg["halt"] if i == spec["id"]}
            self.script = {(c, n, it) for (i, c, n, it) in cfg["conv"] if i == spec["id"]}
            self.value = 0.0
            self.truthy = spec["id"] in cfg.get("truthyAll", [])   # truthy return values at every hook
            bset = cfg.get("bolSet")
            self.restart = (bset[1], bset[2]) if bset and bset[0] == spec["id"] else None
            if spec["coupler"]:
                # a real TightCoupler: converged iff |value - previous| < 0.5
                # the coupler's OWN maxIters (`cmax`) need not be the run setting tightCouplingMaxNumIters
                self.coupler = interfaces.TightCoupler("power", 0.5, spec.get("cmax") or max(cfg["maxIters"], 1))

        def _log(self, hook, *args):
            self.log.append(f"{hook}({self.ident},[{','.join(str(a) for a in args)}],{self.r.p.cycle},{self.r.p.timeNode})")

        def interactBOL(self):
            self._log("BOL")
            if self.restart is not None:     # what MainInterface.interactBOL does for a restart run
                self.r.p.cycle, self.r.p.timeNode = self.restart
            return self.truthy

        def interactBOC(self, cycle=None):
            self._log("BOC", cycle)
            if cycle in self.haltCycles:
                return True
            return None

        def interactEveryNode(self, cycle, node):
            self._log("EveryNode", cycle, node)
            SIDE.append((cycle, node, float(self.r.p.availabilityFactor), float(self.r.p.stepLength)))
            return self.truthy

        def interactCoupled(self, iteration):
            self._log("Coupled", iteration)
            key = (self.r.p.cycle, self.r.p.timeNode, iteration)
            self.value += 0.0 if key in self.script else 1.0
            return self.truthy

        def getTightCouplingValue(self):
            return self.value

        def interactEOC(self, cycle=None):
            self._log("EOC", cycle)
            return self.truthy

        def interactEOL(self):
            self._log("EOL")
            return self.truthy

        def writeDBEveryNode(self):  # what _performTightCoupling asks of the interface named "database"
            self._log("DbWrite")

    _classes["Rec"] = Rec
    return _classes


def spell_skip(cfg):
    """The exempt-cycle list as a user may spell it: the setting has no schema and the code converts every entry with
    int(), so 1, '1' and 1.0 all exempt cycle 1. `skipSpelling` gives one spelling per entry (i = int, s = str, f = float)."""
    sp = cfg.get("skipSpelling") or ""
    out = []
    for k, c in enumerate(cfg["skip"]):
        how = sp[k] if k < len(sp) else "i"
        out.append(str(c) if how == "s" else float(c) if how == "f" else int(c))
    return out


def cs_overrides(cfg):
    over = {"nCycles": cfg["nCycles"], "startCycle": 0, "startNode": 0,
            "deferredInterfacesCycle": cfg["deferredCycle"],
            "deferredInterfaceNames": [name_of(i) for i in cfg["deferred"]],
            "tightCoupling": bool(cfg["coupling"]), "tightCouplingMaxNumIters": cfg["maxIters"],
            "cyclesSkipTightCouplingInteraction": spell_skip(cfg), "db": False,
            "detailAssemLocationsBOL": []}
    if cfg["detailed"]:
        kinds = cfg.get("kinds") or ["days"] * len(cfg["burnSteps"])
        cyc = []
        for b, kind in zip(cfg["burnSteps"], kinds):
            if kind == "bl" and b > 0:
                cyc.append({"burn steps": b, "cycle length": 10.0, "availability factor": 0.5})
            elif kind == "cum" and b > 0:
                cyc.append({"cumulative days": [1.25 * (i + 1) for i in range(b)], "availability factor": 0.75})
            else:
                cyc.append({"step days": [1.5] * b, "power fractions": [1.0] * b})
        over["cycles"] = cyc
        over["burnSteps"] = None
        over["cycleLength"] = None
        over["availabilityFactor"] = None
    else:
        over["burnSteps"] = cfg["burnSteps"][0] if cfg["burnSteps"] else 0
        over["cycleLength"] = 10.0
        if cfg.get("avail") is not None:
            over["availabilityFactor"] = cfg["avail"]     # exactly 0.0 = a decay-only history
    return over


def build_operator(cfg, log):
    from armi.reactor.tests.test_reactors import loadTestReactor
    from armi.tests import TEST_ROOT

    Rec = rec_classes()["Rec"]
    o, r = loadTestReactor(os.path.join(TEST_ROOT, "smallestTestReactor"), inputFileName="armiRunSmallest.yaml",
                           customSettings=cs_overrides(cfg))
    o.removeAllInterfaces()
    for spec in cfg["stack"]:
        o.addInterface(Rec(r, o.cs, spec, cfg, log), reverseAtEOL=spec["reverse"], enabled=spec["enabled"],
                       bolForce=spec["bolForce"])
    r.p.cycle, r.p.timeNode = cfg["startCycle"], cfg["startNode"]
    return o, r


def real_run(cfg):
    """Canonical event log of the real run, or 'reject' if the real code raises."""
    log = []
    del SIDE[:]
    try:
        with common.quiet():
            o, r = build_operator(cfg, log)
            o.operate()
    except Exception as e:  # noqa
        return "reject", repr(e)
    return ";".join(log), None


# --------------------------------------------------------------------------- reference schedule (oracle)
def ref_active(cfg, hook, cycle=0, excluded=()):
    """The property's rule: enabled (or forced at BOL), not excluded, not deferred (BOL; BOC before the
    deferral cycle), stack order; at EOL reverse-flagged ones last, reversed."""
    out = []
    for s in cfg["stack"]:
        on = s["enabled"] or (hook == "BOL" and s["bolForce"])
        if not on:
            continue
        if hook in ("EveryNode", "EOC", "EOL", "BOL") and s["id"] in excluded:
            continue
        if hook == "BOL" and s["id"] in cfg["deferred"]:
            continue
        if hook == "BOC" and cycle < cfg["deferredCycle"] and s["id"] in cfg["deferred"]:
            continue
        out.append(s)
    if hook == "EOL":
        out = [s for s in out if not s["reverse"]] + [s for s in reversed(out) if s["reverse"]]
    return out


def reference(cfg):
    """list of groups: (hook, args, rc, rn, [ids])"""
    groups = []
    bs = cfg["burnSteps"]
    rc, rn = cfg["startCycle"], cfg["startNode"]
    bset = cfg.get("bolSet")
    for s_ in ref_active(cfg, "BOL"):          # one group per interface: a BOL hook may move the time state
        groups.append(("BOL", [], rc, rn, [s_["id"]]))
        if bset and s_["id"] == bset[0]:
            rc, rn = bset[1], bset[2]
    startC, startN = rc, rn                    # the loop starts from the time state beginning-of-life left
    conv = {tuple(x) for x in cfg["conv"]}
    halts = {tuple(x) for x in cfg["halt"]}
    for c in range(startC, cfg["nCycles"]):
        first = startN if c == startC else 0
        rc, rn = c, first
        act = ref_active(cfg, "BOC", c)
        groups.append(("BOC", [c], rc, rn, [s["id"] for s in act]))
        if any((s["id"], c) in halts for s in act):
            break
        nodes = [n for n in range(first, bs[c])] + [bs[c]]
        for n in nodes:
            rn = n
            groups.append(("EveryNode", [c, n], c, n, [s["id"] for s in ref_active(cfg, "EveryNode")]))
            if cfg["coupling"]:
                if c not in cfg["skip"]:
                    cact = ref_active(cfg, "Coupled")
                    for it in range(cfg["maxIters"]):
                        groups.append(("Coupled", [it], c, n, [s["id"] for s in cact]))
                        if all((s["id"], c, n, it) in conv for s in cact if s["coupler"]):
                            break
                groups.append(("DbWrite", [], c, n, [0]))
        groups.append(("EOC", [c], c, rn, [s["id"] for s in ref_active(cfg, "EOC")]))
    groups.append(("EOL", [], rc, rn, [s["id"] for s in ref_active(cfg, "EOL")]))
    return groups


def expected_time_state(cfg, c):
    """(availability factor, step length) of cycle c as the inputs state them (None = not checked)."""
    b = cfg["burnSteps"][c]
    if not cfg["detailed"]:
        a = 1.0 if cfg.get("avail") is None else cfg["avail"]
        return a, (10.0 * a / b if b else None)
    kind = (cfg.get("kinds") or ["days"] * len(cfg["burnSteps"]))[c]
    if kind == "bl" and b > 0:
        return 0.5, 10.0 * 0.5 / b
    if kind == "cum" and b > 0:
        return 0.75, 1.25
    return 1.0, (1.5 if b else None)


def check_time_state(ctx, cfg):
    """r.p.availabilityFactor / r.p.stepLength seen in the EveryNode hooks match the cycle inputs."""
    for (c, n, av, sl) in SIDE:
        if c >= len(cfg["burnSteps"]):
            continue
        ea, es = expected_time_state(cfg, c)
        if abs(av - ea) > 1e-12:
            ctx.fail("schedule-availability-in-hook", "r.p.availabilityFactor inside a hook is the availability of the current cycle "
                     "(a value of exactly 0 included)", {"config": cfg}, observed=[c, n, av], expected=ea)
            return
        if es is not None and n < cfg["burnSteps"][c] and abs(sl - es) > 1e-9 * max(1.0, es):
            ctx.fail("schedule-steplength-in-hook", "r.p.stepLength inside a hook is the length of the step that starts at this node",
                     {"config": cfg}, observed=[c, n, sl], expected=es)
            return


def expected_rounds(cfg, c, n):
    """The property's clause, from the configuration alone: tight-coupling rounds at node (c, n) = none if coupling is off or the
    cycle is exempt, else min(the SETTING's cap, 1 + the first iteration at which every active coupler reports convergence)."""
    if not cfg["coupling"] or c in cfg["skip"]:
        return 0
    conv = {tuple(x) for x in cfg["conv"]}
    couplers = [s["id"] for s in cfg["stack"] if s["enabled"] and s["coupler"]]
    for it in range(cfg["maxIters"]):
        if all((i, c, n, it) in conv for i in couplers):
            return it + 1
    return cfg["maxIters"]


def check_coupling_rounds(ctx, cfg, obs):
    """Number of interactAllCoupled rounds observed at every visited node (needs an enabled interface to observe them)."""
    watchers = [s["id"] for s in cfg["stack"] if s["enabled"]]
    if not watchers or not cfg["coupling"]:
        return
    evs = parse_log(obs)
    w = watchers[0]
    visited, rounds = [], {}
    for (hook, ident, args, rc, rn) in evs:
        if hook == "DbWrite":
            visited.append((rc, rn))
        if hook == "Coupled" and ident == w:
            rounds.setdefault((rc, rn), []).append(args[0])
    for (c, n) in visited:
        got, want = rounds.get((c, n), []), expected_rounds(cfg, c, n)
        ctx.count(f"coupling rounds at a node: {len(got)}")
        if got != list(range(want)):
            own = sorted({s.get("cmax") for s in cfg["stack"] if s["coupler"] and s.get("cmax")})
            ctx.fail("schedule-coupling-rounds", "after every node the coupled interfaces are iterated until all couplers converge or the "
                     "run's iteration cap (tightCouplingMaxNumIters) is reached - whatever maxIters the interfaces' own couplers carry",
                     {"config": cfg, "node": [c, n], "cap": cfg["maxIters"], "own_coupler_maxIters": own},
                     observed=got, expected=list(range(want)))
            return


def flat(groups):
    return ";".join(f"{h}({i},[{','.join(str(a) for a in args)}],{rc},{rn})" for (h, args, rc, rn, ids) in groups for i in ids)


def parse_log(line):
    out = []
    if not line or line == "reject":
        return out
    for ev in line.split(";"):
        hook, rest = ev.split("(", 1)
        ident, rest = rest.split(",[", 1)
        args, rest = rest.split("],", 1)
        rc, rn = rest.rstrip(")").split(",")
        out.append((hook, int(ident), tuple(int(a) for a in args.split(",") if a not in ("", "None")), int(rc), int(rn)))
    return out


def classify(cfg, observed, expected):
    """Which clause of the property distinguishes the observed log from the reference?"""
    ob, ex = parse_log(observed), parse_log(expected)

    def nodes(evs):
        seq = []
        for e in evs:
            if e[0] == "EveryNode" and (not seq or seq[-1] != e[2]):
                seq.append(e[2])
        return seq

    def hookseq(evs):
        seq = []
        for e in evs:
            k = (e[0], e[2])
            if not seq or seq[-1] != k or e[0] in ("Coupled",) and False:
                seq.append(k)
        return seq

    def groups(evs):
        out = []
        for e in evs:
            k = (e[0], e[2], e[3], e[4])
            if out and out[-1][0] == k:
                out[-1][1].append(e[1])
            else:
                out.append((k, [e[1]]))
        return out

    if nodes(ob) != nodes(ex):
        return "nodes-visited-once-in-order", {"observed_nodes": nodes(ob), "expected_nodes": nodes(ex)}
    if [k for k in hookseq(ob) if k[0] == "Coupled"] != [k for k in hookseq(ex) if k[0] == "Coupled"]:
        return "coupling-iterations", {}
    if [k[0] for k in hookseq(ob)] != [k[0] for k in hookseq(ex)]:
        return "event-sequence", {"observed": [k[0] for k in hookseq(ob)][:40], "expected": [k[0] for k in hookseq(ex)][:40]}
    go, ge = groups(ob), groups(ex)
    for (ko, io), (ke, ie) in zip(go, ge):
        if ko[0] != ke[0]:
            return "event-sequence", {}
        if sorted(io) != sorted(ie):
            return f"active-interfaces-{ko[0]}", {"observed": io, "expected": ie, "at": ke}
        if io != ie:
            return ("eol-reverse-order" if ko[0] == "EOL" else "stack-order"), {"observed": io, "expected": ie, "at": ke}
        if ko != ke:
            return "args-and-time-state", {"observed": ko, "expected": ke}
    return "schedule-differs", {}


# --------------------------------------------------------------------------- sections
def section_runs(ctx):
    n = ctx.pick(70, 2000)
    cfgs = []
    cdir = os.path.join(common.VERIF, "corpus", "C15")
    if os.path.isdir(cdir):
        import json
        for fn in sorted(os.listdir(cdir)):
            if fn.endswith(".json"):
                cfgs.append(json.load(open(os.path.join(cdir, fn))))
    cfgs += directed_configs()
    cfgs += [gen_config(ctx.rng) for _ in range(n)]
    reqs, impl = [], []
    with common.scratch_dir():
        for cfg in cfgs:
            obs, err = real_run(cfg)
            reqs.append(run_request(cfg))
            impl.append(obs)
            ctx.count("run: " + ("rejected" if obs == "reject" else "completed"))
            for flag, name in ((cfg["coupling"], "coupling on"), (cfg["detailed"], "detailed cycles input"),
                               (bool(cfg["halt"]), "halting interface"), (bool(cfg["deferred"]), "deferred names"),
                               (cfg["startCycle"] or cfg["startNode"], "restart point"),
                               (bool(cfg.get("bolSet")), "restart point set inside a BOL hook"),
                               (cfg["coupling"] and cfg["skip"] and set(cfg.get("skipSpelling") or "") - {"i"},
                                "exempt cycles spelled as strings / floats"),
                               (cfg["coupling"] and sum(1 for x in cfg["stack"] if x["coupler"]) >= 2,
                                "two or more couplers on one parameter name"),
                               (cfg["coupling"] and any(x["coupler"] and x.get("cmax") and x["cmax"] < cfg["maxIters"] for x in cfg["stack"]),
                                "a coupler whose own maxIters is below the run's cap"),
                               (cfg["coupling"] and any(x["coupler"] and x.get("cmax") and x["cmax"] > cfg["maxIters"] for x in cfg["stack"]),
                                "a coupler whose own maxIters is above the run's cap"),
                               (0 in cfg["burnSteps"], "zero burn steps")):
                if flag:
                    ctx.count("config: " + name)
            ctx.count("hook calls observed", 0 if obs == "reject" else obs.count("(") if obs else 0)
            # ---- oracle: the real log against the independent reference, clause by clause
            if obs != "reject":
                exp = flat(reference(cfg))
                if obs != exp:
                    key, detail = classify(cfg, obs, exp)
                    ctx.fail("schedule-" + key, "event log of the real run equals the reference schedule of the property",
                             {"config": cfg}, observed=dict(detail, log=obs[:1500]), expected=exp[:1500])
                check_time_state(ctx, cfg)
                check_coupling_rounds(ctx, cfg, obs)
                if cfg.get("avail") == 0.0:
                    ctx.count("config: availability exactly 0")
            else:
                if expected_reject(cfg) is None:
                    ctx.fail("schedule-run-raises", "a valid configuration runs to completion", {"config": cfg},
                             observed=err, expected="a completed run")
            ctx.case(reqs[-1], nontrivial=True,
                     sample={"config": {k: cfg[k] for k in ("nCycles", "burnSteps", "startCycle", "startNode", "coupling")},
                             "events": obs[:300]} if len(ctx.samples) < 3 else None)
    model = lean_run("Schedule", reqs)
    ctx.compare("Schedule.run vs Operator.operate (recording interfaces)", [{"config": c} for c in cfgs], model, impl)
    ctx.traces += len(cfgs)


def plain_stack(n, db=False):
    st = [{"id": i, "enabled": True, "bolForce": False, "reverse": False, "coupler": False} for i in range(1, n + 1)]
    if db:
        st.append({"id": 0, "enabled": True, "bolForce": False, "reverse": False, "coupler": False})
    return st


def directed_configs():
    """Scenario classes that always run: a halting / truthy-returning interface at every stack position
    (first, middle, last) with recording interfaces after it; every restart point (startCycle, startNode)
    of a detailed history mixing the three ways of giving a cycle, with and without a halt at the start cycle."""
    out = []
    base = {"detailed": False, "kinds": [], "nCycles": 2, "burnSteps": [2, 2], "startCycle": 0, "startNode": 0,
            "deferred": [], "deferredCycle": 0, "coupling": False, "maxIters": 2, "skip": [], "conv": [], "truthyAll": []}
    for pos in (1, 2, 3, 4):
        for hc in (0, 1):
            out.append(dict(base, stack=plain_stack(4), halt=[[pos, hc]], truthyAll=[pos]))
        out.append(dict(base, stack=plain_stack(4), halt=[], truthyAll=[pos]))
    out.append(dict(base, stack=plain_stack(3, db=True), halt=[[2, 1]], truthyAll=[1, 2], coupling=True,
                    conv=[]))
    for hist in (dict(base, nCycles=2, burnSteps=[2, 2]), dict(base, detailed=True, kinds=["bl", "cum", "days"], nCycles=3, burnSteps=[2, 1, 3])):
        k = 0
        for c in range(hist["nCycles"]):
            for n in range(hist["burnSteps"][c] + 1):
                k += 1
                setter = 1 + k % 3                       # first, middle, last interface in turn
                out.append(dict(hist, stack=plain_stack(3), halt=[], bolSet=[setter, c, n]))
                if k % 2 == 0:
                    out.append(dict(hist, stack=plain_stack(3), halt=[[2, c]], bolSet=[setter, c, n]))
        st = plain_stack(3)
        st[1] = dict(st[1], enabled=False)               # a disabled setter is not called: the run starts at (0, 0)
        out.append(dict(hist, stack=st, halt=[], bolSet=[2, 1, 1]))
        out.append(dict(hist, stack=plain_stack(3), halt=[], bolSet=[2, 1, 1], startCycle=0, startNode=1))
    # two (and three) tight couplers that share ONE parameter name, with different scripted convergence patterns, coupling on,
    # several nodes: every coupler's flag counts, not the last one's per parameter
    cst = plain_stack(3, db=True)
    for k in (0, 1, 2):
        cst[k] = dict(cst[k], coupler=(k < 2))
    nodes = [(c, n) for c in range(2) for n in range(3)]
    always2 = [[2, c, n, it] for (c, n) in nodes for it in range(6)]          # the LATER coupler converges at once
    cbase = dict(base, stack=cst, halt=[], coupling=True, maxIters=6)
    out.append(dict(cbase, conv=always2))                                        # the earlier one never: 6 iterations (the cap)
    out.append(dict(cbase, conv=always2 + [[1, c, n, 3] for (c, n) in nodes]))   # the earlier one at iteration 3: 4 iterations
    out.append(dict(cbase, conv=[[1, c, n, it] for (c, n) in nodes for it in range(6)] + [[2, c, n, 1] for (c, n) in nodes],
                    skip=[1]))                                                   # the later one decides: 2 iterations; cycle 1 exempt
    cst3 = [dict(x, coupler=(x["id"] != 0)) for x in plain_stack(3, db=True)]
    out.append(dict(cbase, stack=cst3, maxIters=4,
                    conv=[[1, c, n, it] for (c, n) in nodes for it in range(4)] + [[3, c, n, it] for (c, n) in nodes for it in range(4)]
                    + [[2, c, n, 2] for (c, n) in nodes]))                       # the MIDDLE one decides: 3 iterations
    never = dict(cbase, conv=[], maxIters=3, nCycles=3, burnSteps=[1, 1, 1])     # no convergence: 3 iterations where not exempt
    for skip, sp in (([1], "s"), ([1], "f"), ([1], "i"), ([0, 2], "sf"), ([0, 1, 2], "sif"), ([2, 0], "fs")):
        out.append(dict(never, skip=skip, skipSpelling=sp))
    # an interface carrying ITS OWN TightCoupler whose maxIters is smaller than (equal to, larger than) the run setting, with
    # convergence patterns that need more iterations than that: the operator iterates until ALL couplers converge or the
    # SETTING's cap is reached; a coupler's own maxIters only drives its own warning
    def cstack(cmaxes):
        st = plain_stack(len(cmaxes), db=True)
        return [dict(x, coupler=x["id"] != 0 and cmaxes[x["id"] - 1] is not False, cmax=(cmaxes[x["id"] - 1] or None) if x["id"] else None)
                for x in st]
    nodes2 = [(c, n) for c in range(2) for n in range(2)]
    own = dict(base, halt=[], coupling=True, nCycles=2, burnSteps=[1, 1])
    for cap, cmax, first in ((4, 1, 2), (4, 2, 3), (6, 1, 4), (6, 2, None), (3, 1, None), (5, 2, 2), (2, 1, 1), (3, 6, 2)):
        conv = [] if first is None else [[1, c, n, it] for (c, n) in nodes2 for it in range(first, cap)]
        out.append(dict(own, stack=cstack([cmax]), maxIters=cap, conv=conv))
        out.append(dict(own, stack=cstack([cmax, False]), maxIters=cap, conv=conv, skip=[0], skipSpelling="s"))
    # several coupled interfaces: independent convergence iterations and independent own maxIters (the slowest decides)
    for cap, cmaxes, firsts in ((5, [1, 2, 1], [0, 3, 1]), (6, [2, 1, 3], [4, 0, 2]), (4, [1, 1, 1], [1, None, 0]),
                                (3, [2, 6, 1], [2, 2, 2]), (6, [1, None, 2], [5, 1, 3]), (2, [1, 3, 1], [0, 0, 0])):
        conv = [[i + 1, c, n, it] for i, f in enumerate(firsts) if f is not None for (c, n) in nodes2 for it in range(f, cap)]
        out.append(dict(own, stack=cstack(cmaxes), maxIters=cap, conv=conv))
        # the pattern differs per node: node (c, n) converges (c + n) iterations later
        conv = [[i + 1, c, n, it] for i, f in enumerate(firsts) if f is not None for (c, n) in nodes2 for it in range(f + c + n, cap)]
        out.append(dict(own, stack=cstack(cmaxes), maxIters=cap, conv=conv, skip=[1]))
    for a in (0.0, 1.0, 0.5):
        out.append(dict(base, stack=plain_stack(2), halt=[], avail=a))
        out.append(dict(base, stack=plain_stack(2), halt=[], avail=a, nCycles=1, burnSteps=[3]))
    bs = [2, 1, 3]
    det = dict(base, detailed=True, kinds=["bl", "cum", "days"], nCycles=3, burnSteps=bs, stack=plain_stack(3))
    for sc in range(3):
        for sn in range(bs[sc] + 1):
            out.append(dict(det, startCycle=sc, startNode=sn, halt=[]))
            out.append(dict(det, startCycle=sc, startNode=sn, halt=[[2, sc]]))
            if sc < 2:
                out.append(dict(det, startCycle=sc, startNode=sn, halt=[[3, sc + 1]], truthyAll=[1]))
    return out


def expected_reject(cfg):
    """Reason the property text allows the code to refuse this configuration, or None."""
    if len(cfg["burnSteps"]) != cfg["nCycles"]:
        return "burn steps per cycle inconsistent with nCycles"
    if not cfg["detailed"] and cfg["burnSteps"] and cfg["burnSteps"][0] == 0 and cfg["nCycles"] > 1:
        return "zero burn steps with several cycles (step lengths [[]] inconsistent with nCycles)"
    if cfg["coupling"] and cfg["maxIters"] < 1:
        return "tight coupling with an iteration cap of 0"
    if cfg["coupling"] and not any(s["id"] == 0 for s in cfg["stack"]):
        return "tight coupling without a database interface to write with"
    return None


def section_active(ctx):
    """getActiveInterfaces called directly, with excluded names."""
    n = ctx.pick(150, 3000)
    reqs, impl, cases = [], [], []
    rng = ctx.rng
    with common.scratch_dir():
        for k in range(n):
            if k % 25 == 0:
                cfg = gen_config(rng)
                cfg["coupling"] = False
                cfg["nCycles"], cfg["burnSteps"], cfg["detailed"] = 1, [1], False
                cfg["bolSet"] = None
                cfg["halt"] = [[s_["id"], c_] for s_ in cfg["stack"] for c_ in range(cfg["deferredCycle"] + 2) if rng.random() < 0.15]
                evlog = []
                with common.quiet():
                    o, r = build_operator(cfg, evlog)
            ids = [s["id"] for s in cfg["stack"]]
            hook = rng.choice(["BOL", "BOC", "EveryNode", "EOC", "EOL", "Coupled"])
            excl = [i for i in ids if rng.random() < 0.3]
            cyc = rng.randint(0, cfg["deferredCycle"] + 1)
            got = o.getActiveInterfaces(hook, tuple(name_of(i) for i in excl), cycle=cyc)
            got_ids = [g.ident for g in got]
            reqs.append(f"active {hook} {common.intlist(excl)} {cyc} {stack_arg(cfg['stack'])} "
                        f"{common.intlist(cfg['deferred'])} {cfg['deferredCycle']}")
            impl.append(common.intlist(got_ids))
            cases.append({"hook": hook, "excluded": excl, "cycle": cyc, "config": cfg})
            # oracle: the rule of the property
            want = [s["id"] for s in ref_active(cfg, hook, cyc, excl if hook != "BOC" else ())]
            if got_ids != want:
                key = "active-interfaces-" + hook if sorted(got_ids) != sorted(want) else (
                    "eol-reverse-order" if hook == "EOL" else "stack-order")
                ctx.fail("schedule-" + key, "getActiveInterfaces returns the enabled/forced, not excluded/deferred interfaces in order",
                         cases[-1], observed=got_ids, expected=want)
            if len(set(got_ids)) != len(got_ids):
                ctx.fail("schedule-active-once", "each active interface is listed once", cases[-1], observed=got_ids)
            # ---- the event itself, through the public interactAll<Event>(…, excludedInterfaceNames): who is called, in which
            # order, with which arguments; what interactAllBOC returns (a halt request of ANY active interface)
            del evlog[:]
            node = rng.randint(0, 3)
            r.p.cycle, r.p.timeNode = cyc, node
            names = tuple(name_of(i) for i in excl)
            with common.quiet():
                if hook == "BOL":
                    ret, args = o.interactAllBOL(excludedInterfaceNames=names), ()
                elif hook == "BOC":
                    ret, args = o.interactAllBOC(cyc), (cyc,)
                elif hook == "EveryNode":
                    ret, args = o.interactAllEveryNode(cyc, node, excludedInterfaceNames=names), (cyc, node)
                elif hook == "EOC":
                    ret, args = o.interactAllEOC(cyc, excludedInterfaceNames=names), (cyc,)
                elif hook == "EOL":
                    ret, args = o.interactAllEOL(excludedInterfaceNames=names), ()
                else:
                    for i_ in o.interfaces:          # every coupler needs a previous value; convergence itself is not the point here
                        if getattr(i_, "coupler", None) is not None:
                            i_.value = 0.0
                    import collections
                    o._convergenceSummary = collections.defaultdict(list)     # what _performTightCoupling sets up before its loop
                    ret, args = o.interactAllCoupled(node), (node,)
            r.p.cycle, r.p.timeNode = cfg["startCycle"], cfg["startNode"]
            called = parse_log(";".join(evlog))
            if [e[1] for e in called] != want or any(e[0] != hook or e[2] != args or (e[3], e[4]) != (cyc, node) for e in called):
                ctx.fail("schedule-event-dispatch-" + hook, "at each event exactly the enabled (or forced at BOL), not excluded / deferred "
                         "interfaces are called, once each, in stack order (EOL: reverse-flagged last, reversed), with the current "
                         "cycle / node as arguments", cases[-1], observed=[list(e) for e in called], expected=[hook, want, list(args)])
            if hook == "BOC":
                halts = {tuple(x) for x in cfg["halt"]}
                want_halt = any((i, cyc) in halts for i in want)
                if bool(ret) != want_halt:
                    ctx.fail("schedule-halt-request-returned", "interactAllBOC reports a halt request made by ANY active interface",
                             cases[-1], observed=ret, expected=want_halt)
                reqs.append(f"halts {cyc} {stack_arg(cfg['stack'])} {common.intlist(cfg['deferred'])} {cfg['deferredCycle']} {nested(cfg['halt'])}")
                impl.append("T" if ret else "F"); cases.append(dict(cases[-1], op="interactAllBOC return"))
            ctx.case(reqs[-1])
            ctx.count("getActiveInterfaces " + hook)
            ctx.count("interactAll" + hook + " called directly" + (" with excluded names" if excl and hook not in ("BOC", "Coupled") else ""))
    model = lean_run("Schedule", reqs)
    ctx.compare("Schedule.active vs Operator.getActiveInterfaces", cases, model, impl)


def make_cs(bs, kinds=None):
    """A settings-like mapping for the free functions of armi.utils (they only index cs[...]); `kinds` picks, per cycle, one of
    the three ways the detailed input gives a cycle (step days / cumulative days / burn steps + cycle length)."""
    cyc = []
    for k, b in enumerate(bs):
        kind = (kinds or "")[k:k + 1] or "d"
        if kind == "c" and b > 0:
            cyc.append({"cumulative days": [1.25 * (i + 1) for i in range(b)]})
        elif kind == "b" and b > 0:
            cyc.append({"burn steps": b, "cycle length": 10.0, "availability factor": 0.5})
        else:
            cyc.append({"step days": [1.0] * b})
    return {"cycles": cyc, "nCycles": len(bs)}


def call(f, *a):
    try:
        v = f(*a)
    except Exception:  # noqa
        return None
    return v


def fmt_pair(v):
    return "reject" if v is None else f"({v[0]},{v[1]})"


def section_arith(ctx):
    from armi import utils, settings

    L, E = 4, 4
    vectors = [v for n in range(1, L + 1) for v in itertools.product(range(E + 1), repeat=n)]
    reqs, impl, cases = [], [], []
    real_cs_every = ctx.pick(60, 6)
    # beyond the exhaustive box: long detailed histories of very unequal cycle lengths, each cycle given in one of the three forms
    longer = []
    for _ in range(ctx.pick(25, 400)):
        n_ = ctx.rng.randint(5, 12)
        longer.append((tuple(ctx.rng.choice([0, 0, 1, 2, 3, 5, 8, 13, 21]) for _ in range(n_)),
                       "".join(ctx.rng.choice("dcb") for _ in range(n_))))
    for vi, bs in enumerate(vectors + longer):
        kinds = None
        if vi >= len(vectors):
            bs, kinds = bs
            ctx.count("arithmetic: long detailed histories (5-12 cycles, 0-21 burn steps, mixed input forms)")
        bs = list(bs)
        if kinds is not None:
            cs = make_cs(bs, kinds)
            if vi % 5 == 0:
                with common.quiet():
                    cs = settings.Settings().modified(newSettings={"nCycles": len(bs), "cycles": cs["cycles"],
                                                                   "burnSteps": None, "cycleLength": None})
        elif vi % real_cs_every == 0 and bs:
            with common.quiet():
                cs = settings.Settings().modified(newSettings={"nCycles": len(bs), "cycles": make_cs(bs)["cycles"],
                                                               "burnSteps": None, "cycleLength": None})
            ctx.count("arithmetic: real Settings objects")
        else:
            cs = make_cs(bs)
        B = common.intlist(bs)
        got_bs = call(utils.getBurnSteps, cs)
        if got_bs != bs:
            ctx.fail("arith-burnsteps", "getBurnSteps returns the number of steps per cycle", {"bs": bs}, observed=got_bs)
        npc = call(utils.getNodesPerCycle, cs)
        reqs.append(f"npc {B}"); impl.append("reject" if npc is None else common.intlist(npc)); cases.append(("npc", bs))
        total = sum(b + 1 for b in bs)
        visit = [(c, n) for c in range(len(bs)) for n in range(bs[c] + 1)]
        # cumulative node <-> (cycle, node)
        for k, (c, n) in enumerate(visit):
            v = call(utils.getCumulativeNodeNum, c, n, cs)
            reqs.append(f"cumnode {B} {c} {n}"); impl.append("reject" if v is None else str(v)); cases.append(("cumnode", bs, c, n))
            if v != k:
                ctx.fail("arith-cum-numbering-is-visit-order", "the k-th visited node has cumulative number k",
                         {"bs": bs, "cycle": c, "node": n}, observed=v, expected=k)
            back = call(utils.getCycleNodeFromCumulativeNode, k, cs)
            if back is None or tuple(back) != (c, n):
                ctx.fail("arith-cum-node-inverse", "getCycleNodeFromCumulativeNode inverts getCumulativeNodeNum",
                         {"bs": bs, "cycle": c, "node": n}, observed=back, expected=(c, n))
            if (c, n) != (0, 0):
                p = call(utils.getPreviousTimeNode, c, n, cs)
                if p is None or tuple(p) != visit[k - 1]:
                    ctx.fail("arith-prev-node", "getPreviousTimeNode is the node visited just before",
                             {"bs": bs, "cycle": c, "node": n}, observed=p, expected=visit[k - 1])
        for c in range(len(bs) + 2):  # also cycles beyond the end, node beyond the end
            for n in (0, 1, (bs[c] if c < len(bs) else 0) + 1):
                p = call(utils.getPreviousTimeNode, c, n, cs)
                reqs.append(f"prev {B} {c} {n}"); impl.append(fmt_pair(p)); cases.append(("prev", bs, c, n))
                v = call(utils.getCumulativeNodeNum, c, n, cs)
                reqs.append(f"cumnode {B} {c} {n}"); impl.append("reject" if v is None else str(v)); cases.append(("cumnode", bs, c, n))
        for k in range(-1, total + 3):
            v = call(utils.getCycleNodeFromCumulativeNode, k, cs)
            reqs.append(f"nodeofcum {B} {k}"); impl.append(fmt_pair(v)); cases.append(("nodeofcum", bs, k))
            if v is not None and k >= 0:
                kk = call(utils.getCumulativeNodeNum, v[0], v[1], cs)
                if kk != k:
                    ctx.fail("arith-cum-node-inverse", "getCumulativeNodeNum inverts getCycleNodeFromCumulativeNode",
                             {"bs": bs, "k": k}, observed=kk, expected=k)
        # cumulative steps: step t (1-indexed) starts at node (c, n), n < bs[c]
        steps = [(c, n) for c in range(len(bs)) for n in range(bs[c])]
        for t in range(-1, len(steps) + 3):
            v = call(utils.getCycleNodeFromCumulativeStep, t, cs)
            reqs.append(f"stepofcum {B} {t}"); impl.append(fmt_pair(v)); cases.append(("stepofcum", bs, t))
            if 1 <= t <= len(steps):
                if v is None or tuple(v) != steps[t - 1]:
                    ctx.fail("arith-cum-step-inverse", "the t-th time step starts at the t-th (cycle, node) with node < burnSteps",
                             {"bs": bs, "t": t}, observed=v, expected=steps[t - 1])
        ctx.case(("bs",) + tuple(bs))
    model = lean_run("Schedule", reqs)
    ctx.compare("Schedule node arithmetic vs armi.utils", cases, model, impl)
    ctx.evaluations += len(reqs)
    ctx.count("arithmetic: burn-step vectors (exhaustive, length<=4, entries<=4)", len(vectors))
    ctx.count("arithmetic: function evaluations compared", len(reqs))


def section_steps(ctx):
    """Step lengths and cycle lengths for simple and detailed inputs; sum = availability x cycle length."""
    from armi import utils

    rng = ctx.rng
    n = ctx.pick(400, 6000)
    reqs, impl_f, cases = [], [], []

    def unit(lo=0.125):
        """a fraction in [0, 1]: exactly 0.0 and exactly 1.0 as often as an interior value"""
        x = rng.random()
        return 0.0 if x < 0.3 else 1.0 if x < 0.6 else common.dyadic(rng, lo, 1, 3)

    def opt(v):
        return "_" if v is None else (common.ratlist(v) if isinstance(v, list) else common.rat(v))

    fixed = [("bl0", None)]
    for it in range(n):
        kind = "bl0" if it == 0 else rng.choice(["simple", "simplecs", "simplecs", "stepdays", "cum", "bl"])
        if kind == "simplecs":
            nC, b = rng.randint(1, 4), rng.randint(0, 4)
            form_a, form_l, form_p = rng.choice("sln"), rng.choice("sl"), rng.choice("ln")
            afs = [unit() for _ in range(nC)] if form_a == "l" else None
            af = unit() if form_a == "s" else (None if rng.random() < 0.5 else unit())
            cls_ = [common.dyadic(rng, 0, 64, 3) for _ in range(nC)] if form_l == "l" else None
            cl = common.dyadic(rng, 0, 64, 3)
            pfs = [unit(0.0) for _ in range(nC)] if form_p == "l" else None
            if rng.random() < 0.15:
                afs = [] if afs is None else afs        # an empty list counts as "not given"
            cs = {"cycles": [], "nCycles": nC, "burnSteps": b, "availabilityFactors": afs, "availabilityFactor": af,
                  "cycleLengths": cls_, "cycleLength": cl, "powerFractions": pfs}
            av, sl, cyl, pf = (call(f, cs) for f in (utils.getAvailabilityFactors, utils.getStepLengths, utils.getCycleLengths,
                                                     utils.getPowerFractions))
            reqs.append(f"simplecs {nC} {b} {opt(afs)} {opt(af)} {opt(cls_)} {opt(cl)} {opt(pfs)}")
            impl_f.append(("simplecs", av, cyl, sl, pf))
            cases.append({"kind": kind, "cs": {k: v for k, v in cs.items() if k != "cycles"}})
            ctx.count("step inputs: scalar availability exactly 0" if (not afs and af == 0.0) else
                      "step inputs: availability list with an exact 0" if (afs and 0.0 in afs) else "step inputs: other simple forms")
            # oracle: the value given is the value used (0.0 is a value), and the sums
            want_av = afs if afs else ([af] * nC if af is not None else [1])
            if av is None or [float(x) for x in av] != [float(x) for x in want_av]:
                ctx.fail("steps-availability-honoured", "the availability factors are the ones given (a list, else the scalar for every "
                         "cycle, else 1) - exactly 0 included", cases[-1], observed=av, expected=want_av)
            want_pf = [[v] * b for v in (pfs if pfs else [1.0] * nC)]
            if pf is None or pf != want_pf:
                ctx.fail("steps-power-fractions-honoured", "the power fractions are the ones given - exactly 0 included", cases[-1],
                         observed=pf, expected=want_pf)
            if sl is not None and cyl is not None and av is not None and b > 0:
                for c in range(min(len(sl), len(cyl), len(av))):
                    if abs(sum(sl[c]) - av[c] * cyl[c]) > 1e-9 * max(1, abs(cyl[c])) or len(sl[c]) != b:
                        ctx.fail("steps-sum", "step lengths of a cycle sum to availability x cycle length", cases[-1],
                                 observed=[sl[c], cyl[c], av[c]])
            ctx.case(reqs[-1])
            continue
        if kind == "bl0":
            # a decay-only DETAILED cycle: burn steps + cycle length with availability exactly 0 (the schema allows it)
            cyc = {"burn steps": 2, "cycle length": 10.0, "availability factor": 0.0}
            cs = {"cycles": [cyc], "nCycles": 1}
            sl, cl = call(utils.getStepLengths, cs), call(utils.getCycleLengths, cs)
            reqs.append("steps bl 0 2 10"); impl_f.append(("bl", sl, cl)); cases.append({"kind": "bl", "cycle": cyc})
            if sl != [[0.0, 0.0]] or cl != [10.0]:
                ctx.fail("detailed-cycle-zero-availability-raises", "a detailed cycle given by burn steps, cycle length and availability 0 has "
                         "zero-length steps and its cycle length", cases[-1], observed=[sl, cl], expected=[[[0.0, 0.0]], [10.0]])
            ctx.case(reqs[-1])
            continue
        if kind == "simple":
            nC = rng.randint(1, 4)
            b = rng.randint(0, 4)
            lens = [common.dyadic(rng, 0, 64, 3) for _ in range(nC)]
            av = [unit() for _ in range(nC)]
            cs = {"cycles": [], "cycleLengths": lens, "availabilityFactors": av, "burnSteps": b, "nCycles": nC,
                  "cycleLength": None, "availabilityFactor": None, "powerFractions": None}
            sl, cl = call(utils.getStepLengths, cs), call(utils.getCycleLengths, cs)
            reqs.append(f"steps simple {common.ratlist(lens)} {common.ratlist(av)} {b}")
            impl_f.append(("simple", sl, cl, lens, av, b)); cases.append({"kind": kind, "lens": lens, "avail": av, "burnSteps": b})
            if sl is not None and b > 0:
                for c in range(nC):
                    if abs(sum(sl[c]) - av[c] * cl[c]) > 1e-9 * max(1, abs(cl[c])):
                        ctx.fail("steps-sum", "step lengths of a cycle sum to availability x cycle length", cases[-1],
                                 observed=[sl[c], cl[c], av[c]])
                    if len(sl[c]) != b:
                        ctx.fail("steps-count", "a cycle has burnSteps steps", cases[-1], observed=sl[c])
        else:
            a = unit() if rng.random() < 0.5 else common.dyadic(rng, 0.125, 1, 3)
            if kind == "bl" and a == 0.0:
                a = 1.0      # availability 0 with burn steps + cycle length: the fixed first case of this stream (known finding)
            if kind == "stepdays":
                d = [common.dyadic(rng, 0.125, 32, 3) for _ in range(rng.randint(0, 5))]
                pfl = [unit(0.0) for _ in d]
                cyc = {"step days": d, "availability factor": a, "power fractions": pfl}
                got_pf = call(utils.getPowerFractions, {"cycles": [cyc], "nCycles": 1})
                if a != 0.0 and got_pf != [pfl]:
                    ctx.fail("steps-power-fractions-honoured", "the power fractions are the ones given - exactly 0 included",
                             {"kind": kind, "cycle": cyc}, observed=got_pf, expected=[pfl])
                reqs.append(f"steps stepdays {common.rat(a)} {common.ratlist(d)}")
            elif kind == "cum":
                d, t = [], 0.0
                for _k in range(rng.randint(0, 5)):
                    t += common.dyadic(rng, 0.125, 32, 3); d.append(t)
                cyc = {"cumulative days": d, "availability factor": a}
                reqs.append(f"steps cum {common.rat(a)} {common.ratlist(d)}")
            else:
                b, l = rng.randint(1, 5), common.dyadic(rng, 1, 64, 3)
                cyc = {"burn steps": b, "cycle length": l, "availability factor": a}
                reqs.append(f"steps bl {common.rat(a)} {b} {common.rat(l)}")
            cs = {"cycles": [cyc], "nCycles": 1}
            sl, cl = call(utils.getStepLengths, cs), call(utils.getCycleLengths, cs)
            impl_f.append((kind, sl, cl)); cases.append({"kind": kind, "cycle": cyc})
            if sl is not None:
                if abs(sum(sl[0]) - a * cl[0]) > 1e-9 * max(1, abs(cl[0])):
                    ctx.fail("steps-sum", "step lengths of a cycle sum to availability x cycle length", cases[-1],
                             observed=[sl[0], cl[0], a])
        ctx.case(reqs[-1])
    model = lean_run("Schedule", reqs)
    for req, m, f, case in zip(reqs, model, impl_f, cases):
        ok = True
        if f[1] is None:
            ok = m == "reject"
        elif m in ("reject", "bad-op"):
            ok = False
        elif f[0] == "simplecs":
            parts = m.split(";")
            def same_rows(model_rows, real_rows):
                return real_rows is not None and len(model_rows) == len(real_rows) and all(
                    len(r) == len(fr) and all(common.close(x, Fraction(q)) for x, q in zip(fr, r)) for r, fr in zip(model_rows, real_rows))
            ok = (len(parts) == 4 and same_rows([common.parse_list(parts[0])], [f[1]] if f[1] is not None else None)
                  and same_rows([common.parse_list(parts[1])], [f[2]] if f[2] is not None else None)
                  and same_rows(common.parse_list(parts[2]), f[3]) and same_rows(common.parse_list(parts[3]), f[4]))
        elif f[0] == "simple":
            rows = common.parse_list(m)
            ok = len(rows) == len(f[1]) and all(
                len(r) == len(fr) and all(common.close(x, Fraction(q)) for x, q in zip(fr, r)) for r, fr in zip(rows, f[1]))
        else:
            ms, mc = m.split(";")
            row = common.parse_list(ms)
            ok = len(row) == len(f[1][0]) and all(common.close(x, Fraction(q)) for x, q in zip(f[1][0], row)) \
                and common.close(f[2][0], Fraction(mc))
        if not ok:
            ctx.disagree("Schedule.stepLengths vs armi.utils._getStepAndCycleLengths", case, m, repr(f[1:]))
    ctx.count("step-length inputs", n)



# --------------------------------------------------------------------------- stack construction rules
SUBPAIRS = [(2, 1), (5, 4)]          # class 2 derives from class 1, class 5 from class 4
KFUNC = {0: None, 1: "fA", 2: "fA", 3: "fA", 4: "fB", 5: "fB", 6: None}
FUNC_ID = {None: "_", "fA": "1", "fB": "2"}


def stack_classes():
    if "K" in _classes:
        return _classes["K"]
    from armi import interfaces

    class K0(interfaces.Interface):
        name = "k"; function = None

        def __init__(self, r, cs, uid, nm):
            self.name = nm
            super().__init__(r, cs)
            self.uid = uid

    class K1(K0): function = "fA"
    class K2(K1): pass
    class K3(K0): function = "fA"
    class K4(K0): function = "fB"
    class K5(K4): pass
    class K6(K0): pass
    _classes["K"] = [K0, K1, K2, K3, K4, K5, K6]
    return _classes["K"]


def show_stack(o, uid_of=None):
    uid_of = uid_of or (lambda i: i.uid)
    return "[" + ",".join(f"{uid_of(i)}:{'T' if i.enabled() else 'F'}{'T' if i.bolForce() else 'F'}{'T' if i.reverseAtEOL else 'F'}"
                          for i in o.interfaces) + "]"


def section_stack(ctx):
    """addInterface / removeInterface / getInterface sequences on a real Operator, and the real createInterfaces."""
    K = stack_classes()
    rng = ctx.rng
    nseq = ctx.pick(40, 600)
    reqs, impl, cases = [], [], []
    with common.scratch_dir():
        with common.quiet():
            o, r = build_operator({"detailed": False, "nCycles": 1, "burnSteps": [1], "startCycle": 0, "startNode": 0,
                                   "stack": [], "deferred": [], "deferredCycle": 0, "coupling": False, "maxIters": 1,
                                   "skip": [], "halt": [], "conv": []}, [])
        for q in range(nseq):
            o.removeAllInterfaces()
            reqs.append("reset " + nested([list(p) for p in SUBPAIRS])); impl.append("ok"); cases.append({"seq": q, "op": "reset"})
            objs, uid, trace = {}, 0, []
            for _ in range(rng.randint(4, 14)):
                x = rng.random()
                before = list(o.interfaces)
                if x < 0.6:
                    uid += 1
                    k = rng.randint(0, 6)
                    nm = rng.randint(1, 8) if rng.random() < 0.85 else rng.choice([i.name for i in before] or [1])
                    nm = nm if isinstance(nm, int) else int(nm[1:])
                    idx = None if rng.random() < 0.5 else rng.randint(-len(before) - 2, len(before) + 2)
                    rev, en, bf = rng.random() < 0.3, rng.random() < 0.75, rng.random() < 0.3
                    obj = K[k](r, o.cs, uid, f"s{nm}")
                    objs[uid] = obj
                    op = ["add", uid, nm, KFUNC[k], k, idx, rev, en, bf]
                    trace.append(op)
                    try:
                        with common.quiet():
                            o.addInterface(obj, index=idx, reverseAtEOL=rev, enabled=en, bolForce=bf)
                        ans = ("ok " if obj in o.interfaces else "ignored ") + show_stack(o)
                    except RuntimeError:
                        ans = "raised"
                    reqs.append(f"add {uid} {nm} {FUNC_ID[KFUNC[k]]} {k} {'_' if idx is None else idx} {'T' if rev else 'F'} "
                                f"{'T' if en else 'F'} {'T' if bf else 'F'}")
                    # oracle: the documented outcome (same name refused; same function: the more derived class wins)
                    same = [i for i in before if i.function and i.function == KFUNC[k]]
                    if any(i.name == f"s{nm}" for i in before):
                        want = "raised"
                    elif not same:
                        want = "ok"
                    elif issubclass(type(same[0]), K[k]):
                        want = "ignored"
                    elif issubclass(K[k], type(same[0])):
                        want = "ok"
                    else:
                        want = "raised"
                    if ans.split()[0] != want:
                        ctx.fail("stack-add-outcome", "addInterface refuses a second interface of one name, and of one function unless one "
                                 "class derives from the other (then the more derived one is kept)", {"ops": trace},
                                 observed=ans.split()[0], expected=want)
                    # oracle: position and order
                    after = list(o.interfaces)
                    if ans.startswith("ok"):
                        rest = [i for i in after if i is not obj]
                        kept = [i for i in before if i in rest]
                        if rest != kept or len(before) - len(rest) > 1:
                            ctx.fail("stack-add-keeps-order", "addInterface keeps the relative order of the interfaces already attached",
                                     {"ops": trace}, observed=[i.uid for i in after], expected=[i.uid for i in before])
                        exp = list(rest)
                        exp.insert(len(exp) if idx is None else idx, obj)
                        if exp != after:
                            ctx.fail("stack-add-position", "the new interface sits at the requested index (list.insert semantics), else last",
                                     {"ops": trace}, observed=[i.uid for i in after], expected=[i.uid for i in exp])
                        if (obj.enabled(), obj.bolForce(), obj.reverseAtEOL) != (en, bf, rev):
                            ctx.fail("stack-add-flags", "enabled / bolForce / reverseAtEOL are as requested", {"ops": trace},
                                     observed=[obj.enabled(), obj.bolForce(), obj.reverseAtEOL])
                    elif after != before:
                        ctx.fail("stack-refused-add-changes-stack", "a refused or ignored addInterface leaves the stack unchanged",
                                 {"ops": trace}, observed=[i.uid for i in after], expected=[i.uid for i in before])
                elif x < 0.75:
                    nm = rng.randint(1, 8)
                    trace.append(["rmname", nm])
                    try:
                        with common.quiet():
                            ok = o.removeInterface(interfaceName=f"s{nm}")
                        ans = f"{'T' if ok else 'F'} {show_stack(o)}"
                    except RuntimeError:
                        ans = "raised"
                    reqs.append(f"rmname {nm}")
                    if ans != "raised" and [i for i in before if i.name != f"s{nm}"] != list(o.interfaces):
                        ctx.fail("stack-remove", "removeInterface removes exactly the named interface", {"ops": trace},
                                 observed=[i.uid for i in o.interfaces])
                elif x < 0.85 and objs:
                    u = rng.choice(list(objs))
                    trace.append(["rmobj", u])
                    with common.quiet():
                        ok = o.removeInterface(interface=objs[u])
                    ans = f"{'T' if ok else 'F'} {show_stack(o)}"
                    reqs.append(f"rmobj {u}")
                else:
                    nm = rng.choice([None, rng.randint(1, 8)])
                    fn = rng.choice([None, "fA", "fB"])
                    trace.append(["get", nm, fn])
                    try:
                        g = o.getInterface(name=None if nm is None else f"s{nm}", function=fn)
                        ans = "none" if g is None else str(g.uid)
                    except RuntimeError:
                        ans = "raised"
                    reqs.append(f"get {'_' if nm is None else nm} {FUNC_ID[fn]}")
                    cand = [i for i in before if (nm is not None and i.name == f"s{nm}") or (fn and i.function == fn)]
                    want = "none" if not cand else str(cand[0].uid) if len(cand) == 1 else "raised"
                    if ans != want:
                        ctx.fail("stack-getInterface", "getInterface returns the single interface with that name or function",
                                 {"ops": trace}, observed=ans, expected=want)
                impl.append(ans); cases.append({"seq": q, "ops": list(trace)})
                names = [i.name for i in o.interfaces]
                if len(set(names)) != len(names):
                    ctx.fail("stack-names-unique", "no two attached interfaces share a name", {"ops": trace}, observed=names)
                funcs = [i.function for i in o.interfaces if i.function]
                if len(set(funcs)) != len(funcs):
                    ctx.fail("stack-functions-unique", "no two attached interfaces share a function", {"ops": trace}, observed=funcs)
                ctx.count("stack op " + trace[-1][0] + (" (" + ans.split()[0] + ")" if trace[-1][0] == "add" else ""))
            ctx.case(("stackseq", q, len(trace)))
        o.removeAllInterfaces()
    # ---- the real createInterfaces on real settings
    from armi import getPluginManagerOrFail
    from harness import c06
    variants = [{}, {"db": True}, {"db": True, "tightCoupling": True}, {"burnSteps": 0, "nCycles": 1}, {"genReports": True},
                {"db": True, "summarizeAssemDesign": True, "nCycles": 3}]
    with common.scratch_dir():
        for vi, custom in enumerate(variants[:ctx.pick(4, 6)]):
            o, r = c06.load_small(custom)
            raw = []
            for info in getPluginManagerOrFail().hook.exposeInterfaces(cs=o.cs):
                raw += info
            classes = [i.interfaceCls for i in raw]
            fnames = sorted({c.function for c in classes if c.function})
            nameid = {n: k + 1 for k, n in enumerate(sorted({c.name for c in classes}))}
            sub = [[a, b] for a, ca in enumerate(classes) for b, cb in enumerate(classes) if a != b and issubclass(ca, cb)]
            items = []
            for u, info in enumerate(raw):
                c, kw = info.interfaceCls, info.kwargs
                if set(kw) - {"index", "reverseAtEOL", "enabled", "bolForce"}:
                    raise common.Infra(f"unexpected addInterface kwargs {kw}")
                idx = kw.get("index")
                items.append(f"[{common.rat(info.order)},{u},{nameid[c.name]},{fnames.index(c.function) + 1 if c.function else '_'},{u},"
                             f"{'_' if idx is None else idx},{'T' if kw.get('reverseAtEOL', False) else 'F'},"
                             f"{'T' if kw.get('enabled', True) else 'F'},{'T' if kw.get('bolForce', False) else 'F'}]")
            with common.quiet():
                o.removeAllInterfaces()
                try:
                    o.createInterfaces()
                    uid_of = lambda i: next(u for u, c in enumerate(classes) if type(i) is c)
                    ans = "ok " + show_stack(o, uid_of)
                except RuntimeError:
                    ans = "raised"
            reqs += ["reset " + nested(sub), "create [" + ",".join(items) + "]"]
            impl += ["ok", ans]; cases += [{"create": custom}] * 2
            if ans != "raised":
                orders = [next(i.order for i in raw if i.interfaceCls is type(x)) for x in o.interfaces]
                pos = [next(u for u, c in enumerate(classes) if type(x) is c) for x in o.interfaces]
                if any(a > b or (a == b and p > q) for (a, p), (b, q) in zip(zip(orders, pos), list(zip(orders, pos))[1:])):
                    ctx.fail("stack-created-sorted-by-order", "createInterfaces attaches interfaces sorted by ORDER, ties in registration order",
                             {"settings": custom}, observed=list(zip(orders, pos)))
            ctx.case(("create", vi), sample={"settings": custom, "stack": [type(x).__name__ for x in o.interfaces]} if vi == 1 else None)
            ctx.count("createInterfaces on real settings")
            ctx.count("interfaces created", len(o.interfaces))
    model = lean_run("IfaceStack", reqs)
    ctx.compare("IfaceStack vs Operator.addInterface/removeInterface/getInterface/createInterfaces", cases, model, impl)
    ctx.evaluations += len(reqs)


def section_coupler(ctx):
    """Function-level tie of `_performTightCoupling` / `interactAllCoupled` / `_checkTightCouplingConvergence` /
    `TightCoupler.storePreviousIterationValue` / `isConverged`: a real Operator whose interfaces carry real TightCouplers
    (own maxIters 1..6, a starting counter, a dyadic tolerance) and return scripted dyadic values before / after each round;
    `_performTightCoupling` is called directly. Compared with `Schedule.coupledLoopS`: rounds run, warnings the couplers
    issued themselves, every coupler's counter afterwards. Oracle: rounds = min(cap, 1 + first round in which every
    coupler's |after - before| < tolerance)."""
    from armi import interfaces
    rng = ctx.rng
    n = ctx.pick(120, 2500)

    class CRec(interfaces.Interface):
        name = "crec"

        def __init__(self, r, cs, ident, spec, rounds):
            self.name = name_of(ident)
            super().__init__(r, cs)
            self.ident, self.rounds, self.k, self.spec, self.warned = ident, rounds, 0, spec, 0
            if spec is not None:
                self.coupler = interfaces.TightCoupler("power", spec["tol"], spec["cmax"])
                self.coupler._numIters = spec["num"]
                inner = self.coupler.isConverged

                def watched(val, _inner=inner):
                    ok = _inner(val)
                    if not ok and self.coupler._numIters == 0:
                        self.warned += 1      # the counter was reset without convergence: the coupler's own warning branch
                    return ok
                self.coupler.isConverged = watched

        def interactCoupled(self, iteration):
            self.rounds.append((self.ident, iteration))

        def getTightCouplingValue(self):
            it, after = divmod(self.k, 2)
            self.k += 1
            return (self.spec["va"] if after else self.spec["vb"])[it]

    reqs, impl, cases = [], [], []
    with common.scratch_dir():
        with common.quiet():
            o, r = build_operator({"detailed": False, "nCycles": 1, "burnSteps": [1], "startCycle": 0, "startNode": 0,
                                   "stack": [], "deferred": [], "deferredCycle": 0, "coupling": True, "maxIters": 1,
                                   "skip": [], "halt": [], "conv": []}, [])
        for q in range(n):
            cap = rng.randint(1, 6)
            m = rng.choice([1, 1, 2, 2, 3, 4])
            grid = rng.choice([0.25, 0.5, 1.0])
            specs = []
            for i in range(m):
                tol = rng.choice([0.25, 0.5, 1.0, 1.5])
                first = rng.choice([0, 0, 1, 1, 2, 2, 3, 3, 4, 5, 7, None])      # this coupler's first converged round
                vb, va = [], []
                v = rng.randint(-4, 4) * grid
                for it in range(cap):
                    vb.append(v)
                    if first is not None and (it == first or (it > first and rng.random() < 0.95)):
                        d = rng.choice([0.0, tol - grid, -(tol - grid), tol / 2]) if tol > grid else rng.choice([0.0, tol / 2, -tol / 2])
                    else:
                        d = rng.choice([tol, -tol, tol + grid, -(tol + 2 * grid), 3.0])     # eps == tol exactly is NOT converged
                    v = v + d
                    va.append(v)
                    if rng.random() < 0.3:
                        v += rng.randint(-2, 2) * grid      # something else changes the value between rounds
                cmax = rng.choice([1, 1, 2, 2, 3, 4, 5, 6])
                specs.append({"tol": tol, "cmax": cmax, "num": rng.randint(0, cmax - 1) if rng.random() < 0.5 else 0,
                              "vb": vb, "va": va})
            rounds = []
            o.removeAllInterfaces()
            ifs = []
            layout = list(range(m)) + ([None] if rng.random() < 0.5 else [])       # a coupled stack, maybe one without a coupler
            rng.shuffle(layout)
            for pos, k in enumerate(layout):
                ifs.append(CRec(r, o.cs, pos + 1, None if k is None else specs[k], rounds))
                o.addInterface(ifs[-1])
            order = [k for k in layout if k is not None]
            specs = [specs[k] for k in order]
            cifs = [i for i in ifs if i.spec is not None]
            with common.quiet():
                o.cs = o.cs.modified(newSettings={"tightCoupling": True, "tightCouplingMaxNumIters": cap,
                                                  "cyclesSkipTightCouplingInteraction": []})
                try:
                    o._performTightCoupling(0, 0, writeDB=False)
                    nr = len([1 for (ident, it) in rounds if ident == ifs[0].ident])
                    its = [it for (ident, it) in rounds if ident == ifs[0].ident]
                    ans = f"{nr} {sum(i.warned for i in cifs)} {common.intlist([i.coupler._numIters for i in cifs])}"
                except Exception as e:  # noqa
                    ans, nr, its = "reject", None, []
            case = {"cap": cap, "couplers": specs}
            reqs.append("couple {} {} {} {} {} {} {}".format(
                cap, common.intlist([i.ident for i in cifs]), common.intlist([x["cmax"] for x in specs]),
                common.intlist([x["num"] for x in specs]), common.ratlist([x["tol"] for x in specs]),
                "[" + ",".join(common.ratlist(x["vb"]) for x in specs) + "]",
                "[" + ",".join(common.ratlist(x["va"]) for x in specs) + "]"))
            impl.append(ans); cases.append(case)
            # ---- oracle: the property's clause from the scripted values alone
            want = cap
            for it in range(cap):
                if all(abs(x["va"][it] - x["vb"][it]) < x["tol"] for x in specs):
                    want = it + 1
                    break
            if nr != want or its != list(range(want)):
                ctx.fail("schedule-coupling-rounds", "the coupled interfaces are iterated until all couplers converge or the run's "
                         "iteration cap (tightCouplingMaxNumIters) is reached - whatever maxIters the interfaces' own couplers carry",
                         case, observed=its if nr is not None else ans, expected=list(range(want)))
            ctx.count(f"coupler call: {want} rounds" + (" (cap, not converged)" if want == cap and not all(
                abs(x["va"][cap - 1] - x["vb"][cap - 1]) < x["tol"] for x in specs) else ""))
            if any(x["cmax"] < want for x in specs):
                ctx.count("coupler call: rounds run exceed some coupler's own maxIters")
            ctx.case(reqs[-1])
        o.removeAllInterfaces()
    model = lean_run("Schedule", reqs)
    ctx.compare("Schedule.coupledLoopS vs Operator._performTightCoupling with real TightCouplers", cases, model, impl)
    ctx.evaluations += len(reqs)


def section_repeat(ctx):
    """The MCNP repeat notation of the cycle inputs ('step days': [150, 200, '9R']): utils.mathematics.expandRepeatedFloats vs
    Schedule.expandRepeated, then through getStepLengths / getBurnSteps / getPowerFractions / getAvailabilityFactors /
    getCycleLengths. Oracle: an independent expansion (each number once, plus n more copies per following 'nR')."""
    from armi import utils
    from armi.utils import mathematics
    rng = ctx.rng
    reqs, impl, cases = [], [], []

    def gen(allow_bad=True):
        items, want = [], []
        for k in range(rng.randint(0, 6)):
            if (items or (allow_bad and rng.random() < 0.08)) and rng.random() < 0.4:
                n_ = rng.choice([0, 1, 1, 2, 3, 9])
                items.append(f"{n_}{rng.choice('Rr')}")
                want = None if (want is None or not want) else want + [want[-1]] * n_
            else:
                v = common.dyadic(rng, 0.125, 64, 3)
                items.append(rng.choice([v, v, str(v)]) if rng.random() < 0.9 else int(v) + 1)
                if want is not None:
                    want = want + [float(items[-1])]
        return items, want

    def token(x):
        return (x.upper() if isinstance(x, str) and x.upper().endswith("R") else common.rat(float(x)))

    for _ in range(ctx.pick(150, 3000)):
        items, want = gen()
        try:
            got = mathematics.expandRepeatedFloats(list(items))
        except IndexError:
            got = None
        reqs.append("expand [" + ",".join(token(x) for x in items) + "]")
        impl.append("reject" if got is None else common.ratlist(got)); cases.append({"repeat_list": items})
        if got != want:
            ctx.fail("steps-repeat-notation", "a list in repeat notation stands for each number once plus n more copies per following 'nR'",
                     cases[-1], observed=got, expected=want)
        ctx.count("repeat list: " + ("refused (starts with a repeat)" if got is None else "expanded"))
        ctx.case(reqs[-1])
    # through the cycle-history functions: detailed cycles given by step days / power fractions in repeat notation; simple inputs
    # with availabilityFactors / cycleLengths / powerFractions in repeat notation
    for _ in range(ctx.pick(60, 1200)):
        nC = rng.randint(1, 3)
        cyc, wsteps, wpf = [], [], []
        for _c in range(nC):
            while True:
                items, want = gen(allow_bad=False)
                if want:
                    break
            pf_items, pf_want = [], []
            for k, _v in enumerate(want):      # as many power fractions as steps, partly as repeats
                if pf_items and rng.random() < 0.4 and not str(pf_items[-1]).upper().endswith("R"):
                    run = 1
                    pf_items.append("1R"); pf_want.append(pf_want[-1])
                else:
                    f = rng.choice([0.0, 0.5, 1.0, 0.25])
                    pf_items.append(f); pf_want.append(f)
            cyc.append({"step days": items, "power fractions": pf_items})
            wsteps.append(want); wpf.append(pf_want)
        cs = {"cycles": cyc, "nCycles": nC}
        case = {"cycles": cyc}
        got = (call(utils.getStepLengths, cs), call(utils.getBurnSteps, cs), call(utils.getPowerFractions, cs))
        if got[0] != wsteps or got[1] != [len(w) for w in wsteps] or got[2] != wpf:
            ctx.fail("steps-repeat-notation", "step days / power fractions in repeat notation give one step per expanded entry",
                     case, observed=got, expected=(wsteps, [len(w) for w in wsteps], wpf))
        ctx.case(("repeat-cycles", str(cyc)))
        ctx.count("cycle inputs in repeat notation")
    for _ in range(ctx.pick(40, 600)):
        nC = rng.randint(2, 5)
        def rep_list(lo, hi):
            vals, items = [], []
            while len(vals) < nC:
                if vals and rng.random() < 0.4:
                    n_ = rng.randint(1, nC - len(vals))
                    items.append(f"{n_}R"); vals += [vals[-1]] * n_
                else:
                    v = common.dyadic(rng, lo, hi, 3); items.append(v); vals.append(v)
            return items, vals
        (a_i, a_v), (l_i, l_v), (p_i, p_v) = rep_list(0.125, 1), rep_list(1, 64), rep_list(0.125, 1)
        b = rng.randint(1, 3)
        cs = {"cycles": [], "nCycles": nC, "burnSteps": b, "availabilityFactors": a_i, "availabilityFactor": None,
              "cycleLengths": l_i, "cycleLength": None, "powerFractions": p_i}
        got = (call(utils.getAvailabilityFactors, cs), call(utils.getCycleLengths, cs), call(utils.getPowerFractions, cs),
               call(utils.getStepLengths, cs))
        want = (a_v, l_v, [[v] * b for v in p_v], [[l * a / b] * b for l, a in zip(l_v, a_v)])
        if got[:3] != want[:3] or got[3] is None or any(abs(x - y) > 1e-9 * max(1, abs(y)) for r1, r2 in zip(got[3], want[3]) for x, y in zip(r1, r2)) \
                or [len(r_) for r_ in got[3]] != [b] * nC:
            ctx.fail("steps-repeat-notation", "availabilityFactors / cycleLengths / powerFractions in repeat notation give one value per cycle",
                     {"cs": {k: v for k, v in cs.items() if k != "cycles"}}, observed=got, expected=want)
        ctx.case(("repeat-simple", str(a_i), str(l_i), str(p_i), b))
        ctx.count("simple inputs in repeat notation")
    model = lean_run("Schedule", reqs)
    ctx.compare("Schedule.expandRepeated vs utils.mathematics.expandRepeatedFloats", cases, model, impl)
    ctx.evaluations += len(reqs)


def run(ctx):
    section_stack(ctx)
    section_arith(ctx)
    section_steps(ctx)
    section_repeat(ctx)
    section_active(ctx)
    section_coupler(ctx)
    section_runs(ctx)
    ctx.exhaustive = False
    ctx.rule = ("stack construction: random addInterface(index/flags, same-name, same-function with derived / base / unrelated "
                "class) / removeInterface(by name, by object) / getInterface(name, function) sequences on a real Operator, and the "
                "real createInterfaces on several real settings against the plugin manager's raw InterfaceInfo list; "
                "generated run configurations (simple/detailed cycle inputs, zero burn steps, restart points incl. beyond the "
                "end, 1-7 recording interfaces with enabled/bolForce/reverseAtEOL/deferred flags, halting interfaces, real "
                "TightCouplers with scripted convergence, skipped cycles, cap 0, missing database interface): one case = one "
                "whole run whose event log is compared exactly (couplers carry their own maxIters, independent convergence iterations "
                "per coupler and node, cap 0..6); _performTightCoupling called directly with scripted coupler values; "
                "getActiveInterfaces and interactAll<Event> called directly with excluded names; node "
                "arithmetic EXHAUSTIVE for all burn-step vectors of length<=4 with entries<=4 (780 vectors; every function at "
                "every node/step/cumulative index incl. out-of-range) plus generated long detailed histories (5-12 cycles, 0-21 burn "
                "steps, the three input forms mixed); step lengths on generated dyadic inputs. distinct = "
                "distinct request lines; every case calls the real code.")


# --------------------------------------------------------------------------- search / replay
def check_config(cfg):
    """Oracle on one configuration; returns a Failure or None."""
    obs, err = real_run(cfg)
    if obs == "reject":
        if expected_reject(cfg) is None:
            return Failure("schedule-run-raises", "a valid configuration runs to completion", {"config": cfg}, observed=err)
        return None
    exp = flat(reference(cfg))
    if obs != exp:
        key, detail = classify(cfg, obs, exp)
        return Failure("schedule-" + key, "event log of the real run equals the reference schedule of the property",
                       {"config": cfg}, observed=dict(detail, log=obs[:1500]), expected=exp[:1500])
    sub = common.Ctx("C15", "quick", 0)
    check_time_state(sub, cfg)
    check_coupling_rounds(sub, cfg, obs)
    return sub.failures[0] if sub.failures else None


def search(ctx, disagreements, broken):
    out = []
    if any(isinstance(d.case, dict) and ("seq" in d.case or "create" in d.case) for d in disagreements):
        sub = type(ctx)(ctx.prop, ctx.tier, ctx.seed + 1000)
        section_stack(sub)
        out += [Failure(f.key, f.clause, f.case, f.observed, f.expected) for f in sub.failures]
    with common.scratch_dir():
        for d in disagreements[:20]:
            c = d.case
            if isinstance(c, dict) and "config" in c and "hook" not in c:
                f = check_config(c["config"])
                if f:
                    out.append(f)
        if not out:  # neighbourhood: fresh small configurations
            import random
            rng = random.Random(f"C15-search-{ctx.seed}")
            for _ in range(300):
                f = check_config(gen_config(rng, small=True))
                if f:
                    out.append(f)
                    break
    return out


def replay(ctx, payload):
    case = payload.get("case", {})
    if isinstance(case, dict) and "config" in case and "hook" not in case:
        with common.scratch_dir():
            f = check_config(case["config"])
        return f.to_json() if f else None
    sub = type(ctx)(ctx.prop, "quick", ctx.seed)
    run(sub)
    hit = [f for f in sub.failures if f.key == payload.get("key")]
    return hit[0].to_json() if hit else None
