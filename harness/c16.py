"""C16 - retained state is restored exactly; parameter copies are equal and independent.

Theorems: lean/ArmiVerif/Props/C16.lean over lean/ArmiVerif/Model/Params.lean (collections with a back-up
STACK, caches, grid back-up stack, definition-level assigned flags, serial counter, read-only switch).
Tie (correspondence): nested retainState scopes (depth <= 4) on random objects of the smallest test reactor
(plus added assembly copies) with plain parameter assignments of every value kind (scalar / array / list /
dict / str / None), random keep-sets, cache entries, hex-grid pitch changes, deepcopy / pickle points and
makeParametersReadOnly on reactors whose ex-core systems (spent fuel pool filled by sfp.add and by tracked discharges, a
second ex-core structure) hold assemblies; after every step the canonical dump of the touched objects (every parameter value
as an equality code, collection `assigned`, back-up depth, cache probes, grid triple, serial, read-only)
is compared with the model, and at the end the definition-level flags.
Oracle (independent of the model): snapshot comparison of every parameter of every object before / at
the end of / after each scope (kept parameters keep the inner value, all others the entry value, objects
outside the scope untouched), caches, grid (unitSteps, bounds, offset), an API-level stream
(setNumberDensity, setTemperature, heights + calculateZCoords, changePitch), serial uniqueness /
freshness, copy equality and independence, read-only refusal on EVERY object reachable by a naive walk from the reactor
(all systems) through item / attribute / update / unlock / number-density API routes, after makeParametersReadOnly and
after a database round trip through Database.loadReadOnly.
"""
import copy
import hashlib
import os
import pickle
import random

import numpy as np

from harness import common
from harness.common import Failure, lean_run

PROP_MODULES = ["ArmiVerif.Props.C16"]
PARTIAL = ("in-place mutations of parameter values (`pokeP`) are modelled and tied (scopes, copies) but are not part of "
           "`Prog`: retain_restores speaks about assignments through setters (a kept parameter that was only mutated "
           "in place is restored, as in the code); parameters holding nested arrays are kept out of keep-sets (known finding); "
           "custom setters are modelled as arbitrary functions of (own values, new value) that may refuse or fan out to "
           "sibling parameters of the SAME object (setC; observed row sent by the harness); setters reaching other objects "
           "are not modelled; "
           "values are equality codes: what pickle/deepcopy do to a leaf value is a parameter of the model (checked "
           "on the implementation: value canonical forms before/after); the API-level "
           "mutators (setNumberDensity, setTemperature, ...) are covered by the implementation-side oracle; a material "
           "is modelled as an object without definitions and grid (its cache chain only; the parameter frame the model also "
           "pushes for it is unobservable); makeParametersReadOnly is modelled as the walk over the child lists the harness "
           "reads off the real reactor (all systems), Database.loadReadOnly is oracle-only; pickle and DB load preserve serials by design (uniqueness proved per tree, i.e. when the "
           "original is discarded); MPI not covered")
ASSUMPTIONS = [
    "pickle.loads(pickle.dumps(state)) and copy.deepcopy return values equal to the original leaf values "
    "(exercised: canonical value forms are compared before/after every scope and copy)",
    "the subtree iterated at scope entry and exit is the same (no structural edits inside a scope)",
]

_FIX = {}


def fixture():
    if "r" not in _FIX:
        from armi.reactor.tests.test_reactors import loadTestReactor
        from armi.tests import TEST_ROOT

        with common.scratch_dir(), common.quiet():
            o, r = loadTestReactor(os.path.join(TEST_ROOT, "smallestTestReactor"), inputFileName="armiRunSmallest.yaml")
        _FIX["r"] = r
        _FIX["o"] = o
    return _FIX["r"]


def populate_excore(ctx, rng, r):
    """Fill the ex-core systems of a reactor: assemblies (with their blocks and components) in the spent fuel pool --
    put there directly (`sfp.add`) and by a discharge from the core with assembly tracking on -- and, sometimes, a second
    ex-core structure holding an assembly.  Returns the objects now held outside the core."""
    from armi.reactor import grids
    from armi.reactor.excoreStructure import ExcoreStructure

    sfp = next((c for c in r if type(c).__name__ == "SpentFuelPool"), None)
    if sfp is None:
        return []
    if r.excore.get("sfp") is None:
        r.excore["sfp"] = sfp            # (copy.deepcopy of a Reactor does not carry the excore registry over)
    held = []
    for k in range(rng.randint(1, 2)):
        a = copy.deepcopy(r.core[0])
        a.makeUnique()
        if rng.random() < 0.5:
            sfp.add(a)
            ctx.count("ex-core: assembly put into the spent fuel pool (sfp.add)")
        else:
            g = r.core.spatialGrid
            free = [(i, j) for i in range(0, 4) for j in range(-1, 3) if g[i, j, 0] not in r.core.childrenByLocator
                    and g.locatorInDomain(g[i, j, 0], symmetryOverlap=True)]
            r.core.add(a, r.core.spatialGrid[free[0][0], free[0][1], 0])
            track = r.core._trackAssems
            r.core._trackAssems = True
            try:
                r.core.removeAssembly(a, discharge=True)
            finally:
                r.core._trackAssems = track
            ctx.count("ex-core: assembly discharged from the core into the spent fuel pool (trackAssems)")
        if a.parent is sfp:
            held.append(a)
    if rng.random() < 0.35:
        ivs = ExcoreStructure("ivs")
        ivs.spatialGrid = grids.CartesianGrid.fromRectangle(20.0, 20.0)
        ivs.spatialGrid.armiObject = ivs
        r.add(ivs)
        a = copy.deepcopy(r.core[0])
        a.makeUnique()
        ivs.add(a, ivs.spatialGrid[rng.randint(0, 2), 0, 0])
        held.append(a)
        ctx.count("ex-core: second ex-core structure holding an assembly")
    return held


def canon(v):
    """canonical, hashable form of a parameter value (equal forms <=> equal values, type-aware)"""
    from armi.reactor.parameters import NoDefault

    if v is NoDefault:
        return "ND"
    if v is None:
        return "N"
    if type(v).__name__ == "_DimensionLink":
        return f"L{v[0].name}.{v[1]}"
    if isinstance(v, (bool, np.bool_)):
        return f"b{bool(v)}"
    if isinstance(v, (int, np.integer)):
        return f"i{int(v)}"
    if isinstance(v, (float, np.floating)):
        # (a signed zero is the same value: -0.0 == 0.0 for `!=`, np.array_equal and every consumer)
        return f"f{float(v) + 0.0!r}"
    if isinstance(v, str):
        return "s" + v
    if isinstance(v, np.ndarray):
        if v.dtype == object:
            return "A(" + ",".join(canon(x) for x in v.tolist()) + ")"
        if v.dtype.kind in "fc":
            v = v + 0.0          # -0.0 -> 0.0
        return f"a{v.dtype.str}{v.shape}" + hashlib.sha1(np.ascontiguousarray(v).tobytes()).hexdigest()[:16]
    if isinstance(v, (list, tuple)):
        return ("l[" if isinstance(v, list) else "t[") + ",".join(canon(x) for x in v) + "]"
    if isinstance(v, dict):
        return "d{" + ",".join(sorted(f"{canon(k)}:{canon(x)}" for k, x in v.items())) + "}"
    if isinstance(v, (set, frozenset)):
        return "S{" + ",".join(sorted(canon(x) for x in v)) + "}"
    if hasattr(v, "_value") and hasattr(type(v), "fields"):
        return f"F{int(v)}"
    if type(v).__name__ == "_DimensionLink":
        return "L" + str(v)
    try:
        return "o" + type(v).__name__ + hashlib.sha1(pickle.dumps(v)).hexdigest()[:16]
    except Exception:
        return "o" + type(v).__name__


class Session:
    def __init__(self, ctx, seq_seed, batch):
        self.ctx, self.seq_seed, self.batch = ctx, seq_seed, batch
        self.rng = random.Random(seq_seed)
        self.objs, self.ids = [], {}
        self.defs, self.defids = [], {}      # Parameter objects by identity
        self.codes = {}
        self.log = []
        self.skipnames = set(SKIP_PARAMS)
        self.keepstack = []
        self.desync = False
        self.nested_names = set()
        self.alias_ids = set()
        self.mat_rng = random.Random(seq_seed ^ 0x5EED)
        self.emit("reset", "ok")

    def case(self):
        return {"seq_seed": self.seq_seed, "step": len(self.log), "last_ops": self.log[-6:]}

    def emit(self, req, impl):
        self.batch["req"].append(req)
        self.batch["impl"].append(impl)
        self.batch["cases"].append(self.case() | {"request": req})

    def code(self, v):
        c = canon(v)
        return self.codes.setdefault(c, len(self.codes) + 1)

    def did(self, pd):
        if id(pd) not in self.defids:
            self.defids[id(pd)] = len(self.defs)
            self.defs.append(pd)
        return self.defids[id(pd)]

    def pdefs(self, o):
        # serialNum is represented by the model's `serial` field, not as a value
        return [pd for pd in o.p.paramDefs if pd.name != "serialNum"]

    def val(self, o, pd):
        from armi.reactor.parameters import NoDefault

        return getattr(o.p, pd.fieldName, NoDefault)

    def grid_triple(self, o):
        g = o.spatialGrid
        if g is None:
            return None
        return (self.code(g._unitSteps), self.code(g._bounds), self.code(g._offset))

    def backup_depth(self, o):
        try:
            return self._backup_depth(o)
        except Exception:
            return "?"

    def _backup_depth(self, o):
        n, b = 0, o.p._backup
        while b is not None:
            n += 1
            state = pickle.loads(b)
            b = dict(zip(o.p._allFields, state))["_backup"]
        return n

    @staticmethod
    def chain_depth(x, last=True):
        """depth of a nested (.., prev) / (prev, ..) tuple chain, or of a list used as a stack; '?' if the private
        representation is something else (the field is then left out of the comparison: the LIFO behaviour itself is
        checked through the values at every scope exit)"""
        try:
            if isinstance(x, list):
                return len(x)
            n = 0
            while x is not None:
                if not isinstance(x, tuple) or not x:
                    return "?"
                n += 1
                nxt = x[-1] if last else x[0]
                if nxt is not None and not isinstance(nxt, tuple):
                    return "?"
                x = nxt
                if n > 64:
                    return "?"
            return n
        except Exception:
            return "?"

    def obj_line(self, o):
        vs = "[" + ",".join(str(self.code(self.val(o, pd))) for pd in self.pdefs(o)) + "]"
        ck = "[" + ",".join("_" if f"k{k}" not in o.cached else str(self.code(o.cached[f"k{k}"])) for k in range(3)) + "]"
        g = self.grid_triple(o)
        gs = "_" if g is None else f"({g[0]},{g[1]},{g[2]})"
        gb = 0 if o.spatialGrid is None else self.chain_depth(getattr(o.spatialGrid, "_backup", None), last=True)
        return (f"v{vs} a{o.p.assigned} b{self.backup_depth(o)} c{ck} cb{self.chain_depth(getattr(o, '_backupCache', None), last=True)} "
                f"g{gs} gb{gb} s{o.p.serialNum} r{'T' if o.p.readOnly else 'F'}")

    def lines(self, objs):
        return ";".join(self.obj_line(o) for o in objs)

    def mat_line(self, m):
        ck = "[" + ",".join("_" if f"k{k}" not in m.cached else str(self.code(m.cached[f"k{k}"])) for k in range(3)) + "]"
        return f"c{ck} cb{self.chain_depth(getattr(m, '_backupCache', None), last=True)}"

    def mlines(self, ms):
        return ";".join(self.mat_line(m) for m in ms)

    def mats_of(self, objs):
        """the registered materials of the objects, in StateRetainer order"""
        return [o.material for o in objs if getattr(o, "material", None) is not None and id(o.material) in self.ids]

    def register_mats(self, objs):
        """materials are model objects without parameter definitions and grid (only their cache is observable)"""
        n = 0
        for o in objs:
            m = getattr(o, "material", None)
            if m is None or id(m) in self.ids or not hasattr(m, "_setCache"):
                continue
            # (a sample: every model object lengthens the interpreter's look-up chains of whole-reactor scopes; materials
            # left out are never given probe entries by this session)
            if n >= 1 and self.mat_rng.random() > 0.7:
                continue
            self.register(m)
            self.batch["req"].append("create [] _")
            self.batch["impl"].append(None); self.batch["cases"].append(self.case())
            for k in range(3):
                if f"k{k}" in m.cached:
                    self.batch["req"].append(f"mcache {self.ids[id(m)]} {k} {self.code(m.cached[f'k{k}'])}")
                    self.batch["impl"].append(None); self.batch["cases"].append(self.case())
            n += 1
        return n

    def scan_alias(self, group):
        """ids of container values held by more than one (object, parameter) of the group"""
        seen = {}
        for o in group:
            for q in o.p.paramDefs:
                w = getattr(o.p, q.fieldName, None)
                if isinstance(w, (np.ndarray, list, dict)):
                    for i in {id(w)} | {id(x) for x in _inner_arrays(w)}:
                        seen[i] = seen.get(i, 0) + 1
        self.alias_ids |= {i for i, n in seen.items() if n > 1}

    def register(self, o):
        self.ids[id(o)] = len(self.objs)
        self.objs.append(o)

    def mirror(self, root):
        """register an existing tree and load its current state into the model"""
        walk = preorder(root)
        self.scan_alias(walk)
        for o in walk:
            self.register(o)
            ds = [self.did(pd) for pd in self.pdefs(o)]
            g = self.grid_triple(o)
            gs = "_" if g is None else f"[{g[0]},{g[1]},{g[2]}]"
            self.batch["req"].append(f"create [{','.join(map(str, ds))}] {gs}")
            self.batch["impl"].append(None); self.batch["cases"].append(self.case())
            vs = ",".join(str(self.code(self.val(o, pd))) for pd in self.pdefs(o))
            self.batch["req"].append(f"init {self.ids[id(o)]} [{vs}] {o.p.assigned}")
            self.batch["impl"].append(None); self.batch["cases"].append(self.case())
            self.batch["req"].append(f"serial {self.ids[id(o)]} {o.p.serialNum}")
            self.batch["impl"].append(None); self.batch["cases"].append(self.case())
        self.register_mats(walk)
        self.batch["req"].append("dsetall [" + ",".join(str(pd.assigned) for pd in self.defs) + "]")
        self.batch["impl"].append(None); self.batch["cases"].append(self.case())
        self.sync_counter()
        self.emit(f"dump [{','.join(str(self.ids[id(o)]) for o in walk)}]", self.lines(walk))

    def sync_counter(self):
        from armi.reactor.parameters import parameterCollections as pc

        self.batch["req"].append(f"counter {pc.GLOBAL_SERIAL_NUM + 1}")
        self.batch["impl"].append(None); self.batch["cases"].append(self.case())

    def ddump(self):
        ds = list(range(len(self.defs)))
        impl = "[" + ",".join(f"{pd.assigned}/{self.chain_depth(pd._backup, last=False)}" for pd in self.defs) + "]"
        self.emit(f"ddump [{','.join(map(str, ds))}]", impl)


def preorder(o):
    out = [o]
    for c in o:
        out += preorder(c)
    return out


# parameters never assigned by the generator (identity / structure / custom-setter side effects)
SKIP_PARAMS = {"serialNum", "flags", "type", "assemNum", "name"}


def make_rack(rng):
    """a container with a CARTESIAN grid built with a non-zero offset and located children"""
    from armi.reactor import composites, grids

    rack = composites.Composite("rack")
    rack.spatialGrid = grids.CartesianGrid.fromRectangle(1.0 + rng.randint(0, 3) / 4.0, 2.0, isOffset=True)
    rack.spatialGrid.armiObject = rack
    for k in range(rng.randint(1, 3)):
        c = composites.Composite(f"slot{k}")
        rack.add(c)
        c.spatialLocator = rack.spatialGrid[k, -k, 0]
    return rack


def snapshot(ses, objs):
    """independent full dump: canonical forms of every parameter, cache and grid of the given objects"""
    out = {}
    for o in objs:
        d = {}
        for pd in o.p.paramDefs:
            try:
                d[pd.name] = canon(o.p[pd.name])      # the public read: raises for a never-assigned parameter
            except Exception:
                d[pd.name] = "<unset>"
            if (d[pd.name] == "<unset>") != (canon(ses.val(o, pd)) == "ND"):
                d[pd.name] += "|stored:" + canon(ses.val(o, pd))
        d["<cache>"] = canon({k: v for k, v in o.cached.items() if isinstance(k, str) and k.startswith("k")})
        g = o.spatialGrid
        d["<grid>"] = None if g is None else (canon(g._unitSteps), canon(g._bounds), canon(g._offset))
        if g is not None:
            # local coordinates of the located children: a function of this object's grid state only
            cc = []
            for c in o:
                loc = c.spatialLocator
                if loc is not None and type(loc).__name__ == "IndexLocation" and loc.grid is g:
                    try:
                        cc.append(canon(np.asarray(loc.getLocalCoordinates(), dtype=float)))
                    except Exception:
                        cc.append("unavailable")
            d["<childcoords>"] = ",".join(cc)
        mat = getattr(o, "material", None)
        if mat is not None and hasattr(mat, "cached"):
            d["<matcache>"] = canon({k: v for k, v in mat.cached.items() if isinstance(k, str) and k.startswith("k")})
        out[id(o)] = d
    return out


_NOVALUE = object()


def perturb(rng, x):
    """a float (array) that differs from x only slightly: relative change < 1e-5, one ulp, or a trace value (< 1e-8)
    changed by some factor -- kept values must come back EXACTLY (bitwise), not 'close enough'"""
    how = rng.choice(["rel", "ulp", "trace", "abs"])
    if isinstance(x, np.ndarray):
        y = np.array(x, dtype=float, copy=True)
        if y.size == 0:
            return None
        idx = [rng.randrange(y.size) for _ in range(rng.randint(1, min(3, y.size)))]
        for i in idx:
            y.flat[i] = perturb(rng, float(y.flat[i]))
        return y if y.tobytes() != np.asarray(x, dtype=float).tobytes() else None
    if x != x or abs(x) == float("inf"):
        return 0.0
    if how == "ulp":
        return float(np.nextafter(x, x + 1.0 if rng.random() < 0.5 else x - 1.0))
    if how == "rel" and x != 0.0:
        return x * (1.0 + rng.choice([1e-6, -3e-7, 1e-9, 2e-12]))
    if how == "trace" or x == 0.0:
        return rng.choice([1e-9, 3e-12, 5e-15]) if abs(x) >= 1e-8 or x == 0.0 else x * rng.choice([0.5, 3.0, 10.0])
    return x + rng.choice([1e-10, -1e-13])


def new_value(rng, cur):
    """a different value of a (possibly different) kind"""
    if isinstance(cur, (float, np.floating)) and not isinstance(cur, bool) and rng.random() < 0.3:
        return perturb(rng, float(cur))
    if isinstance(cur, np.ndarray) and cur.dtype.kind == "f" and cur.size and rng.random() < 0.3:
        v = perturb(rng, cur)
        if v is not None:
            return v
    if isinstance(cur, (bool, np.bool_)):
        return not cur
    if isinstance(cur, (int, np.integer)):
        return int(cur) + rng.randint(1, 3)
    if isinstance(cur, (float, np.floating)):
        return (float(cur) if cur == cur and abs(cur) < 1e300 else 0.0) + rng.choice([1.5, -0.25, 2.0])
    if isinstance(cur, np.ndarray):
        if cur.dtype.kind == "f":
            if cur.ndim == 1 and rng.random() < 0.3:
                return np.append(cur * 2.0 + 1.0, 1.0)      # a different shape
            return cur * 2.0 + 1.0
        return None
    if isinstance(cur, list):
        if all(isinstance(x, (int, float)) for x in cur):
            return list(cur) + [1.0]
        return None
    if isinstance(cur, str):
        return cur + "x"
    if isinstance(cur, dict):
        return {**cur, "U235": rng.choice([1e-3, 2.5e-2])}
    if cur is None or canon(cur) == "ND":
        return rng.choice([3.25, [1.0, 2.0], np.array([1.0, 2.0]), {"U235": 1e-3}, "txt", 7])
    return None


def do_set(ses, t, only=None, custom=False, value=_NOVALUE):
    """one plain parameter assignment on the real object + the model request"""
    rng = ses.rng
    from armi.reactor.parameters import NoDefault

    use_custom = custom or rng.random() < 0.15
    pds = [pd for pd in ses.pdefs(t) if pd.name not in ses.skipnames and (use_custom or default_setter(pd))]
    if use_custom and not custom:
        pds = [pd for pd in pds if not default_setter(pd)] or pds
    if not pds:
        return False
    kept = [pd for pd in pds if any(pd is q for ks in ses.keepstack for q in ks)]
    unset = [pd for pd in pds if ses.val(t, pd) is NoDefault]
    k = rng.random()
    pd = rng.choice(unset) if unset and k < 0.25 else rng.choice(kept) if kept and k < 0.6 else rng.choice(pds)
    if only is not None:
        pd = only
    cur = ses.val(t, pd)
    if type(cur).__name__ == "_DimensionLink" or pd.name in ses.nested_names:
        return False
    if cur is NoDefault:
        ses.ctx.count("assign a never-assigned (NoDefault) parameter")
    if value is not _NOVALUE:
        v = value
    elif rng.random() < 0.08 and cur is not NoDefault:
        v = None
    else:
        v = new_value(rng, cur)
        if v is None and cur is not None and rng.random() < 0.7:
            return False
    before = {p.name: canon(ses.val(t, p)) for p in ses.pdefs(t)}
    flags_before = {id(q): q.assigned for q in ses.pdefs(t)}
    try:
        if rng.random() < 0.5:
            t.p[pd.name] = v
        else:
            setattr(t.p, pd.name, v)
    except Exception:
        after = {p.name: canon(ses.val(t, p)) for p in ses.pdefs(t)}
        if after == before and not default_setter(pd) and not t.p.readOnly:
            # a custom setter that refused: the flags are marked, the values are not touched
            ses.log.append(f"set-refused {ses.ids[id(t)]} {pd.name}")
            ses.emit(f"setrefuse {ses.ids[id(t)]} {ses.did(pd)}", "reject " + ses.obj_line(t) + f" d{pd.assigned}")
            ses.ctx.count("custom setter refused")
            return False
        ses.skipnames.add(pd.name)
        if after != before:
            # a custom setter that changed something before refusing: outside the plain-assignment model
            ses.ctx.count("custom setter changed values before raising (session ended)")
            raise _Desync()
        return False
    after = {p.name: canon(ses.val(t, p)) for p in ses.pdefs(t)}
    side = [k for k in after if k != pd.name and after[k] != before[k]]
    if not default_setter(pd):
        # a custom setter: whatever it did to this object's values is the observed function (transformation, fan-out)
        ses.log.append(f"set {ses.ids[id(t)]} {pd.name}")
        row = ",".join(str(ses.code(ses.val(t, q))) for q in ses.pdefs(t))
        marked = ",".join(str(ses.did(q)) for q in ses.pdefs(t) if q is not pd and q.assigned != flags_before[id(q)])
        ses.emit(f"setrow {ses.ids[id(t)]} {ses.did(pd)} [{row}] [{marked}]", "ok " + ses.obj_line(t) + f" d{pd.assigned}")
        ses.ctx.count("custom setter assignment" + (" with side effects" if side else ""))
        return True
    if side:
        # a custom setter with side effects: outside the plain-assignment model; undoable only by the scope
        ses.skipnames.add(pd.name)
        ses.ctx.count("custom setter with side effects (excluded from the correspondence stream)")
        raise _Desync()
    ses.log.append(f"set {ses.ids[id(t)]} {pd.name}")
    ses.emit(f"set {ses.ids[id(t)]} {ses.did(pd)} {ses.code(ses.val(t, pd))}", "ok " + ses.obj_line(t) + f" d{pd.assigned}")
    ses.ctx.count(f"assign {type(cur).__name__}->{type(v).__name__}")
    return True


def default_setter(pd):
    """True for the plain setter (`setter=NoDefault`): it closes over the definition only; a custom setter
    (which may transform, refuse or fan out) also closes over the user function"""
    return getattr(pd._setter, "__code__", None) is not None and pd._setter.__code__.co_freevars == ("self",)


class _Desync(Exception):
    pass


class _ScopeAbort(Exception):
    """raised on purpose inside a with-block and handled by the caller: the scope is left through an exception"""


def _inner_arrays(v):
    if isinstance(v, np.ndarray) and v.dtype == object:
        return [x for x in v.flat if isinstance(x, np.ndarray)]
    if isinstance(v, (list, tuple)):
        return [x for x in v if isinstance(x, np.ndarray)]
    if isinstance(v, dict):
        return [x for x in v.values() if isinstance(x, np.ndarray)]
    return []


def is_nested(v):
    return bool(_inner_arrays(v))


def poke_value(rng, v):
    """change a mutable parameter value IN PLACE (never through the setter); True if something changed"""
    inner = [x for x in _inner_arrays(v) if x.size and x.dtype.kind == "f" and x.flags.writeable]
    if inner:
        x = rng.choice(inner)
        x.flat[rng.randrange(x.size)] += 1.0
        return True
    if isinstance(v, np.ndarray):
        if v.dtype != object and v.size and v.dtype.kind in "fi" and v.flags.writeable:
            v.flat[rng.randrange(v.size)] += 1
            return True
        return False
    if isinstance(v, list) and all(isinstance(x, (int, float)) and not isinstance(x, bool) for x in v):
        v.append(1.0)
        return True
    if isinstance(v, dict):
        ks = [k for k, x in v.items() if isinstance(x, float)]
        if ks:
            v[rng.choice(sorted(ks, key=str))] += 0.5
            return True
    return False


def do_poke(ses, t, prefer_nested=False):
    """an in-place mutation of the value held by one parameter of t (real object + model request)"""
    rng = ses.rng
    if t.p.readOnly:
        return False
    pds = [pd for pd in ses.pdefs(t) if pd.name not in ses.skipnames and default_setter(pd)
           and isinstance(ses.val(t, pd), (np.ndarray, list, dict))]
    nested = [pd for pd in pds if is_nested(ses.val(t, pd))]
    if prefer_nested and nested:
        pds = nested
    if not pds:
        return False
    pd = rng.choice(pds)
    v = ses.val(t, pd)
    # the model has one value per (object, parameter): skip values that the real objects share natively (the same
    # object held by two parameters of one tree, e.g. a class default).  Sharing between an original and its copy is
    # NOT excused -- that is what this operation is there to reveal.
    mine = {id(v)} | {id(x) for x in _inner_arrays(v)}
    if mine & ses.alias_ids:
        ses.ctx.count("poke skipped: value natively shared by several parameters")
        return False
    if not poke_value(rng, v):
        return False
    ses.log.append(f"poke {ses.ids[id(t)]} {pd.name}")
    ses.emit(f"poke {ses.ids[id(t)]} {ses.did(pd)} {ses.code(ses.val(t, pd))}", "ok " + ses.obj_line(t))
    ses.ctx.count(f"in-place mutation of a {'nested ' if is_nested(v) else ''}{type(v).__name__} value")
    return True


def seed_nested(ses, objs):
    """give some None-valued plain parameters ragged / nested payloads (before the state is mirrored)"""
    rng = ses.rng
    done = 0
    cands = [(o, pd) for o in objs for pd in ses.pdefs(o)
             if default_setter(pd) and pd.name not in ses.skipnames and ses.val(o, pd) is None]
    pin = [(o, pd) for o, pd in cands if pd.name.startswith("pinMgFluxes")]
    for o, pd in pin + rng.sample(cands, min(len(cands), 4)):
        kind = rng.choice(["ragged", "ragged", "listarr", "dictarr"])
        if kind == "ragged":
            v = np.empty(3, dtype=object)
            for i, n in enumerate((2, 3, 1)):
                v[i] = np.arange(n, dtype=float) + done
        elif kind == "listarr":
            v = [np.array([1.0, 2.0]) + done, np.array([3.0])]
        else:
            v = {"a": np.array([1.0, 2.0, 3.0]) + done, "b": np.array([4.0])}
        try:
            o.p[pd.name] = v
        except Exception:
            continue
        ses.nested_names.add(pd.name)
        done += 1
    ses.ctx.count("nested (ragged / list-of-arrays / dict-of-arrays) payloads seeded", done)
    # float arrays with trace entries (number-density like), on blocks and components
    arr = 0
    for o, pd in [(o, pd) for o, pd in cands if pd.name in ("detailedNDens", "pinNDens", "mgFlux", "adjMgFlux")
                  and pd.name not in ses.nested_names and ses.val(o, pd) is None]:
        if rng.random() < 0.7:
            try:
                o.p[pd.name] = np.array([1.2e-3, 5e-9, 0.0, 2.5e-12, 0.0234, 7e-17]) * (1 + arr)
                arr += 1
            except Exception:
                pass
    ses.ctx.count("float arrays with trace values seeded", arr)


def do_cache(ses, t):
    k = ses.rng.randint(0, 2)
    v = ses.rng.choice([1.5, "c", [1, 2]])
    m = getattr(t, "material", None)
    if m is not None and id(m) in ses.ids and ses.rng.random() < 0.8:
        m._setCache(f"k{k}", v)
        ses.log.append(f"cache material-of-{ses.ids[id(t)]} k{k}")
        ses.emit(f"mcache {ses.ids[id(m)]} {k} {ses.code(v)}", "ok " + ses.mat_line(m))
        ses.ctx.count("cache entry on a component's material")
        return
    t._setCache(f"k{k}", v)
    ses.log.append(f"cache {ses.ids[id(t)]} k{k}")
    ses.emit(f"cache {ses.ids[id(t)]} {k} {ses.code(v)}", "ok " + ses.obj_line(t))


def do_grid(ses, t):
    g = t.spatialGrid
    if g is None or type(g).__name__ not in ("HexGrid", "CartesianGrid"):
        return
    if type(g).__name__ == "HexGrid":
        g.changePitch(g.pitch * ses.rng.choice([2.0, 0.5, 1.5]))
    elif t.name == "rack" and ses.rng.random() < 0.5:
        # in-place edit of the grid's own arrays (the rack's grid shares them with nobody)
        g._offset[ses.rng.randint(0, 1)] += 0.25
        ses.ctx.count("grid offset edited in place")
    else:
        xw, yw = g.pitch
        g.changePitch(xw * ses.rng.choice([2.0, 0.5, 1.5]), yw * ses.rng.choice([2.0, 0.5, 3.0]))
    tr = ses.grid_triple(t)
    ses.log.append(f"changePitch {ses.ids[id(t)]}")
    ses.emit(f"grid {ses.ids[id(t)]} [{tr[0]},{tr[1]},{tr[2]}]", "ok " + ses.obj_line(t))


def do_api_ndens(ses, c):
    """`c.setNumberDensity(nuc, v)` / `c.updateNumberDensities({..})`: the dict held by `numberDensities` is updated IN
    PLACE and the code then marks collection and definition as assigned; replayed to the model as the observed
    function of the collection's values (setC)"""
    rng = ses.rng
    if c.p.readOnly or not getattr(c.p, "numberDensities", None):
        return False
    pd = c.p.paramDefs["numberDensities"]
    nucs = sorted(c.p.numberDensities)
    flags_before = {id(q): q.assigned for q in ses.pdefs(c)}
    cache_before = dict(c.cached)
    try:
        if rng.random() < 0.5:
            nuc = rng.choice(nucs)
            c.setNumberDensity(nuc, c.p.numberDensities[nuc] * rng.choice([0.5, 2.0, 1.0 + 1e-7]) + rng.choice([0.0, 1e-9]))
        else:
            pick = rng.sample(nucs, min(len(nucs), 2))
            c.updateNumberDensities({n: c.p.numberDensities[n] * rng.choice([0.25, 3.0]) for n in pick})
    except Exception:
        raise _Desync()
    if {k: v for k, v in c.cached.items() if str(k).startswith("k")} != {k: v for k, v in cache_before.items() if str(k).startswith("k")}:
        raise _Desync()      # the API also cleared the probe cache entries: outside this replay
    ses.log.append(f"set {ses.ids[id(c)]} numberDensities")
    row = ",".join(str(ses.code(ses.val(c, q))) for q in ses.pdefs(c))
    marked = ",".join(str(ses.did(q)) for q in ses.pdefs(c) if q is not pd and q.assigned != flags_before[id(q)])
    ses.emit(f"setrow {ses.ids[id(c)]} {ses.did(pd)} [{row}] [{marked}]", "ok " + ses.obj_line(c) + f" d{pd.assigned}")
    ses.ctx.count("number densities changed through the in-place API path")
    return True


def directed_kept_ndens(ses, allobjs):
    """the keep-set names `numberDensities`; inside the scope the component's densities change ONLY through the in-place
    API path (possibly inside a nested inner scope that keeps them too); other objects get ordinary assignments"""
    rng = ses.rng
    comps = [o for o in allobjs if hasattr(o, "material") and not o.p.readOnly and getattr(o.p, "numberDensities", None)]
    if not comps:
        return
    c = rng.choice(comps)
    pd = c.p.paramDefs["numberDensities"]
    chain, x = [], c
    while x is not None and any(x is o for o in allobjs):
        chain.append(x); x = x.parent
    others = [o for o in allobjs if o is not c]
    nested = rng.random() < 0.5

    def inner_body():
        do_api_ndens(ses, c)
        for _ in range(rng.randint(0, 2)):
            do_set(ses, rng.choice(others))

    def outer_body():
        if nested:
            if rng.random() < 0.5:
                do_api_ndens(ses, c)
            scope(ses, allobjs, 2, root=rng.choice(chain), keep=[pd], script=inner_body)
        else:
            inner_body()

    scope(ses, allobjs, 1, root=rng.choice(chain), keep=[pd], script=outer_body)
    ses.ctx.count("directed: kept numberDensities changed only through the in-place API path")


def _emit_assign(ses, t, name, compare=True):
    pd = t.p.paramDefs[name]
    ses.log.append(f"set {ses.ids[id(t)]} {name}")
    ses.emit(f"set {ses.ids[id(t)]} {ses.did(pd)} {ses.code(ses.val(t, pd))}",
             ("ok " + ses.obj_line(t) + f" d{pd.assigned}") if compare else None)


def do_axial(ses, a):
    """change a block height and rebuild the assembly's axial mesh: `b.p.height = h; a.calculateZCoords()` -- the
    assembly grid's bounds are replaced and z / zbottom / ztop of every block are assigned"""
    rng = ses.rng
    blocks = [b for b in a if type(b).__name__.endswith("Block")]
    if not blocks or a.spatialGrid is None or a.p.readOnly or any(b.p.readOnly for b in blocks):
        return False
    if not all(default_setter(blocks[0].p.paramDefs[n]) for n in ("height", "z", "zbottom", "ztop")):
        return False
    b = rng.choice(blocks)
    b.p.height = b.p.height * rng.choice([1.25, 0.5, 2.0])
    _emit_assign(ses, b, "height")
    a.calculateZCoords()
    for blk in blocks:
        # the three assignments happened inside calculateZCoords: the object is compared once all three are replayed
        for n in ("z", "zbottom", "ztop"):
            _emit_assign(ses, blk, n, compare=(n == "ztop"))
    tr = ses.grid_triple(a)
    ses.log.append(f"calculateZCoords {ses.ids[id(a)]}")
    ses.emit(f"grid {ses.ids[id(a)]} [{tr[0]},{tr[1]},{tr[2]}]", "ok " + ses.obj_line(a))
    ses.ctx.count("axial mesh rebuilt (height + calculateZCoords)")
    return True


def grid_change(ses, h):
    """one change of the grid held by h: hex / Cartesian pitch, in-place offset edit (rack), axial bounds"""
    if type(h.spatialGrid).__name__ == "AxialGrid":
        return do_axial(ses, h)
    do_grid(ses, h)
    return True


def directed_nested_grid(ses, allobjs):
    """two or three NESTED scopes over the same grid; the grid is changed BETWEEN entering the outer and the inner scope,
    again inside the inner one (and possibly after it): every exit must bring the grid (pitch / bounds / offset, child
    coordinates, block heights) back to its state at THAT scope's entry"""
    rng = ses.rng
    holders = [o for o in allobjs if o.spatialGrid is not None and not o.p.readOnly
               and type(o.spatialGrid).__name__ in ("HexGrid", "CartesianGrid", "AxialGrid")]
    if not holders:
        return
    kinds = sorted({type(o.spatialGrid).__name__ for o in holders})
    want = rng.choice(kinds)
    h = rng.choice([o for o in holders if type(o.spatialGrid).__name__ == want])
    chain, x = [], h
    while x is not None and any(x is o for o in allobjs):
        chain.append(x); x = x.parent
    levels = rng.randint(2, 3)

    def level(k):
        def inner():
            grid_change(ses, h)                       # between this scope's entry and the next one's
            if rng.random() < 0.4:
                do_set(ses, rng.choice(allobjs))
            if k > 1:
                level(k - 1)
                if rng.random() < 0.5:
                    grid_change(ses, h)               # after the inner scope closed
        scope(ses, allobjs, 1 + (levels - k), root=rng.choice(chain), keep=[] if rng.random() < 0.7 else None, script=inner)

    level(levels)
    ses.ctx.count(f"directed: nested scopes over one {want} with changes between the entries")


def body(ses, allobjs, depth, nsteps):
    rng = ses.rng
    for _ in range(nsteps):
        k = rng.random()
        if k < 0.52:
            do_set(ses, rng.choice(allobjs))
        elif k < 0.62:
            do_poke(ses, rng.choice(allobjs), prefer_nested=True)
        elif k < 0.72:
            do_cache(ses, rng.choice(allobjs))
        elif k < 0.80:
            grid_change(ses, rng.choice([o for o in allobjs if o.spatialGrid is not None]))
        elif depth < 4:
            scope(ses, allobjs, depth + 1)


def scope(ses, allobjs, depth, root=None, keep=None, script=None):
    """one retainState scope on a (random) object, with a (random) keep-set; oracle around it"""
    ctx, rng = ses.ctx, ses.rng
    root = root if root is not None else rng.choice(allobjs)
    objs = [root] + list(root.iterChildren(deep=True))
    ids = "[" + ",".join(str(ses.ids[id(o)]) for o in objs) + "]"
    mats = ses.mats_of(objs)
    mids = "[" + ",".join(str(ses.ids[id(m)]) for m in mats) + "]"
    pool = [pd for o in objs for pd in ses.pdefs(o) if pd.name not in ses.skipnames and default_setter(pd)
            and pd.name not in ses.nested_names]
    if keep is None:
        keep = []
        if rng.random() < 0.6:
            keep = list({id(pd): pd for pd in rng.sample(pool, min(len(pool), rng.randint(1, 25)))}.values())
    keepnames_by_obj = {id(o): {pd.name for pd in keep if any(pd is q for q in o.p.paramDefs)} for o in objs}
    entry = snapshot(ses, allobjs)
    log0 = len(ses.log)
    aborted = rng.random() < 0.2     # the with-block ends with an exception that the caller handles
    ses.log.append(f"enter {ses.ids[id(root)]} keep={len(keep)} depth={depth}" + (" (left by exception)" if aborted else ""))
    phase = ["enter"]
    try:
        with root.retainState(keep):
            phase[0] = "body"
            ses.emit(f"enterm {ids} {mids}", "ok " + ses.lines(objs) + " | " + ses.mlines(mats))
            for o in objs:
                if any(isinstance(k, str) and k.startswith("k") for k in o.cached):
                    ctx.fail("cache-visible-inside-scope", "the cache starts empty inside a scope", ses.case(), observed=ses.ids[id(o)])
            ses.keepstack.append(keep)
            try:
                if script is not None:
                    script()
                else:
                    body(ses, allobjs, depth, rng.randint(1, 8))
            finally:
                ses.keepstack.pop()
            inner = snapshot(ses, allobjs)
            phase[0] = "exit"
            if aborted:
                raise _ScopeAbort()
        if aborted:
            ctx.fail("retain-scope-swallows-exception", "an exception raised inside the with-block reaches the caller",
                     ses.case() | {"object": ses.ids[id(root)], "depth": depth})
    except _ScopeAbort:
        ctx.count(f"scope left through an exception (depth {depth})")
    except _Desync:
        raise
    except Exception as e:
        if phase[0] == "body":
            if ses.desync:   # an enclosing scope's exit failing while an inner failure is already propagating
                raise _Desync()
            raise
        ses.desync = True
        nestedkept = [pd.name for o in objs for pd in keep if any(pd is q for q in o.p.paramDefs) and is_nested(ses.val(o, pd))]
        ctx.fail("retain-kept-nested-array-raises" if (phase[0] == "exit" and nestedkept and isinstance(e, ValueError))
                 else f"retain-scope-{phase[0]}-raises", "a retain-state scope can be opened and closed at any nesting depth",
                 ses.case() | {"object": ses.ids[id(root)], "type": type(root).__name__, "depth": depth, "keep": len(keep)},
                 observed=repr(e)[:200])
        raise _Desync()
    ses.log.append(f"exit {ses.ids[id(root)]}")
    kid = "[" + ",".join(str(ses.did(pd)) for pd in keep) + "]"
    ses.emit(f"exitm {ids} {mids} {kid}", "ok " + ses.lines(objs) + " | " + ses.mlines(mats))
    after = snapshot(ses, allobjs)
    ctx.count(f"scope depth {depth}")
    inscope = {id(o) for o in objs}
    for o in allobjs:
        e, i, a = entry[id(o)], inner[id(o)], after[id(o)]
        for name in a:
            if id(o) in inscope:
                kept = name in keepnames_by_obj[id(o)]
                want = i[name] if kept else e[name]
                if kept and a[name] == e[name] and f"poke {ses.ids[id(o)]} {name}" in ses.log[log0:] \
                        and f"set {ses.ids[id(o)]} {name}" not in ses.log[log0:]:
                    # a kept parameter that was only mutated IN PLACE (never assigned through its setter) inside the
                    # scope: the keep-set speaks about assignments; restoring it is acceptable (the model pins which)
                    continue
                if a[name] != want:
                    key = ("retain-kept-parameter-lost" if kept else
                           "retain-cache-leaks" if name in ("<cache>", "<matcache>") else
                           "retain-grid-not-restored" if name in ("<grid>", "<childcoords>") else "retain-parameter-not-restored")
                    ctx.fail(key, "after the scope a kept parameter has its inner value, everything else its entry value",
                             ses.case() | {"object": ses.ids[id(o)], "type": type(o).__name__, "param": name, "depth": depth},
                             observed=a[name][:80] if a[name] else a[name], expected=want[:80] if want else want)
            elif a[name] != i[name]:
                ctx.fail("retain-touches-object-outside-scope", "leaving a scope changes nothing outside its subtree",
                         ses.case() | {"object": ses.ids[id(o)], "param": name})


def directed_nested_keep(ses, allobjs):
    """outer scope keeps a parameter that is assigned BEFORE an inner scope opens (on the same object, an ancestor
    or a descendant); nothing is assigned on that object after the inner scope closes; the outer exit must keep it"""
    from armi.reactor.parameters import NoDefault

    rng = ses.rng
    for _ in range(20):
        t = rng.choice(allobjs)
        pds = [pd for pd in ses.pdefs(t) if pd.name not in ses.skipnames and default_setter(pd)
               and pd.name not in ses.nested_names and isinstance(ses.val(t, pd), (int, float, str, type(None))) and ses.val(t, pd) is not NoDefault]
        if pds:
            break
    else:
        return
    pd = rng.choice(pds)
    chain = []
    x = t
    while x is not None and any(x is o for o in allobjs):
        chain.append(x); x = x.parent
    outer = rng.choice(chain)
    desc = list(t.iterChildren(deep=True))
    inner_roots = [t, rng.choice(chain)] + ([rng.choice(desc)] if desc else [])
    levels = rng.randint(1, 3)

    def nest(k):
        def inner_body():
            others = [o for o in allobjs if o is not t]
            for _ in range(rng.randint(0, 3)):
                do_set(ses, rng.choice(others))
            if k > 1:
                nest(k - 1)
        scope(ses, allobjs, 2 + (levels - k), root=rng.choice(inner_roots), keep=[] if rng.random() < 0.6 else None, script=inner_body)

    def outer_body():
        if not do_set(ses, t, only=pd):
            return
        nest(levels)

    more = [q for q in rng.sample(pds, min(len(pds), 3))]
    scope(ses, allobjs, 1, root=outer, keep=[pd] + [q for q in more if q is not pd], script=outer_body)
    ses.ctx.count("directed: kept parameter assigned before an inner scope")


def directed_kept_perturbation(ses, allobjs):
    """a KEPT float / float-array parameter is assigned a value that differs from the entry value only slightly (same
    shape; relative change < 1e-5, one ulp, trace entries) -- possibly with an inner scope in between; after the
    scope it must hold exactly the in-scope value"""
    rng = ses.rng
    cands = []
    for o in allobjs:
        for pd in ses.pdefs(o):
            v = ses.val(o, pd)
            if pd.name in ses.skipnames or pd.name in ses.nested_names or not default_setter(pd):
                continue
            if (isinstance(v, np.ndarray) and v.dtype.kind == "f" and v.size) or \
                    (isinstance(v, (float, np.floating)) and v == v and abs(v) < 1e300):
                cands.append((o, pd, isinstance(v, np.ndarray)))
    arrays = [c for c in cands if c[2]]
    if not cands:
        return
    t, pd, _ = rng.choice(arrays) if arrays and rng.random() < 0.7 else rng.choice(cands)
    chain, x = [], t
    while x is not None and any(x is o for o in allobjs):
        chain.append(x); x = x.parent
    kept = rng.random() < 0.75

    def outer_body():
        v = perturb(rng, ses.val(t, pd) if isinstance(ses.val(t, pd), np.ndarray) else float(ses.val(t, pd)))
        if v is None or not do_set(ses, t, only=pd, value=v):
            return
        if rng.random() < 0.4:
            scope(ses, allobjs, 2, root=rng.choice(chain), keep=[], script=lambda: do_set(ses, rng.choice(allobjs)))
        if rng.random() < 0.3:
            v2 = perturb(rng, ses.val(t, pd) if isinstance(ses.val(t, pd), np.ndarray) else float(ses.val(t, pd)))
            if v2 is not None:
                do_set(ses, t, only=pd, value=v2)

    scope(ses, allobjs, 1, root=rng.choice(chain), keep=[pd] if kept else [], script=outer_body)
    ses.ctx.count("directed: slightly perturbed " + ("kept" if kept else "non-kept") + " float/array parameter")


def do_copies(ses, allobjs, root=None):
    """deepcopy / pickle of a random subtree: equal values, fresh (deepcopy) or kept (pickle) serials, independence"""
    from armi.reactor.parameters import parameterCollections as pc

    ctx, rng = ses.ctx, ses.rng
    # (a bare Component is not a copy root here: deep-copying it follows its dimension links and silently copies
    # the linked sibling components as well, which the model does not describe)
    if root is None:
        root = rng.choice([o for o in allobjs if type(o).__name__ != "Reactor" and not hasattr(o, "material")] or allobjs)
    src = preorder(root)
    how = rng.choice(["deepcopy", "pickle"])
    live = {o.p.serialNum for o in ses.objs if hasattr(o, "p")}
    before_counter = pc.GLOBAL_SERIAL_NUM
    with common.quiet():
        cp = copy.deepcopy(root) if how == "deepcopy" else pickle.loads(pickle.dumps(root))
    new = preorder(cp)
    case = ses.case() | {"copied": ses.ids[id(root)], "how": how}
    if len(new) != len(src):
        ctx.fail(f"{how}-shape-differs", "a copy has the same objects", case)
        raise _Desync()
    for o in new:
        ses.register(o)
    ses.scan_alias(new)
    srcids = "[" + ",".join(str(ses.ids[id(o)]) for o in src) + "]"
    # serial numbers are compared as a multiset (the order collections are copied in is not part of the property)
    line = ses.lines(new)
    serials = sorted(o.p.serialNum for o in new)
    ses.log.append(f"{how} {ses.ids[id(root)]}")
    ses.emit(f"{how} {srcids}", "ok " + line)
    ses.batch["mask_serial"].add(len(ses.batch["req"]) - 1)
    ses.batch["serial_sets"][len(ses.batch["req"]) - 1] = serials
    # which copy got which of the fresh serials is not part of the property: align the model's assignment
    for o in new:
        ses.batch["req"].append(f"serial {ses.ids[id(o)]} {o.p.serialNum}")
        ses.batch["impl"].append(None); ses.batch["cases"].append(ses.case())
    if ses.register_mats(new):
        ses.sync_counter()
    # oracle
    for a, b in zip(src, new):
        sa = {pd.name: canon(ses.val(a, pd)) for pd in a.p.paramDefs if pd.name != "serialNum"}
        sb = {pd.name: canon(ses.val(b, pd)) for pd in b.p.paramDefs if pd.name != "serialNum"}
        if sa != sb:
            bad = [k for k in sa if sa[k] != sb.get(k)]
            ctx.fail(f"{how}-parameter-values-differ", "a copy carries parameter values equal to the original", case | {"params": bad[:5]})
        if a.p is b.p:
            ctx.fail(f"{how}-shares-collection", "copies own their parameter collection", case)
    ns = [o.p.serialNum for o in new]
    if how == "deepcopy":
        if len(set(ns)) != len(ns) or set(ns) & live or min(ns) <= before_counter:
            ctx.fail("deepcopy-serial-not-fresh", "a deep copy receives fresh serial numbers, never shared with a live object",
                     case, observed=sorted(ns)[:10], expected=f"> {before_counter}, distinct")
    else:
        if ns != [o.p.serialNum for o in src]:
            ctx.fail("pickle-serial-changed", "a pickle round trip preserves serial numbers (by design)", case)
    # independence: assignments on one side are invisible on the other
    both = src + new
    nest_idx = [i for i, o in enumerate(src) if any(is_nested(ses.val(o, pd)) for pd in ses.pdefs(o))]
    for _ in range(rng.randint(3, 8)):
        k = rng.choice(nest_idx) if nest_idx and rng.random() < 0.6 else rng.randrange(len(src))
        side, other = (src[k], new[k]) if rng.random() < 0.5 else (new[k], src[k])
        so = {pd.name: canon(ses.val(other, pd)) for pd in other.p.paramDefs}
        if rng.random() < 0.6:
            if do_poke(ses, side, prefer_nested=True):
                if {pd.name: canon(ses.val(other, pd)) for pd in other.p.paramDefs} != so:
                    ctx.fail(f"{how}-shares-nested-value", "an in-place change of a (nested) parameter value of the original or "
                             "the copy does not show in the other", case | {"last": ses.log[-1]})
                ses.emit(f"dump [{ses.ids[id(other)]}]", ses.obj_line(other))
            continue
        if do_set(ses, side):
            if {pd.name: canon(ses.val(other, pd)) for pd in other.p.paramDefs} != so:
                ctx.fail(f"{how}-not-independent", "a later change to one of original/copy does not show in the other", case)
            ses.emit(f"dump [{ses.ids[id(other)]}]", ses.obj_line(other))
    ctx.count(f"copy point {how}")
    return new


def value_kind(v):
    from armi.reactor.parameters import NoDefault

    if v is NoDefault:
        return "unset"
    if v is None:
        return "none"
    if isinstance(v, (bool, np.bool_, int, np.integer, float, np.floating)):
        return "scalar"
    if isinstance(v, (np.ndarray, list, tuple)):
        return "array"
    if isinstance(v, dict):
        return "dict"
    if isinstance(v, str):
        return "str"
    return "other"


def where_of(o, r):
    """which reactor-level system holds the object (naive parent walk)"""
    x, top = o, None
    while x is not None and x is not r:
        top, x = x, x.parent
    return "reactor" if top is None else type(top).__name__


def readonly_oracle(ctx, rng, r, case, attempt_hook=None, per_object=3):
    """The read-only clause on a reactor that has just been made read-only: EVERY object reachable by a naive walk of
    the child lists from the reactor (all systems: core, spent fuel pool, other ex-core structures) refuses assignments
    of several parameter kinds through every assignment route, and no value changes."""
    from armi.reactor.parameters import NoDefault

    objs = preorder(r)
    snap = {id(o): {pd.name: canon(getattr(o.p, pd.fieldName, NoDefault)) for pd in o.p.paramDefs} for o in objs}
    refused = 0
    for t in objs:
        where = where_of(t, r)
        if not t.p.readOnly:
            ctx.fail("readonly-object-left-writable", "after makeParametersReadOnly every object of the reactor (all systems) is read-only",
                     case | {"type": type(t).__name__, "system": where, "name": getattr(t, "name", None)})
        pds = [pd for pd in t.p.paramDefs if pd.name != "serialNum"]
        bykind = {}
        for pd in pds:
            bykind.setdefault(value_kind(getattr(t.p, pd.fieldName, NoDefault)), []).append(pd)
        kinds = rng.sample(sorted(bykind), min(len(bykind), per_object))
        tries = [(k, rng.choice(bykind[k])) for k in kinds] + [("unlock", None)]
        for kind, pd in tries:
            how = "unlock" if pd is None else rng.choice(["item", "attr", "update"])
            if pd is not None:
                cur = getattr(t.p, pd.fieldName, NoDefault)
                v = new_value(rng, cur if type(cur).__name__ != "_DimensionLink" else 1.0)
                if v is None and cur is None:
                    v = 1.25
            try:
                if how == "item":
                    t.p[pd.name] = v
                elif how == "attr":
                    setattr(t.p, pd.name, v)
                elif how == "update":
                    t.p.update({pd.name: v})
                else:
                    t.p.readOnly = False
                raised = False
            except Exception:
                raised = True
            ctx.count(f"read-only attempt: {where} / {kind} via {how}: {'refused' if raised else 'ACCEPTED'}")
            if not raised:
                ctx.fail("readonly-assignment-accepted", "after makeParametersReadOnly every parameter assignment is refused",
                         case | {"type": type(t).__name__, "system": where, "param": None if pd is None else pd.name,
                                 "value_kind": kind, "how": how})
            else:
                refused += 1
            if attempt_hook is not None and (how in ("item", "attr") or pd is None):
                attempt_hook(t, pd, None if pd is None else v, raised)
    # in-place API routes on components (every system)
    comps = [o for o in objs if hasattr(o, "setNumberDensity") and hasattr(o, "material") and len(o.p.numberDensities or {})]
    bysys = {}
    for c in comps:
        bysys.setdefault(where_of(c, r), []).append(c)
    for where, cs in sorted(bysys.items()):
        for c in rng.sample(cs, min(len(cs), 3)):
            nuc = sorted(c.p.numberDensities)[0]
            old = c.getNumberDensity(nuc)
            for call in ("setNumberDensity", "updateNumberDensities"):
                try:
                    if call == "setNumberDensity":
                        c.setNumberDensity(nuc, old * 2.0 + 1e-3)
                    else:
                        c.updateNumberDensities({nuc: old * 3.0 + 1e-3})
                    raised = False
                except Exception:
                    raised = True
                ctx.count(f"read-only attempt: {where} / {call}: {'refused' if raised else 'ACCEPTED'}")
                if c.getNumberDensity(nuc) != old:
                    ctx.fail("readonly-setNumberDensity-changes-value", "no value changes in a read-only reactor",
                             case | {"object": type(c).__name__, "system": where, "call": f"{call}({nuc!r}, ...)", "raised": raised},
                             observed=c.getNumberDensity(nuc), expected=old)
                    c.p.numberDensities[nuc] = old      # (in place: keep the snapshot comparison below about other things)
    for o in objs:
        now = {pd.name: canon(getattr(o.p, pd.fieldName, NoDefault)) for pd in o.p.paramDefs}
        if now != snap[id(o)]:
            bad = [k for k in now if now[k] != snap[id(o)].get(k)]
            ctx.fail("readonly-value-changed", "no value changes in a read-only reactor",
                     case | {"type": type(o).__name__, "system": where_of(o, r), "params": bad[:5]})
    ctx.count("read-only assignments refused", refused)
    return objs


def do_readonly(ses, r, allobjs):
    from armi.reactor import reactorParameters

    ctx, rng = ses.ctx, ses.rng
    reactorParameters.makeParametersReadOnly(r)
    objs = preorder(r)
    ses.log.append("makeParametersReadOnly")
    ses.emit(f"readonly [{','.join(str(ses.ids[id(o)]) for o in objs)}]", "ok " + ses.lines(objs))
    # the model's walk over the child lists: the same objects must come out read-only
    kids = ";".join(f"{ses.ids[id(o)]}:" + ",".join(str(ses.ids[id(c)]) for c in o) for o in objs if len(o))
    ses.emit(f"readonlytree {ses.ids[id(r)]} {kids or '-'}", "ok " + " ".join(
        f"{ses.ids[id(o)]}{'T' if o.p.readOnly else 'F'}" for o in sorted(objs, key=lambda o: ses.ids[id(o)])))

    def hook(t, pd, v, raised):
        if ses.mat_rng.random() < 0.25:
            return      # (the oracle judges every attempt; the model is asked about a sample of them)
        if pd is None:
            ses.emit(f"unlock {ses.ids[id(t)]}", ("reject " if raised else "ok ") + ses.obj_line(t))
        else:
            ses.emit(f"set {ses.ids[id(t)]} {ses.did(pd)} {ses.code(v)}",
                     ("reject " if raised else "ok ") + ses.obj_line(t) + f" d{pd.assigned}")

    readonly_oracle(ctx, rng, r, ses.case(), attempt_hook=hook, per_object=2)
    # a scope cannot be opened either (the back-up itself is an assignment) -- on the reactor or on any system / ex-core object
    for root in [r] + rng.sample(objs, min(len(objs), 3)):
        try:
            with root.retainState():
                pass
            opened = True
        except RuntimeError:
            opened = False
        if not opened:
            sub = [root] + list(root.iterChildren(deep=True))
            ses.emit(f"enter [{','.join(str(ses.ids[id(o)]) for o in sub)}]", "reject")


def readonly_stream(ctx, seq_seed, route=None):
    """Oracle only: a reactor whose ex-core systems HOLD assemblies is made read-only -- by makeParametersReadOnly or by
    a database round trip through Database.loadReadOnly -- and every object of every system is probed."""
    from armi.bookkeeping.db import Database
    from armi.reactor import reactorParameters

    rng = random.Random(seq_seed)
    route = route or rng.choice(["makeParametersReadOnly", "loadReadOnly"])
    case = {"seq_seed": seq_seed, "stream": "readonly", "route": route}
    with common.scratch_dir(), common.quiet():
        r = copy.deepcopy(fixture())
        for k in range(rng.randint(0, 1)):
            a2 = copy.deepcopy(r.core[0])
            a2.makeUnique()
            r.core.add(a2, r.core.spatialGrid[k + 1, 0, 0])
        held = populate_excore(ctx, rng, r)
        if route == "loadReadOnly":
            for c in list(r):
                if type(c).__name__ == "ExcoreStructure":
                    r.remove(c)          # (only the blueprint-defined systems are part of a database)
                    r.excore.pop("ivs", None)
            db = Database("readonly.h5", "w")
            db.open()
            db.writeInputsToDB(_FIX["o"].cs)
            db.writeToDB(r)
            db.close(True)
            with Database("readonly.h5", "r") as d:
                r = d.loadReadOnly(int(r.p.cycle), int(r.p.timeNode))
        else:
            reactorParameters.makeParametersReadOnly(r)
        nheld = sum(1 for o in preorder(r) if where_of(o, r) != "Core" and o is not r)
        ctx.count(f"read-only stream via {route}")
        ctx.count("read-only stream: objects held outside the core", nheld)
        readonly_oracle(ctx, rng, r, case | {"objects_outside_core": nheld}, per_object=3)
    ctx.case(("readonly", seq_seed), nontrivial=nheld > 1)


def _api_stream(ctx, seq_seed):
    """Oracle only: API-level mutators inside (nested) scopes; everything must come back."""
    rng = random.Random(seq_seed)
    with common.quiet():
        r = copy.deepcopy(fixture())
    ses = Session(ctx, seq_seed, {"req": [], "impl": [], "cases": [], "mask_serial": set(), "serial_sets": {}})
    objs = preorder(r) + preorder(make_rack(rng))
    for o in objs:
        ses.register(o)
    comps = [o for o in objs if hasattr(o, "setTemperature") and hasattr(o, "material")]
    blocks = [o for o in objs if type(o).__name__.endswith("Block")]
    assems = [o for o in objs if type(o).__name__.endswith("Assembly")]

    def mutate(k=None):
        k = k or rng.choice(["ndens", "ndens", "temp", "height", "pitch", "param", "ndensfactor", "cache"])
        ctx.count(f"api mutation {k}")
        try:
            if k == "ndens":
                c = rng.choice(comps)
                nucs = list(c.getNuclides()) or ["U235"]
                c.setNumberDensity(rng.choice(nucs), rng.choice([1e-3, 2.5e-2, 0.0]))
            elif k == "ndensfactor":
                rng.choice(comps + blocks).changeNDensByFactor(rng.choice([0.5, 2.0]))
            elif k == "temp":
                c = rng.choice([c for c in comps if type(c).__name__ != "DerivedShape"])
                c.setTemperature(c.temperatureInC + rng.choice([25.0, -10.0, 100.0]))
            elif k == "height":
                b = rng.choice(blocks)
                b.setHeight(b.getHeight() * rng.choice([1.25, 0.5]))
                b.parent.calculateZCoords()
            elif k == "pitch":
                o = rng.choice([o for o in objs if o.spatialGrid is not None and type(o.spatialGrid).__name__ in ("HexGrid", "CartesianGrid")])
                if type(o.spatialGrid).__name__ == "HexGrid":
                    o.spatialGrid.changePitch(o.spatialGrid.pitch * rng.choice([2.0, 3.0]))
                else:
                    xw, yw = o.spatialGrid.pitch
                    o.spatialGrid.changePitch(xw * rng.choice([2.0, 3.0]), yw * rng.choice([0.5, 3.0]))
            elif k == "cache":
                o = rng.choice(objs)
                o._setCache("k0", rng.random())
                if getattr(o, "material", None) is not None:
                    o.material._setCache("k1", 4.0)
            else:
                do_set(ses, rng.choice(objs), custom=True)
        except _Desync:
            pass
        except Exception as e:  # an API refusing its input is not a retain-state matter
            ctx.count(f"api mutation raised {type(e).__name__}")

    def nest(depth):
        root = rng.choice(objs)
        sub = {id(o) for o in [root] + list(root.iterChildren(deep=True))}
        entry = snapshot(ses, objs)
        phase = ["enter"]
        aborted = rng.random() < 0.2
        try:
            with root.retainState():
                phase[0] = "body"
                for _ in range(rng.randint(1, 5)):
                    if depth < 4 and rng.random() < 0.3:
                        if rng.random() < 0.6:
                            mutate(rng.choice(["pitch", "height"]))   # between this scope's entry and the inner one's
                        nest(depth + 1)
                    else:
                        mutate()
                inner = snapshot(ses, objs)
                phase[0] = "exit"
                if aborted:
                    raise _ScopeAbort()
            if aborted:
                ctx.fail("retain-scope-swallows-exception", "an exception raised inside the with-block reaches the caller",
                         {"seq_seed": seq_seed, "stream": "api", "depth": depth})
        except _ScopeAbort:
            ctx.count(f"api scope left through an exception (depth {depth})")
        except _Desync:
            raise
        except Exception as e:
            if phase[0] == "body":
                if ses.desync:
                    raise _Desync()
                raise
            ses.desync = True
            ctx.fail(f"retain-scope-{phase[0]}-raises", "a retain-state scope can be opened and closed at any nesting depth",
                     {"seq_seed": seq_seed, "stream": "api", "object": ses.ids[id(root)], "type": type(root).__name__, "depth": depth},
                     observed=repr(e)[:200])
            raise _Desync()
        after = snapshot(ses, objs)
        for o in objs:
            want = entry[id(o)] if id(o) in sub else inner[id(o)]
            if after[id(o)] != want:
                bad = [k for k in want if want[k] != after[id(o)][k]]
                key = "retain-api-state-not-restored" if id(o) in sub else "retain-touches-object-outside-scope"
                if bad and set(bad) <= {"<grid>", "<childcoords>"}:
                    key = "retain-grid-not-restored"
                if bad == ["<matcache>"] and o is root:
                    # StateRetainer iterates (root,) + iterChildrenWithMaterials(): the ROOT's own material is skipped
                    key = "retain-root-material-cache-leaks"
                ctx.fail(key, "arbitrary changes below the scope's object (number densities, temperatures, heights, grid pitch/"
                         "bounds) are undone at scope exit", {"seq_seed": seq_seed, "stream": "api", "object": ses.ids[id(o)],
                                                              "type": type(o).__name__, "params": bad[:6], "depth": depth})
        ctx.count(f"api scope depth {depth}")

    def kept_ndens():
        """keep-set = {numberDensities}; the densities change only through setNumberDensity / updateNumberDensities"""
        cs = [c for c in comps if getattr(c.p, "numberDensities", None)]
        if not cs:
            return
        c = rng.choice(cs)
        pd = c.p.paramDefs["numberDensities"]
        chain, x = [], c
        while x is not None and any(x is o for o in objs):
            chain.append(x); x = x.parent
        nuc = rng.choice(sorted(c.p.numberDensities))
        entry = snapshot(ses, objs)
        inner_scope = rng.random() < 0.5
        left_by_exception = rng.random() < 0.2
        try:
            with rng.choice(chain).retainState([pd]):
                if inner_scope:
                    with rng.choice(chain).retainState([pd]):
                        c.setNumberDensity(nuc, c.getNumberDensity(nuc) * 2.0 + 1e-4)
                    mid = canon(c.p.numberDensities)
                    if rng.random() < 0.5:
                        c.updateNumberDensities({nuc: c.getNumberDensity(nuc) * 0.5})
                else:
                    c.updateNumberDensities({nuc: c.getNumberDensity(nuc) * 3.0 + 1e-5})
                    mid = None
                rng.choice([o for o in objs if o is not c]).p.flags = rng.choice(objs).p.flags
                want = canon(c.p.numberDensities)
                inner = snapshot(ses, objs)
                if left_by_exception:
                    raise _ScopeAbort()
        except _ScopeAbort:
            pass
        except Exception as e:   # the density API refusing (geometry made inconsistent by earlier mutations) is not a retain-state matter
            ctx.count(f"api kept-ndens: API raised {type(e).__name__}")
            return
        case = {"seq_seed": seq_seed, "stream": "api", "object": ses.ids[id(c)], "type": type(c).__name__, "nuclide": nuc,
                "keep": ["numberDensities"], "inner_scope": inner_scope, "left_by_exception": left_by_exception}
        if mid is not None and entry[id(c)]["numberDensities"] == mid:
            ctx.fail("retain-kept-number-densities-lost", "a kept numberDensities changed through setNumberDensity inside an "
                     "inner scope holds the new densities when that inner scope ends", case | {"at": "inner exit"})
        if canon(c.p.numberDensities) != want:
            ctx.fail("retain-kept-number-densities-lost", "a kept numberDensities changed only through setNumberDensity / "
                     "updateNumberDensities holds the in-scope densities after the scope", case,
                     observed=canon(c.p.numberDensities)[:120], expected=want[:120])
        ctx.count("api: kept numberDensities via the in-place path")

    with common.quiet():
        try:
            for _ in range(4):
                nest(1)
            for _ in range(2):
                kept_ndens()
        except _Desync:
            ctx.count("api session ended early")
    ctx.case(("api", seq_seed))


def _run_session(ctx, seq_seed, batch, nscopes):
    ses = Session(ctx, seq_seed, batch)
    rng = ses.rng
    with common.quiet():
        r = copy.deepcopy(fixture())
        # generated variety: extra assemblies in the core
        for k in range(rng.randint(0, 2)):
            a2 = copy.deepcopy(r.core[0])
            a2.makeUnique()
            r.core.add(a2, r.core.spatialGrid[k + 1, 0, 0])
        if rng.random() < 0.7:
            populate_excore(ctx, rng, r)
    seed_nested(ses, preorder(r))
    ses.mirror(r)
    rack = make_rack(rng)
    ses.mirror(rack)
    allobjs = [o for o in ses.objs if hasattr(o, "p")]
    try:
        with common.quiet():
            for _ in range(nscopes):
                k = rng.random()
                if k < 0.12:
                    directed_kept_perturbation(ses, allobjs)
                elif k < 0.24:
                    directed_nested_keep(ses, allobjs)
                elif k < 0.40:
                    directed_nested_grid(ses, allobjs)
                elif k < 0.50:
                    directed_kept_ndens(ses, allobjs)
                elif k < 0.7:
                    scope(ses, allobjs, 1)
                elif k < 0.85:
                    allobjs = allobjs + do_copies(ses, allobjs)
                else:
                    body(ses, allobjs, 4, rng.randint(1, 4))
            # directed: copy the owner of a ragged / nested payload (block, or its assembly) and mutate it in place
            owners = [o for o in allobjs if not hasattr(o, "material") and type(o).__name__ != "Reactor"
                      and any(is_nested(ses.val(o, pd)) for pd in ses.pdefs(o))]
            if owners and len(allobjs) < 120:
                o = rng.choice(owners)
                up = o.parent if (o.parent is not None and rng.random() < 0.5 and type(o.parent).__name__ != "Reactor"
                                  and any(o.parent is x for x in allobjs)) else o
                allobjs = allobjs + do_copies(ses, allobjs, root=up)
            ses.emit(f"dump [{','.join(str(ses.ids[id(o)]) for o in allobjs)}]", ses.lines(allobjs))
            ses.ddump()
            if rng.random() < 0.6:
                do_readonly(ses, r, allobjs)
    except _Desync:
        ctx.count("session ended early (custom setter side effect)")
    # serial uniqueness over everything alive in this session (pickled clones keep their serial by design)
    ctx.case(("session", seq_seed), sample={"seq_seed": seq_seed, "ops": ses.log[:10]})
    ctx.traces += 1
    return ses


def _guard(ctx, what, case, fn):
    """no exception of a real-code call (building, copying, scoping, reading) may escape: it becomes a reported
    failing input with the place it came from"""
    import traceback

    try:
        return fn()
    except common.Infra:
        raise
    except Exception as e:
        tb = traceback.extract_tb(e.__traceback__)
        inarmi = [f"{os.path.basename(f.filename)}:{f.lineno} {f.name}" for f in tb if "/armi/" in f.filename]
        incheck = [f"{os.path.basename(f.filename)}:{f.lineno} {f.name}" for f in tb if "/harness/" in f.filename]
        ctx.fail(f"{what}-raised-unexpected-exception",
                 "building, copying, scoping and reading the reactor through the public API work (no step of the check's "
                 "scenario raises)", case, observed={"exception": repr(e)[:200], "armi_frames": inarmi[-4:], "check_frames": incheck[-3:]})
        return None


def run_session(ctx, seq_seed, batch, nscopes):
    return _guard(ctx, "retain-session", {"seq_seed": seq_seed}, lambda: _run_session(ctx, seq_seed, batch, nscopes))


def api_stream(ctx, seq_seed):
    return _guard(ctx, "retain-api-session", {"seq_seed": seq_seed, "stream": "api"}, lambda: _api_stream(ctx, seq_seed))


def excluded_points(ctx):
    """Inputs outside the modelled domain, judged by the oracle alone."""
    with common.quiet():
        r = copy.deepcopy(fixture())
    b = r.core[0][0]
    pd = b.p.paramDefs["mgFlux"]
    b.p.mgFlux = np.array([1.0, 2.0, 3.0])
    other = b.p.power
    try:
        with b.retainState([pd]):
            b.p.mgFlux = np.array([1.0, 2.0])
            b.p.power = 123.0
        ok = canon(b.p.mgFlux) == canon(np.array([1.0, 2.0])) and canon(b.p.power) == canon(other)
        err = None
    except Exception as e:
        ok, err = False, repr(e)[:120]
    if not ok:
        ctx.fail("retain-kept-array-shape-change-raises",
                 "a kept parameter assigned inside the scope retains its new value and the scope ends normally",
                 {"object": "block", "param": "mgFlux", "entry": "array shape (3,)", "inside": "array shape (2,)", "keep": ["mgFlux"]},
                 observed=err or "wrong values after the scope", expected="mgFlux == [1,2], power restored")
    # in-place edit of the grid's arrays inside a scope (StructuredGrid.backUp keeps references, not copies)
    rack = make_rack(random.Random(5))
    g = rack.spatialGrid
    before = (canon(g._unitSteps), canon(g._bounds), canon(g._offset))
    with rack.retainState():
        g._offset[0] = g._offset[0] + 7.0
    if (canon(g._unitSteps), canon(g._bounds), canon(g._offset)) != before:
        ctx.fail("retain-grid-inplace-edit-leaks", "changes to grid pitch/bounds/offset inside a scope are undone",
                 {"grid": "CartesianGrid.fromRectangle(.., isOffset=True)", "inside": "grid._offset[0] += 7.0 (in place)"},
                 observed=str(g._offset), expected="offset as at scope entry")
    # a KEPT parameter holding a ragged / nested payload (must stay the LAST point: the raising exit leaves the
    # process-global definition back-up chains unbalanced)
    with common.quiet():
        r2 = copy.deepcopy(fixture())
    b2 = r2.core[0][0]
    rag = np.empty(2, dtype=object)
    rag[0], rag[1] = np.array([1.0, 2.0]), np.array([3.0, 4.0, 5.0])
    b2.p.pinMgFluxes = rag
    p0 = b2.p.power
    try:
        with b2.retainState([b2.p.paramDefs["pinMgFluxes"]]):
            b2.p.power = 5.0
        ok, err = canon(b2.p.power) == canon(p0), None
    except Exception as e:
        ok, err = False, repr(e)[:120]
        # the aborted exit never reached the (process-global, class-level) definitions: pop their dangling frame so
        # that later sessions of this process (directed search) start from balanced chains
        for pd in {id(q): q for o in [b2] + list(b2.iterChildren(deep=True)) for q in o.p.paramDefs}.values():
            if pd._backup is not None:
                pd._backup, pd.assigned = pd._backup
    if not ok:
        ctx.fail("retain-kept-nested-array-raises", "a scope with a keep-set ends normally and restores the other parameters",
                 {"object": "block", "keep": ["pinMgFluxes"], "pinMgFluxes": "ragged object array (2 pins: 2 and 3 entries)",
                  "inside": "b.p.power = 5.0"}, observed=err or "power not restored", expected="scope exit without error")
    ctx.count("excluded points run", 3)


def run(ctx):
    batch = {"req": [], "impl": [], "cases": [], "mask_serial": set(), "serial_sets": {}}
    if _guard(ctx, "fixture-reactor", {"fixture": "smallestTestReactor"}, lambda: fixture() or True) is None:
        return
    nses = ctx.pick(14, 300)
    for _ in range(nses):
        run_session(ctx, ctx.rng.randrange(1 << 40), batch, ctx.rng.randint(1, ctx.pick(5, 6)))
    for _ in range(ctx.pick(15, 200)):
        api_stream(ctx, ctx.rng.randrange(1 << 40))
    for k in range(ctx.pick(6, 60)):
        sd = ctx.rng.randrange(1 << 40)
        route = ["makeParametersReadOnly", "loadReadOnly"][k % 2]
        _guard(ctx, "readonly-session", {"seq_seed": sd, "stream": "readonly", "route": route}, lambda: readonly_stream(ctx, sd, route))
    # last: the raising scope exit leaves the (process-global) definition back-up chains unbalanced
    _guard(ctx, "excluded-points", {"stream": "excluded"}, lambda: excluded_points(ctx))
    model = lean_run("Params", batch["req"])
    rows = []
    import re

    for k, (c, m, i) in enumerate(zip(batch["cases"], model, batch["impl"])):
        if i is None:
            continue
        if k in batch["mask_serial"]:
            ms = sorted(int(x) for x in re.findall(r" s(\d+) ", m + " "))
            m2 = re.sub(r" s\d+ ", " s* ", m + " ") + f"serials={ms}"
            i2 = re.sub(r" s\d+ ", " s* ", i + " ") + f"serials={batch['serial_sets'][k]}"
            rows.append((c, m2, i2))
        else:
            rows.append((c, m, i))
    # representation-dependent depth fields the harness could not read ('?') are left out on both sides
    masked = []
    for c, m, i in rows:
        for tag in ("b", "cb", "gb"):
            if f" {tag}? " in i + " ":
                i = re.sub(rf" {tag}\? ", f" {tag}* ", i + " ").rstrip()
                m = re.sub(rf" {tag}\d+ ", f" {tag}* ", m + " ").rstrip()
                i = re.sub(rf" {tag}\d+ ", f" {tag}* ", i + " ").rstrip()
        masked.append((c, m, i))
    rows = masked
    ctx.compare("Model/Params.lean vs real parameter collections", [r[0] for r in rows], [r[1] for r in rows], [r[2] for r in rows])
    ctx.evaluations += len(rows)
    if batch["req"]:
        ctx.samples.append({"request": batch["req"][-1][:200], "model": model[-1][:300], "impl": (batch["impl"][-1] or "")[:300]})
    ctx.rule = ("seeded sessions on the smallest test reactor (+0-2 added assembly copies): nested retainState scopes (depth <= 4) "
                "on random objects, plain assignments of every value kind, random keep-sets, cache entries, hex pitch changes, "
                "cache entries on objects and on component materials, deepcopy/pickle points, makeParametersReadOnly with assemblies "
                "held by ex-core systems (every reachable object probed); evaluations = compared protocol lines (one canonical dump "
                "of the touched objects per step); plus API-level oracle sessions and read-only sessions (makeParametersReadOnly / "
                "Database.loadReadOnly); distinct = sessions")


def search(ctx, disagreements, broken):
    sub = common.Ctx(ctx.prop, ctx.tier, ctx.seed)
    dummy = {"req": [], "impl": [], "cases": [], "mask_serial": set(), "serial_sets": {}}
    for d in disagreements[:10]:
        if isinstance(d.case, dict) and "seq_seed" in d.case:
            run_session(sub, d.case["seq_seed"], dummy, 8)
    known = {f["key"] for f in common.load_findings()["finding"] if f["property"] == ctx.prop}
    fresh = lambda: [f for f in sub.failures if f.key not in known]
    # (stop as soon as a failing input is at hand: the rounds below are there for disagreements that are hard to turn
    # into one)
    for k in range(60):
        if k % 10 == 0 and fresh():
            return list(sub.failures)
        run_session(sub, sub.rng.randrange(1 << 40), dummy, 6)
    for k in range(60):
        if k % 10 == 0 and fresh():
            return list(sub.failures)
        api_stream(sub, sub.rng.randrange(1 << 40))
    for _ in range(20):
        readonly_stream(sub, sub.rng.randrange(1 << 40))
    return list(sub.failures)


def replay(ctx, payload):
    case, key = payload.get("case", {}), payload["key"]
    sub = common.Ctx(ctx.prop, "quick", ctx.seed)
    dummy = {"req": [], "impl": [], "cases": [], "mask_serial": set(), "serial_sets": {}}
    fixture()
    if case.get("stream") == "readonly":
        readonly_stream(sub, case["seq_seed"], case.get("route"))
    elif case.get("stream") == "api":
        api_stream(sub, case["seq_seed"])
    elif "seq_seed" in case:
        run_session(sub, case["seq_seed"], dummy, 8)
    else:
        excluded_points(sub)
    hit = [f for f in sub.failures if f.key == key]
    return hit[0].to_json() if hit else None
