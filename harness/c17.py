"""C17 - case settings survive a write/read cycle and reject what they cannot hold.

Theorems: lean/ArmiVerif/Props/C17.lean about lean/ArmiVerif/Model/Settings.lean (styles, reader with
renames / invalid handling, copy-on-modify).  YAML formatting and voluptuous coercion are PARAMETERS of the
model (`schema n (dump n v) = some v`); they are exercised here for every setting of the registry.

Tie (every run):
  * whole registry: every setting of the framework + built-in plugins x values generated from its schema by
    introspection (valid ones and near-misses) x {short, medium, full} through the real
    Settings.writeToYamlStream / writeToYamlFile -> loadFromString / loadFromInputFile (scratch dir);
    the Lean model gets the same registry, the same assignments, the schema verdicts (obtained from the
    Setting object directly, not through Settings) and predicts: accept/reject, the off-default set, the
    written mapping per style (keys, order, values), the state after reading, the invalid-name set.
  * several settings changed at once (random subsets), reading onto non-fresh objects, docs with unknown
    names, old names (every declared one, both orders with the new name), expiry dates and collisions on
    generated registries (Settings.modified(newSettings={name: Setting(..., oldNames=...)})).
  * modified(): copies vs originals, histories of assignments through either.
  * copies (run_copies): histories assign / load -> revertToDefault / changeDefault -> copy by modified / duplicate / deepcopy /
    pickle (copies of copies) -> WRITE THE COPY in each style -> read back; `isDefault`/`offDefault` against value == default on
    every object; the model follows the same history (copyReg = Settings.__setstate__, revert, changeDefault).
  * option lists (run_options): settings with options, extended at run time through setting.Option (to empty and non-empty lists,
    once and repeatedly) - the accept / reject table against the CURRENT list after every addition (Lean optSchema / addOptions);
    plugins registered with the application contribute options to `neutronicsKernel` (defined with an empty list) and define
    settings of their own: near-misses refused on assignment, in modified() and on read, legal options round-trip.
  * copies with an EMPTY modification set (modified(), modified(newSettings={}), caseTitle only, duplicate, deepcopy, pickle): a new
    object, independent in both directions (values, path, case title) under assignment, revertToDefaults and writeToYamlFile.
  * boundaries (run_boundaries): every setting x near-miss values at its type / range / option boundaries (fractions between a
    bound and the next integer, raw forms that differ from their coerced form, zeros, tiny numbers, lists with one bad element)
    through assignment and through a file; an ACCEPTED value must be written and read back equal and satisfy its own schema;
    numeric schemas All(Coerce, Range) are compared value by value with the Lean numSchema (coerce, then validate).
Implementation-side oracle: the property clauses evaluated on the real objects (value equality per setting
after the round trip, key sets per style, rejected values leave the previous value, renames land on the new
name, copies are isolated including their mutable values).
"""
import contextlib
import copy
import datetime
import io
import os
import sys
from fractions import Fraction

from harness import common
from harness.common import Failure, lean_run

PROP_MODULES = ["ArmiVerif.Props.C17"]
PARTIAL = ("the theorems carry the style / rename / invalid / copy logic for every reachable settings object (any history of "
           "assign / revert / changeDefault / copy / modified); YAML formatting (ruamel) and schema "
           "coercion (voluptuous) of each setting enter as the hypothesis schema n (dump n v) = some v, which is "
           "proved for the numeric All(Coerce(int|float), Range) schemas (numSchema_fixpoint) and tested per setting and value "
           "for the others; the `versions` setting is stamped with the armi version "
           "by the writer and is exempt from value equality (the model states the stamp)")
ASSUMPTIONS = [
    "ruamel.yaml dump/load and voluptuous schemas are parameters of the model (contract load(dump v) = v per "
    "setting, exercised for every setting of the registry with generated values)",
    "container kind (list vs CommentedSeq, dict vs CommentedMap) is not compared, values are",
    "datetime.date.today() enters the renamer model as an integer (ordinal)",
]

YAML_STRINGS = ["", "x", "some value", "a: b", "#hash", "  padded ", "1e5", "yes", "null", "~", "on", "off", "- x",
                "{a: b}", "[1]", "*anchor", "!tag", "%x", "@x", "`x", "'quoted'", '"dq"', "tab\there", "line1\nline2",
                "0x1f", "012", "1_000", "1:30", "=", ".inf", ".nan", "-", "?", "2020-01-01", "ünï", "a,b", "a#b", "a :b",
                "None", "True", "1.0", "  ", "\\n", "C:\\path\\file", "/abs/path.yaml", "trailing "]


# --------------------------------------------------------------------------- canonical values
def canon(v):
    """Canonical hashable form: equal canon <=> equal by Python `==` on the kinds of values settings hold."""
    from armi.reactor.flags import Flags
    if isinstance(v, bool) or isinstance(v, int):
        return ("n", Fraction(int(v)))
    if isinstance(v, float):
        if v != v:
            return ("nan",)
        if v in (float("inf"), float("-inf")):
            return ("inf", v > 0)
        return ("n", Fraction(v))
    if isinstance(v, str):
        return ("s", str(v))
    if v is None:
        return ("z",)
    if isinstance(v, Flags):
        return ("f", Flags.toString(v))
    if isinstance(v, dict):
        return ("d", tuple(sorted(((canon(k), canon(x)) for k, x in v.items()), key=repr)))
    if isinstance(v, (list, tuple)):
        return ("l", tuple(canon(x) for x in v))
    if hasattr(v, "__dict__") and type(v).__name__ == "XSModelingOptions":
        return ("xs", canon(dict(iter(v))))
    if isinstance(v, (datetime.date, datetime.datetime)):
        return ("date", v.isoformat())
    return ("o", type(v).__name__, repr(v))


class Interner:
    def __init__(self):
        self.ids = {}
        self.vals = []

    def __call__(self, v):
        c = canon(v)
        i = self.ids.get(c)
        if i is None:
            i = len(self.vals)
            self.ids[c] = i
            self.vals.append(v)
        return i


def plain(v):
    """A YAML-representable plain copy of a raw candidate (lists/dicts/scalars only)."""
    return copy.deepcopy(v)


def yaml_roundtrip(obj):
    """dump with ruamel the way the writer configures it, load the way the reader does (independent of armi)."""
    from ruamel.yaml import YAML
    w = YAML()
    w.default_flow_style = False
    w.indent(mapping=2, sequence=4, offset=2)
    buf = io.StringIO()
    w.dump({"k": obj}, buf)
    r = YAML(typ="rt")
    return r.load(buf.getvalue())["k"]


def yaml_text(mapping):
    from ruamel.yaml import YAML
    w = YAML()
    w.default_flow_style = False
    buf = io.StringIO()
    w.dump({"settings": mapping}, buf)
    return buf.getvalue()


def parse_doc(text):
    from ruamel.yaml import YAML
    return YAML(typ="rt").load(text)["settings"]


# --------------------------------------------------------------------------- value generation from schemas
def _base_samples(t, rng):
    if t is bool:
        return [True, False, "x", 0, None, ""]
    if t is int:
        return [0, 1, 2, 7, -1, 1000000, 3.0, "12", "abc", None, 2.5, True, rng.randint(-50, 5000)]
    if t is float:
        return [0.0, 1.5, -2.25, 1e-7, 123456.789, 3, "1e5", "abc", None, 1e300, 0.1, rng.randint(1, 4000) / 8.0,
                round(rng.uniform(0, 1), 6), 0.5, 1.0]
    if t is str:
        return rng.sample(YAML_STRINGS, 8) + [5, None, 2.5, ["l"]]
    if t is list:
        return [[], ["abc"], [1, 2], [1.5, "a"], "abc", None, [[1, 2], [3]], [rng.choice(YAML_STRINGS)], 7,
                [{"a": 1}], [True, None]]
    if t is dict:
        return [{}, {"a": 1}, {"k": "v", "n": [1, 2]}, None, [1], {"armi.reactor": "debug"}, {"x": {"y": 2.5}},
                {rng.choice(["k1", "a b", "1"]): rng.choice(YAML_STRINGS)}]
    return [None, 1, "x"]


def gen_node(node, rng, depth=0):
    """Candidate raw values for a voluptuous schema node (valid-looking ones and near-misses)."""
    import voluptuous as vol
    out = []
    if depth > 6:
        return [None]
    if isinstance(node, vol.Schema):
        return gen_node(node.schema, rng, depth + 1)
    if isinstance(node, vol.Coerce):
        return _base_samples(node.type, rng)
    if isinstance(node, vol.In):
        opts = list(node.container)
        out = list(opts)
        out += ["notAnOption", None, 3]
        if opts and isinstance(opts[0], str):
            out.append(opts[0].upper() if opts[0].upper() != opts[0] else opts[0].lower() + "x")
        return out
    if isinstance(node, vol.Range):
        for b in (node.min, node.max):
            if b is not None:
                out += [b, b - 1, b + 1, b + 0.5, b - 0.5]
        return out or [0]
    if isinstance(node, vol.Length):
        return []
    if isinstance(node, (vol.All, vol.Any)):
        for sub in node.validators:
            out += gen_node(sub, rng, depth + 1)
        return out
    if isinstance(node, list):
        elems = []
        for sub in node:
            elems += gen_node(sub, rng, depth + 1)
        elems = elems or [1]
        out = [[]]
        for _ in range(5):
            k = rng.randint(1, 4)
            out.append([copy.deepcopy(rng.choice(elems)) for _ in range(k)])
        # lists of "clean" elements of the first kind (more likely to be valid)
        clean = [e for e in elems if e is not None and not isinstance(e, (list, dict))]
        if clean:
            t0 = type(clean[0])
            same = [e for e in clean if type(e) is t0]
            for _ in range(4):
                out.append([rng.choice(same) for _ in range(rng.randint(1, 4))])
            if t0 in (int, float):
                out.append(sorted({rng.choice(same) for _ in range(4)}))
        out += ["notalist", None, 5]
        return out
    if isinstance(node, dict):
        keys = list(node.items())
        for _ in range(6):
            d = {}
            for k, sub in keys:
                kk = k.schema if isinstance(k, vol.Marker) else k
                if isinstance(kk, str):
                    if rng.random() < 0.45:
                        cands = gen_node(sub, rng, depth + 1) or [None]
                        d[kk] = copy.deepcopy(rng.choice(cands))
                else:
                    # validator-keyed mapping (e.g. XS ids): generate a few keys
                    for _ in range(rng.randint(0, 2)):
                        key = rng.choice(["A", "B", "AA", "BC", "ZZ", "ABC", "", "a"])
                        cands = gen_node(sub, rng, depth + 1) or [None]
                        d[key] = copy.deepcopy(rng.choice(cands))
            out.append(d)
        out += [{}, {"unknownKey": 1}, None, [1, 2], "str"]
        return out
    if node in (str, int, float, bool, list, dict):
        if node is str:
            return rng.sample(YAML_STRINGS, 6) + [5, None]
        if node is int:
            return [0, 1, 5, -3, 2.5, "7", None, True]
        if node is float:
            return [0.0, 1.5, -2.25, 3, "1.5", None]
        if node is bool:
            return [True, False, 1, "yes", None]
        return _base_samples(node, rng)
    if node is None:
        return [None]
    if callable(node):
        return []
    return [node]


def valid_biased_dict(node, rng, depth=0):
    """A dict for a literal-dict schema node in which every chosen key gets a value that the key's own
    sub-schema accepts (so that nested settings get genuinely valid values, not only near-misses)."""
    import voluptuous as vol
    d = {}
    for k, sub in node.items():
        kk = k.schema if isinstance(k, vol.Marker) else k
        if not isinstance(kk, str) or rng.random() < 0.55:
            continue
        cands = gen_node(sub, rng, depth + 1)
        rng.shuffle(cands)
        for c in cands:
            try:
                vol.Schema(sub)(copy.deepcopy(c))
            except Exception:
                continue
            d[kk] = copy.deepcopy(c)
            break
    return d


def special_candidates(name, setting, rng):
    """Nested settings: generated from their own schemas (cross-section control, cycles, tight coupling)."""
    import voluptuous as vol
    out = []
    tname = type(setting).__name__
    if tname == "XSSettingDef":
        from armi.physics.neutronics import crossSectionSettings as xs
        single = xs._SINGLE_XS_SCHEMA.schema
        for _ in range(10):
            d = {}
            for _k in range(rng.randint(1, 3)):
                key = rng.choice(["AA", "AB", "BA", "C", "ZZ", "DA"])
                one = valid_biased_dict(single, rng)
                mode = rng.random()
                if mode < 0.5:
                    one.pop("xsFileLocation", None)
                    one.pop("fluxFileLocation", None)
                    one.setdefault("geometry", rng.choice(sorted(xs.XS_GEOM_TYPES)))
                elif mode < 0.7:
                    one.pop("geometry", None)
                    one["xsFileLocation"] = [rng.choice(["ISOAA", "lib/ISOTXS", "a b.iso"])]
                d[key] = one
            out.append(d)
        out += [{}, {"AAA": {"geometry": "0D"}}, {"AA": {"geometry": "5D"}}, {"AA": {"bogus": 1}}, None, [1],
                {"AA": {"geometry": "1D cylinder", "numInternalRings": "many"}},
                {"AA": {"geometry": "0D", "validBlockTypes": []}, "BA": {"geometry": "0D", "criticalBuckling": False}},
                {"AA": {"geometry": "0D", "criticalBuckling": "yes"}}, {"AA": {}}, {"AA": None},
                {"AA": {"geometry": "1D cylinder", "numInternalRings": "3", "meshSubdivisionsPerCm": 2}}]
    elif tname == "TightCouplingSettingDef":
        from armi.settings.fwSettings import tightCouplingSettings as tc
        sch = tc._SCHEMA.schema
        for node_k, node_v in sch.items():
            for _ in range(6):
                d = {}
                for _k in range(rng.randint(1, 2)):
                    key = rng.choice(["globalFlux", "thermalHydraulics", "x", ""])
                    one = valid_biased_dict(node_v if isinstance(node_v, dict) else getattr(node_v, "schema", {}), rng) \
                        if isinstance(node_v, (dict, vol.Schema)) else {}
                    d[key] = one
                out.append(d)
        out += [{}, {"globalFlux": {"parameter": "keff", "convergence": 1e-5}},
                {"globalFlux": {"parameter": "power", "convergence": "1e-3"}},
                {"globalFlux": {"parameter": "bogus", "convergence": 1e-5}}, {"globalFlux": {"parameter": "keff"}},
                None, [1]]
    elif name == "cycles":
        for _ in range(12):
            cyc = []
            for _c in range(rng.randint(1, 3)):
                kind = rng.choice(["cum", "step", "len", "mixed"])
                c = {}
                if rng.random() < 0.6:
                    c["name"] = rng.choice(["startup", "cycle 1", "a: b", "1"])
                if kind == "cum":
                    n = rng.randint(1, 4)
                    c["cumulative days"] = sorted({rng.choice([1, 2.5, 10, 30, 45.5, 100, 365]) for _ in range(n)})
                elif kind == "step":
                    c["step days"] = [rng.choice([1, "2.5", "3*4", 10.0, "R"]) for _ in range(rng.randint(1, 3))]
                elif kind == "len":
                    c["cycle length"] = rng.choice([100, 365.25, "30", -1])
                    c["burn steps"] = rng.choice([0, 2, 5, "3", -2, 2.5])
                else:
                    c["cumulative days"] = [1, 2]
                    c["step days"] = [1]
                if rng.random() < 0.5:
                    c["power fractions"] = [rng.choice([1, 0.5, "0.5", "2*0.3"]) for _ in range(rng.randint(1, 3))]
                if rng.random() < 0.5:
                    c["availability factor"] = rng.choice([1, 0.9, 0, "0.5", 1.5, -0.1])
                cyc.append(c)
            out.append(cyc)
        out += [[{"cumulative days": [3, 2, 1]}], [{"bogus": 1}], [{}], "x", None]
    return out


VERBOSITY_FAMILY = ("verbosity", "branchVerbosity", "moduleVerbosity")


def loggable(name, stored):
    """Whether Settings.initLogVerbosity (run at the end of every load) can digest the stored value."""
    from armi import runLog
    levels = set(runLog.LOG.logLevels.keys())
    if name in ("verbosity", "branchVerbosity"):
        return isinstance(stored, str) and stored in levels
    if name == "moduleVerbosity":
        return isinstance(stored, dict) and all(
            isinstance(k, str) and isinstance(v, str) and (v.isnumeric() or v in levels) for k, v in stored.items())
    return True


def candidates(name, setting, rng, k, unloggable=False):
    """k raw candidate values for a setting (at least half accepted by its schema when possible).
    Modelled domain: for the verbosity family only values the logger understands (the others are run as
    excluded points by run_verbosity_points); a `versions` value is a mapping."""
    raw = special_candidates(name, setting, rng)
    if not raw:
        raw = gen_node(setting.schema, rng)
        d = setting.default
        # type-of-default samples for schemas that are opaque callables / Any(...)
        t = type(d)
        if t in (bool, int, float, str, list, dict):
            raw += _base_samples(t, rng)
        if isinstance(d, list) and d:
            raw += [d + [d[0]], list(reversed(d)), d[:1]]
        if setting.options:
            raw += list(setting.options)[:6]
    good, bad = [], []
    seen = set()
    for r in raw:
        c = canon(r)
        if c in seen:
            continue
        seen.add(c)
        ok, v = schema_of(setting, r)
        if ok and name in VERBOSITY_FAMILY and (loggable(name, v) == unloggable):
            continue
        if name == "versions" and not isinstance(r, dict):
            continue
        (good if ok else bad).append(r)
    if name in ("verbosity", "branchVerbosity") and not unloggable:
        good += ["debug", "extra", "info", "important", "warning", "error", "header"]
    if name == "moduleVerbosity" and not unloggable:
        good += [{"armi.reactor": "debug"}, {"a.b": "10", "c": "error"}, {"x": "info"}]
    rng.shuffle(good)
    rng.shuffle(bad)
    # falsy-but-legitimate values the schema admits always come first (None where the default is not None, 0,
    # empty list / string / dict, False): they are where writers and readers go wrong
    first = []
    for f in (None, 0, 0.0, "", [], {}, False):
        ok, v = schema_of(setting, f)
        if ok and name in VERBOSITY_FAMILY and (loggable(name, v) == unloggable):
            continue
        if ok and canon(v) != canon(setting.default) and canon(v) not in [canon(schema_of(setting, x)[1]) for x in first]:
            first.append(f)
    # values within round-off distance of the default are NOT the default: relative 1e-6 ... 1e-12 and one ulp either side
    # of every float (or float-accepting numeric) default; they must be written by the short/medium styles and read back bitwise
    d = setting.default
    if isinstance(d, (int, float)) and not isinstance(d, bool):
        import math
        base = float(d)
        near = [math.nextafter(base, math.inf), math.nextafter(base, -math.inf)]
        if base != 0.0:
            near += [base * (1.0 + e) for e in (1e-6, 1e-9, 1e-12, -1e-9)]
        else:
            near += [1e-12, 1e-300, -1e-12]
        for v in near:
            ok, sv = schema_of(setting, v)
            if ok and isinstance(sv, float) and sv == v and canon(sv) != canon(d):
                first.append(v)
    k = max(k, len(first) + 2)
    good = [g for g in good if not any(canon(g) == canon(f) and type(g) is type(f) for f in first)]
    ng = min(len(good), max(k - len(first) - min(len(bad), k // 3), 1))
    pick = first + good[:ng]
    pick += bad[:max(0, k - len(pick))]
    return pick


def schema_of(setting, raw):
    """The `schema` parameter of the model: the Setting object's own schema + _load on a raw value.
    (ok, stored value) - never goes through Settings or the reader."""
    try:
        v = setting._load(setting.schema(copy.deepcopy(raw)))
        return True, v
    except Exception:
        return False, None


_DUMP_CACHE = {}
HYP = {}        # (setting, value kind) -> [held, violated]   : the hypothesis schema n (dump n v) = some v, measured
HYP_BAD = []    # concrete (setting, kind, value) where the real schema/dump pair does not satisfy it


def value_kind(v):
    if v is None:
        return "None"
    if isinstance(v, bool):
        return "bool"
    if isinstance(v, int):
        return "int:zero" if v == 0 else "int"
    if isinstance(v, float):
        return "float:zero" if v == 0 else "float"
    if isinstance(v, str):
        return "str:empty" if v == "" else "str"
    if isinstance(v, dict):
        return f"{type(v).__name__}:empty" if not v else type(v).__name__
    if isinstance(v, (list, tuple)):
        return "list:empty" if not v else "list"
    return type(v).__name__


def record_hypothesis(name, setting, stored):
    """Evaluate the hypothesis of `read_write_id` on the REAL schema/dump pair for one stored value."""
    raw = dump_of(setting, stored)
    ok, back = schema_of(setting, raw)
    held = ok and canon(back) == canon(stored)
    cell = HYP.setdefault((name, value_kind(stored)), [0, 0])
    cell[0 if held else 1] += 1
    if not held and len(HYP_BAD) < 50:
        HYP_BAD.append({"setting": name, "kind": value_kind(stored), "value": repr(stored)[:120],
                        "dumped": repr(raw)[:120], "schema": "rejects" if not ok else repr(back)[:120]})
    return held


def dump_of(setting, value):
    key = (type(setting).__name__, canon(value))
    if key not in _DUMP_CACHE:
        _DUMP_CACHE[key] = _dump_of(setting, value)
    return _DUMP_CACHE[key]


def _dump_of(setting, value):
    """The `dump` parameter: what Setting.dump() would hand to YAML for a setting holding `value`, after a
    ruamel round trip. Uses a private copy of the Setting object so the object under test is not touched."""
    tname = type(setting).__name__
    if tname == "XSSettingDef":
        from armi.physics.neutronics.crossSectionSettings import serializeXSSettings
        d = serializeXSSettings(value)
    elif tname == "TightCouplingSettingDef":
        from armi.settings.fwSettings.tightCouplingSettings import serializeTightCouplingSettings
        d = serializeTightCouplingSettings(value)
    else:
        d = value
    return yaml_roundtrip(d)


# --------------------------------------------------------------------------- the model session
class Model:
    """Builds the request lines for Drivers/Settings.lean and remembers what to compare each answer with."""

    def __init__(self, ctx):
        self.ctx = ctx
        self.req, self.exp, self.cases = [], [], []
        self.I = Interner()

    def send(self, line, expected=None, case=None):
        self.req.append(line)
        self.exp.append(expected)
        self.cases.append(case)

    def flush(self, what):
        if not self.req:
            return
        out = lean_run("Settings", self.req)
        n = 0
        for line, exp, case, got in zip(self.req, self.exp, self.cases, out):
            if got == "bad-op":
                raise common.Infra(f"Settings driver: bad-op for {line[:200]}")
            if exp is not None and exp != got:
                n += 1
                self.ctx.disagree(what, {"request": line[:400], "case": case}, got[:600], exp[:600])
        self.ctx.count(f"model lines ({what})", len(self.req))
        self.req, self.exp, self.cases = [], [], []
        return n


def off_list(cs, I):
    return "[" + ",".join(f"{n}={I(s.value)}" for n, s in cs.items() if canon(s.value) != canon(s.default)) + "]"


def state_map(cs):
    return {n: canon(s.value) for n, s in cs.items()}


def armi_version():
    from armi.meta import __version__
    return __version__


# --------------------------------------------------------------------------- registry scenarios
def define_registry(m, cs, extra_olds=()):
    I = m.I
    m.send("new", "ok")
    for n, s in cs.items():
        m.send(f"def {n} {I(s.default)}", "ok")
    for n, s in cs.items():
        for old, exp in s.oldNames:
            m.send(f"old {n} {old} {'_' if exp is None else exp.toordinal()}", "ok")
    m.send(f"today {datetime.date.today().toordinal()}", "ok")
    m.send(f"blank {I({})}", "ok")
    m.send(f"stp {I({})} {I({'armi': armi_version()})}", "ok")
    m.send(f"stpv {I({})} {I({'armi': armi_version()})}", "ok")
    # tables for the default values of every setting (constant over the run)
    m.base = set()
    for n, s in cs.items():
        raw = dump_of(s, s.default)
        ok, v = schema_of(s, raw)
        record_hypothesis(n, s, s.default)
        m.send(f"dmp {n} {I(s.default)} {I(raw)}", "ok")
        m.send(f"sch {n} {I(raw)} {I(v) if ok else 'x'}", "ok")
        m.base.add(("dmp", n, I(s.default)))
        m.base.add(("sch", n, I(raw)))
    st = {"armi": armi_version()}
    ok, v = schema_of(dict(cs.items())["versions"], st)
    m.send(f"sch versions {I(st)} {I(v) if ok else 'x'}", "ok")
    m.base.add(("sch", "versions", I(st)))


def declare_tables(m, cs, ref, names):
    """sch/dmp entries for the current values of the named settings (what a write/read needs)."""
    I = m.I
    for n in names:
        s = dict(cs.items())[n]
        if ("dmp", n, I(s.value)) in m.base:
            continue
        raw = dump_of(ref[n], s.value)
        if n != "versions":
            record_hypothesis(n, ref[n], s.value)
        m.send(f"dmp {n} {I(s.value)} {I(raw)}", "ok")
        ok, v = schema_of(ref[n], raw)
        m.send(f"sch {n} {I(raw)} {I(v) if ok else 'x'}", "ok")
        if n == "versions":
            st = dict(raw) if isinstance(raw, dict) else {}
            st["armi"] = armi_version()
            m.send(f"stp {I(raw)} {I(st)}", "ok")
            sv = dict(s.value)
            sv["armi"] = armi_version()
            m.send(f"stpv {I(s.value)} {I(sv)}", "ok")
            ok2, v2 = schema_of(ref[n], st)
            m.send(f"sch {n} {I(st)} {I(v2) if ok2 else 'x'}", "ok")


def keyset_expected(cs, style, user):
    names = sorted((n for n, _ in cs.items()), key=lambda x: x.lower())
    off = {n for n, s in cs.items() if canon(s.value) != canon(s.default)}
    if style == "short":
        keys = [n for n in names if n in off]
    elif style == "medium":
        keys = [n for n in names if n in off or n in user]
    else:
        keys = names
    if "versions" not in keys:
        keys.append("versions")
    return keys


def roundtrip_case(ctx, m, ref, base_defaults, assigns, styles, user, tag, via_file=False, scratch=None):
    """One scenario: fresh Settings, the assignments, then write/read in each style; model + oracle."""
    from armi import settings
    I = m.I
    cs = settings.Settings()
    m.send("clr", "ok")
    changed = []
    for (n, raw) in assigns:
        before = state_map(cs)
        okS, vS = schema_of(ref[n], raw)
        m.send(f"sch {n} {I(raw)} {I(vS) if okS else 'x'}", "ok")
        try:
            cs[n] = copy.deepcopy(raw)
            st = "ok"
        except Exception:
            st = "invalid"
        m.send(f"set {n} {I(raw)}", st, {"setting": n, "raw": repr(raw)[:120], "tag": tag})
        after = state_map(cs)
        case = {"setting": n, "raw": repr(raw)[:200]}
        if st == "invalid":
            ctx.count("assignments refused")
            if okS:
                ctx.fail(f"assign-rejects-schema-valid-value", "a value the setting's schema accepts is assignable",
                         case, observed="exception", expected=repr(vS)[:100])
            if after != before:
                ctx.fail("assign-invalid-changes-state", "a refused value leaves the previous value in place", case,
                         observed=[k for k in after if after[k] != before[k]][:5])
        else:
            ctx.count("assignments accepted")
            if not okS:
                ctx.fail("assign-accepts-schema-invalid-value", "values violating the schema are rejected when assigned",
                         case, observed=repr(cs.getSetting(n).value)[:100])
            elif after[n] != canon(vS):
                ctx.fail("assign-valid-not-stored", "an accepted value is stored (coerced by the schema)", case,
                         observed=repr(dict(cs.items())[n].value)[:100], expected=repr(vS)[:100])
            moved = [k for k in after if k != n and after[k] != before[k]]
            if moved:
                ctx.fail("assign-moves-other-setting", "assignment touches only the named setting", case, observed=moved[:5])
            changed.append(n)
    m.send("off", off_list(cs, I), {"tag": tag, "assigns": [(n, repr(r)[:60]) for n, r in assigns]})
    for style in styles:
        original = state_map(cs)
        offn = [n for n, s in cs.items() if canon(s.value) != canon(s.default)]
        towrite = keyset_expected(cs, style, user)
        declare_tables(m, cs, ref, [n for n in towrite if n in ref and (n != "versions" or n in offn or style == "full"
                                                                        or (style == "medium" and n in user))])
        case = {"style": style, "assigns": [(n, repr(r)[:200]) for n, r in assigns], "user": list(user)[:10]}
        try:
            if via_file:
                src = os.path.join(scratch, "user.yaml")
                with open(src, "w") as f:
                    f.write(yaml_text({n: dump_of(ref[n], dict(cs.items())[n].value) for n in user}) if user else "settings: {}\n")
                dst = os.path.join(scratch, f"out-{style}.yaml")
                keep_path = cs.path
                cs.writeToYamlFile(dst, style=style, fromFile=src)
                cs.path = keep_path
                text = open(dst).read()
            else:
                buf = io.StringIO()
                cs.writeToYamlStream(buf, style=style, settingsSetByUser=list(user))
                text = buf.getvalue()
        except Exception as e:
            ctx.fail(f"write-raises:{style}", "a valid assignment can be written", case, observed=f"{type(e).__name__}: {e}"[:200])
            m.send(f"write {style} [{','.join(user)}]", None)
            continue
        doc = parse_doc(text)
        m.send(f"write {style} [{','.join(user)}]", "[" + ",".join(f"{k}={I(v)}" for k, v in doc.items()) + "]", case)
        # oracle: key set per style
        keys = list(doc.keys())
        if keys != towrite:
            miss = [k for k in towrite if k not in keys]
            extra = [k for k in keys if k not in towrite]
            ctx.fail(f"write-{style}-keyset" if (miss or extra) else f"write-{style}-order",
                     {"short": "short style omits exactly the settings at their default",
                      "medium": "medium style writes the changed settings and those of the user's file",
                      "full": "full style writes every setting"}[style], case,
                     observed={"missing": miss[:5], "extra": extra[:5]}, expected=towrite[:8])
        # writing must not change the settings object (the version stamp on `versions` excepted)
        now = state_map(cs)
        moved = [k for k in now if now[k] != original[k] and k != "versions"]
        if moved:
            ctx.fail("write-changes-settings", "writing leaves the settings object as it was", case, observed=moved[:5])
        m.send("off", off_list(cs, I), case)
        # read back into a fresh object
        cs2 = settings.Settings()
        for k, v in doc.items():
            if k in ref and ("sch", k, I(v)) not in m.base:
                ok, sv = schema_of(ref[k], v)
                m.send(f"sch {k} {I(v)} {I(sv) if ok else 'x'}", "ok")
        try:
            if via_file:
                rd = cs2.loadFromInputFile(dst, handleInvalids=False, setPath=False) if "userPlugins" not in offn else \
                    cs2.loadFromString(text, handleInvalids=False)
            else:
                rd = cs2.loadFromString(text, handleInvalids=False)
            status, inv = "ok", sorted(rd.invalidSettings)
        except Exception as e:
            status, inv = "reject", None
            ctx.fail(f"roundtrip-read-raises:{_culprit(ref, doc)}", "a written settings file reads back", case,
                     observed=f"{type(e).__name__}: {e}"[:300])
        m.send("push", "ok")
        m.send("reset", "ok")
        m.send("read [" + ",".join(f"{k}={I(v)}" for k, v in doc.items()) + "]",
               None if status == "reject" else "ok inv=[" + ",".join(inv) + "]", case)
        if status == "ok":
            m.send("off", off_list(cs2, I), case)
            got = state_map(cs2)
            for k, c in original.items():
                if k == "versions":
                    continue
                if got.get(k) != c:
                    was_default = c == base_defaults[k]
                    ctx.fail(f"roundtrip-default-moved:{style}" if was_default else f"roundtrip-value-differs:{style}:{k}",
                             "settings left at default stay at default" if was_default else
                             "every setting has an equal value after write/read", {**case, "setting": k},
                             observed=repr(dict(cs2.items())[k].value)[:200], expected=repr(dict(cs.items())[k].value)[:200])
            if inv:
                ctx.fail("roundtrip-invalid-names", "a written file names only defined settings", case, observed=inv[:5])
            v2 = dict(cs2.items())["versions"].value
            if not (isinstance(v2, dict) and v2.get("armi") == armi_version()):
                ctx.fail("roundtrip-version-stamp", "the file records the armi version that wrote it", case, observed=repr(v2)[:100])
        m.send("pop", "ok")
        ctx.count(f"write/read round trips ({style})")
    sample = None
    if assigns and len(ctx.samples) < 6 and tag.endswith("#0"):
        sample = {"assignments": [(n, repr(r)[:80]) for n, r in assigns[:3]], "styles": list(styles), "tag": tag}
    ctx.case((tag, tuple((n, I(r)) for n, r in assigns), tuple(styles), tuple(user)), nontrivial=bool(changed) or not assigns,
             sample=sample)


def _culprit(ref, doc):
    """Name of the entry of a written document that makes reading fail: the first one its own setting's
    schema refuses, else the first one that cannot be read on its own (names the input class in the key)."""
    from armi import settings
    for k, v in doc.items():
        if k in ref and not schema_of(ref[k], v)[0]:
            return k
    for k, v in doc.items():
        if k in ref and canon(v) != canon(dump_of(ref[k], ref[k].default)):
            try:
                settings.Settings().loadFromString(yaml_text({k: v}), handleInvalids=False)
            except Exception:
                return k
    return "?"


def run_registry(ctx):
    from armi import settings
    rng = ctx.rng
    cs0 = settings.Settings()
    ref = dict(settings.Settings().items())      # Setting objects used only as the schema/dump parameters
    base_defaults = state_map(cs0)
    names = [n for n, _ in cs0.items()]
    ctx.count("settings in the registry", len(names))
    m = Model(ctx)
    define_registry(m, cs0)
    m.send("base", "ok")
    K = ctx.pick(4, 36)
    nfull = ctx.pick(1, 8)
    with common.scratch_dir("c17-") as scratch:
        # defaults only, every style
        roundtrip_case(ctx, m, ref, base_defaults, [], ("short", "medium", "full"), [], "defaults#0")
        roundtrip_case(ctx, m, ref, base_defaults, [], ("short", "medium", "full"),
                       rng.sample(names, 12), "defaults-medium-user#0", via_file=True, scratch=scratch)
        nscen = 0
        for n in names:
            cands = candidates(n, ref[n], rng, K)
            ctx.count("candidate values", len(cands))
            for i, raw in enumerate(cands):
                dflt = ref[n].default
                near = isinstance(raw, float) and isinstance(dflt, (int, float)) and not isinstance(dflt, bool) and raw != dflt \
                    and abs(raw - dflt) <= 1e-5 * max(abs(dflt), 1e-6)
                if near:
                    ctx.count("values within round-off distance of the default")
                falsy = near or raw is None or (isinstance(raw, (int, float, str, list, dict)) and not raw)
                styles = ("short", "medium", "full") if (i < nfull or falsy) else ("short", "medium")
                user = rng.sample(names, rng.randint(0, 6))
                if n == "userPlugins":
                    via = False
                else:
                    via = (i % 4 == 1)
                roundtrip_case(ctx, m, ref, base_defaults, [(n, raw)], styles, user, f"{n}#{i}", via_file=via, scratch=scratch)
                nscen += 1
            if len(m.req) > 40000:
                m.flush("Settings model vs registry round trips")
                m = _renew(ctx, m, cs0)
        # several settings at once
        for t in range(ctx.pick(25, 900)):
            chosen = rng.sample(names, rng.randint(2, 12))
            assigns = []
            for n in chosen:
                c = candidates(n, ref[n], rng, 2)
                if c:
                    assigns.append((n, rng.choice(c)))
            if any(n == "userPlugins" for n, _ in assigns):
                via = False
            else:
                via = rng.random() < 0.3
            roundtrip_case(ctx, m, ref, base_defaults, assigns, ("short", "medium", "full") if t % 3 == 0 else ("short", "medium"),
                           rng.sample(names, rng.randint(0, 8)), f"multi#{t}", via_file=via, scratch=scratch)
            if len(m.req) > 40000:
                m.flush("Settings model vs registry round trips")
                m = _renew(ctx, m, cs0)
        m.flush("Settings model vs registry round trips")
    return cs0, ref


def _renew(ctx, old, cs0):
    m = Model(ctx)
    m.I = old.I
    define_registry(m, cs0)
    m.send("base", "ok")
    return m


# --------------------------------------------------------------------------- reading: invalid values, renames
def run_reader(ctx, cs0, ref):
    from armi import settings
    from armi.settings import settingsIO
    from armi.settings.setting import Setting
    rng = ctx.rng
    names = [n for n, _ in cs0.items()]
    m = Model(ctx)
    define_registry(m, cs0)
    m.send("base", "ok")
    I = m.I
    olds = [(n, old, exp) for n, s in cs0.items() for old, exp in s.oldNames]
    ctx.count("declared old names", len(olds))

    def read_case(pre_assigns, mapping, tag):
        """cs with some prior state reads a document given as list of (name, raw)."""
        cs = settings.Settings()
        m.send("clr", "ok")
        for n, raw in pre_assigns:
            ok, v = schema_of(ref[n], raw)
            if not ok:
                continue
            cs[n] = copy.deepcopy(raw)
            m.send(f"sch {n} {I(raw)} {I(v)}", "ok")
            m.send(f"set {n} {I(raw)}", "ok")
        text = yaml_text({k: v for k, v in mapping})
        doc = parse_doc(text)
        # schema verdicts for every candidate target of every entry
        for k, v in doc.items():
            targets = ([k] if k in ref else []) + [n for n, old, _ in olds if old == k]
            for t in targets:
                ok, sv = schema_of(ref[t], v)
                m.send(f"sch {t} {I(v)} {I(sv) if ok else 'x'}", "ok")
        before = state_map(cs)
        case = {"prior": [(n, repr(r)[:60]) for n, r in pre_assigns], "document": [(k, repr(v)[:80]) for k, v in mapping], "tag": tag}
        try:
            from armi import context
            handle = rng.random() < 0.5 and context.CURRENT_MODE == context.Mode.BATCH
            rd = cs.loadFromString(text, handleInvalids=handle)
            status, inv = "ok", sorted(rd.invalidSettings)
        except Exception as e:
            status, inv, exc = "reject", None, e
        after = state_map(cs)
        # the model keeps first-seen order of invalid names; compare as sets through a sorted echo
        m.send("read [" + ",".join(f"{k}={I(v)}" for k, v in doc.items()) + "]", None, case)
        idx = len(m.req) - 1
        m.post.append((idx, status, inv, case))
        m.send("off", off_list(cs, I), case)
        # ---- oracle
        todays = {}
        applied = dict(before)
        expected_inv = set()
        bad_at = None
        for k, v in doc.items():
            if k in ref:
                tgt = k
            else:
                cand = [n for n, old, exp in olds if old == k and (exp is None or exp > datetime.date.today())]
                tgt = cand[0] if cand else None
            if tgt is None:
                expected_inv.add(k)
                continue
            ok, sv = schema_of(ref[tgt], v)
            if not ok:
                bad_at = (k, tgt)
                break
            applied[tgt] = canon(sv)
        if bad_at is not None:
            if status != "reject":
                ctx.fail("read-invalid-value-not-rejected", "a value violating the schema is rejected with an error when read",
                         case, observed=repr(dict(cs.items())[bad_at[1]].value)[:100])
            elif after[bad_at[1]] != applied[bad_at[1]]:
                ctx.fail("read-invalid-changes-value", "a refused value leaves the previous value in place", case,
                         observed=repr(dict(cs.items())[bad_at[1]].value)[:100])
            ctx.count("documents refused while reading")
        else:
            if status == "reject":
                ctx.fail("read-rejects-valid-document", "valid values are accepted when read", case,
                         observed=f"{type(exc).__name__}: {exc}"[:200])
            else:
                diff = [k for k in after if after[k] != applied[k]]
                if diff:
                    renamed = [k for k, _ in mapping if k not in ref]
                    ctx.fail("rename-not-applied" if renamed and not expected_inv else "read-wrong-state",
                             "renamed settings are accepted under their old names and land on the new ones" if renamed else
                             "reading applies exactly the document's values", case, observed=diff[:5])
                if set(inv) != expected_inv:
                    ctx.fail("unknown-name-not-flagged", "names that are not settings are reported as invalid", case,
                             observed=inv, expected=sorted(expected_inv))
            ctx.count("documents read")
        ctx.case(("read", tag, tuple((k, I(v)) for k, v in mapping)), sample=case if len(ctx.samples) < 6 and tag.startswith("old") else None)

    m.post = []
    # every declared old name x values, alone and together with the new name (both orders)
    for (n, old, exp) in olds:
        for raw in candidates(n, ref[n], rng, ctx.pick(4, 12)):
            read_case([], [(old, raw)], f"old:{old}")
            other = candidates(n, ref[n], rng, 2)
            if other:
                read_case([], [(old, raw), (n, other[0])], f"old-then-new:{old}")
                read_case([], [(n, other[0]), (old, raw)], f"new-then-old:{old}")
    # invalid values inside documents, unknown names, prior state
    for t in range(ctx.pick(150, 1500)):
        pre = []
        for n in rng.sample(names, rng.randint(0, 3)):
            c = candidates(n, ref[n], rng, 2)
            if c:
                pre.append((n, c[0]))
        mapping = []
        for n in rng.sample(names, rng.randint(1, 5)):
            if n == "userPlugins":
                continue
            c = candidates(n, ref[n], rng, 3)
            if c:
                mapping.append((n, rng.choice(c)))
        if rng.random() < 0.4:
            mapping.insert(rng.randint(0, len(mapping)), (rng.choice(["notASetting", "Power", "nCycle", "burnsteps"]), rng.choice([1, "x", [1]])))
        if rng.random() < 0.3 and olds:
            n, old, _ = rng.choice(olds)
            c = candidates(n, ref[n], rng, 2)
            if c and old not in [k for k, _ in mapping]:
                mapping.insert(rng.randint(0, len(mapping)), (old, c[0]))
        if mapping:
            read_case(pre, mapping, f"doc#{t}")
    _flush_reads(ctx, m, "Settings model vs reader (renames, invalid values, unknown names)")

    # ---- expiry dates and collisions on generated registries, SettingRenamer directly and through a reader
    today = datetime.date.today()
    m2 = Model(ctx)
    m2.I = I
    for t in range(ctx.pick(60, 600)):
        nset = rng.randint(1, 4)
        extra = {}
        pool = ["oldA", "oldB", "oldC", "power", "zzOld"]
        for i in range(nset):
            nm = f"xSetting{i}"
            on = []
            for _ in range(rng.randint(0, 3)):
                on.append((rng.choice(pool), rng.choice([None, today, today - datetime.timedelta(days=rng.randint(1, 400)),
                                                         today + datetime.timedelta(days=rng.randint(1, 400))])))
            extra[nm] = Setting(nm, default=rng.randint(0, 9), description="generated", oldNames=on)
        cs = settings.Settings().modified(newSettings=extra)
        m2.send("new", "ok")
        for n, s in cs.items():
            m2.send(f"def {n} {I(s.default)}", "ok")
        decl = []
        for n, s in cs.items():
            for old, exp in s.oldNames:
                decl.append((n, old, exp))
                m2.send(f"old {n} {old} {'_' if exp is None else exp.toordinal()}", "ok")
        m2.send(f"today {today.toordinal()}", "ok")
        case = {"extra": {k: [(o, str(e)) for o, e in v.oldNames] for k, v in extra.items()}}
        try:
            ren = settingsIO.SettingRenamer(dict(cs.items()))
            st = "ok"
        except Exception:
            ren, st = None, "reject"
        m2.send("mkren", st, case)
        active = {}
        collide = False
        for n, old, exp in decl:
            if exp is not None and exp <= today:
                continue
            if old in active:
                collide = True
            active.setdefault(old, n)
        if collide != (st == "reject"):
            ctx.fail("rename-collision-handling", "two live renames of one old name are refused, anything else is accepted",
                     case, observed=st)
        if ren is not None:
            for q in pool + ["xSetting0", "nTasks", "numProcessors"]:
                with common.quiet():
                    new, was = ren.renameSetting(q)
                m2.send(f"rename {q}", f"{new} {'T' if was else 'F'}", {**case, "query": q})
                exp_new = q if q in cs else active.get(q, q)
                if new != exp_new:
                    ctx.fail("rename-expired-applied" if q not in active else "rename-not-applied",
                             "live old names map to the new name, expired ones and current names are left alone",
                             {**case, "query": q}, observed=new, expected=exp_new)
            # through a real reader
            q = rng.choice(pool)
            val = rng.randint(10, 99)
            m2.send(f"sch power {I(val)} {I(float(val))}", "ok")
            for i in range(nset):
                m2.send(f"sch xSetting{i} {I(val)} {I(val)}", "ok")
            with common.quiet():
                try:
                    rd = cs.loadFromString(yaml_text({q: val}), handleInvalids=False)
                    rs = "ok inv=[" + ",".join(sorted(rd.invalidSettings)) + "]"
                except Exception:
                    rs = "reject inv=[]"
            m2.send(f"read [{q}={I(val)}]", rs, {**case, "doc": {q: val}})
            m2.send("off", off_list(cs, I), case)
        ctx.case(("renamer", t, repr(case)), sample=case if t == 0 else None)
        ctx.count("generated rename registries")
    m2.flush("Settings model vs SettingRenamer (expiry, collisions)")


def _flush_reads(ctx, m, what):
    """Like Model.flush but the `read` answers are compared with the invalid set taken as a set."""
    if not m.req:
        return
    out = lean_run("Settings", m.req)
    post = {i: (s, inv, c) for i, s, inv, c in m.post}
    for idx, (line, exp, case, got) in enumerate(zip(m.req, m.exp, m.cases, out)):
        if got == "bad-op":
            raise common.Infra(f"Settings driver: bad-op for {line[:200]}")
        if idx in post:
            status, inv, c = post[idx]
            gs, ginv = got.split(" inv=")
            ginv = sorted(x for x in ginv.strip("[]").split(",") if x)
            if gs != status or (status == "ok" and ginv != inv):
                ctx.disagree(what, {"request": line[:400], "case": c}, got[:300], f"{status} inv={inv}")
        elif exp is not None and exp != got:
            ctx.disagree(what, {"request": line[:400], "case": case}, got[:600], exp[:600])
    ctx.count(f"model lines ({what})", len(m.req))
    m.req, m.exp, m.cases, m.post = [], [], [], []


# --------------------------------------------------------------------------- modified copies
def run_modified(ctx, cs0, ref):
    from armi import settings
    from armi.settings.setting import Setting
    rng = ctx.rng
    names = [n for n, _ in cs0.items()]
    m = Model(ctx)
    define_registry(m, cs0)
    m.send("base", "ok")
    I = m.I
    for t in range(ctx.pick(60, 600)):
        cs = settings.Settings()
        m.send("clr", "ok")
        for n in rng.sample(names, rng.randint(0, 4)):
            c = [r for r in candidates(n, ref[n], rng, 3) if schema_of(ref[n], r)[0]]
            if c:
                cs[n] = copy.deepcopy(c[0])
                m.send(f"sch {n} {I(c[0])} {I(schema_of(ref[n], c[0])[1])}", "ok")
                m.send(f"set {n} {I(c[0])}", "ok")
        news, tok = {}, []
        for n in rng.sample(names, rng.randint(1, 5)):
            c = candidates(n, ref[n], rng, 3)
            if not c:
                continue
            raw = rng.choice(c)
            news[n] = copy.deepcopy(raw)
            ok, v = schema_of(ref[n], raw)
            m.send(f"sch {n} {I(raw)} {I(v) if ok else 'x'}", "ok")
            tok.append(f"{n}={I(raw)}")
        if rng.random() < 0.3:
            k = rng.choice(["brandNew", "anotherNew"])
            news[k] = rng.choice([3, "x", [1, 2]])
            tok.append(f"{k}={I(news[k])}")
        if rng.random() < 0.2:
            k = rng.choice(["objNew", "nCycles"])
            d, v = rng.randint(0, 5), rng.randint(6, 9)
            so = Setting(k, default=d, description="generated")
            so.setValue(v)
            news[k] = so
            tok.append(f"{k}=@{I(d)}:{I(v)}")
        before = state_map(cs)
        case = {"prior": {k: repr(dict(cs.items())[k].value)[:60] for k in before if before[k] != canon(ref[k].default)},
                "newSettings": {k: repr(v)[:80] for k, v in news.items()}}
        try:
            cp = cs.modified(newSettings=news)
            st = "ok"
        except Exception:
            cp, st = None, "reject"
        m.send("modified [" + ",".join(tok) + "]", st, case)
        m.send("off", off_list(cs, I), case)
        if state_map(cs) != before:
            ctx.fail("modified-affects-original", "modified copies do not affect the original", case,
                     observed=[k for k in before if state_map(cs).get(k) != before[k]][:5])
        if cp is not None:
            m.send("offB", off_list(cp, I), case)
            m.send("namesB", "[" + ",".join(n for n, _ in cp.items()) + "]", case)
            # histories of assignments through either object
            for _ in range(rng.randint(1, 4)):
                n = rng.choice(names)
                c = candidates(n, ref[n], rng, 2)
                if not c:
                    continue
                raw = c[0]
                ok, v = schema_of(ref[n], raw)
                m.send(f"sch {n} {I(raw)} {I(v) if ok else 'x'}", "ok")
                which = rng.choice(["A", "B"])
                obj, other = (cs, cp) if which == "A" else (cp, cs)
                ob = state_map(other)
                try:
                    obj[n] = copy.deepcopy(raw)
                    s2 = "ok"
                except Exception:
                    s2 = "invalid"
                if n in SIMPLE_GUARDED:
                    pass
                m.send(f"set{'' if which == 'A' else 'B'} {n} {I(raw)}", s2, case)
                if state_map(other) != ob:
                    ctx.fail("modified-affects-original" if which == "B" else "original-affects-modified",
                             "modified copies and their originals are independent", {**case, "assign": [which, n, repr(raw)[:60]]})
            m.send("off", off_list(cs, I), case)
            m.send("offB", off_list(cp, I), case)
            # mutable values are not shared
            for n, s in cs.items():
                o = dict(cp.items()).get(n)
                if o is None:
                    continue
                if isinstance(s.value, (list, dict)) and s.value is o.value:
                    ctx.fail("modified-shares-mutable-value", "the copy does not share list/dict values with the original",
                             {**case, "setting": n})
                if s is o:
                    ctx.fail("modified-shares-setting-object", "the copy has its own Setting objects", {**case, "setting": n})
            ctx.count("modified copies")
        else:
            ctx.count("modified refused")
        ctx.case(("modified", t, tuple(tok)), sample=case if t == 0 else None)
    m.flush("Settings model vs Settings.modified")


SIMPLE_GUARDED = set()


# --------------------------------------------------------------------------- near-miss values at type / coercion boundaries
def schema_facts(node, acc=None):
    """(ranges, options, coerced types, is-a-list) found in a voluptuous schema by introspection."""
    import voluptuous as vol
    acc = acc if acc is not None else {"ranges": [], "options": [], "types": [], "list": False, "lengths": []}
    if isinstance(node, vol.Schema):
        schema_facts(node.schema, acc)
    elif isinstance(node, (vol.All, vol.Any)):
        for v in node.validators:
            schema_facts(v, acc)
    elif isinstance(node, vol.Range):
        acc["ranges"].append(node)
    elif isinstance(node, vol.In):
        acc["options"] += list(node.container)
    elif isinstance(node, vol.Coerce):
        acc["types"].append(node.type)
    elif isinstance(node, vol.Length):
        acc["lengths"].append(node)
    elif isinstance(node, list):
        acc["list"] = True
        for v in node:
            schema_facts(v, acc)
    elif isinstance(node, type):
        acc["types"].append(node)
    return acc


def boundary_scalars(facts, default):
    """Numbers and near-numbers around every bound of the schema and around the coercion boundaries of its types: just
    inside / outside each bound, fractions strictly between a bound and the next integer, raw forms that differ from their
    coerced form (1.0 vs 1, "3", 2.9999, True), zeros of every kind, denormal-small numbers."""
    import math
    out = [0, 1, -1, 0.0, -0.0, 1.0, 0.5, 0.25, 0.75, 0.999999, 1e-300, -1e-300, 2.9999, 3, "3", "0", "0.5", "1.0", True, False,
           None, "", "abc", 1e300, -0.5, 1.5, " 2 ", "1e-3", 1e-3]
    bounds = []
    for r in facts["ranges"]:
        for b in (r.min, r.max):
            if b is not None:
                bounds.append(b)
    if isinstance(default, (int, float)) and not isinstance(default, bool):
        bounds.append(default)
    for b in bounds:
        fb = float(b)
        out += [b, fb, int(fb) if fb == int(fb) else fb, b - 1, b + 1, fb + 0.5, fb - 0.5, fb + 0.25, fb - 0.25, fb + 0.999, fb - 0.999,
                math.nextafter(fb, math.inf), math.nextafter(fb, -math.inf), fb + 1e-9, fb - 1e-9, str(b), str(fb + 0.5), repr(fb)]
    for o in facts["options"]:
        out.append(o)
        if isinstance(o, str):
            out += [o.upper(), o.lower(), o + " ", " " + o, o[:-1], o + "x"]
        elif isinstance(o, (int, float)) and not isinstance(o, bool):
            out += [float(o), str(o), o + 0.5, o + 1e-9]
    seen, uniq = set(), []
    for v in out:
        k = (type(v).__name__, repr(v))
        if k not in seen:
            seen.add(k)
            uniq.append(v)
    return uniq


def _accepts(schema, x):
    try:
        schema(x)
        return True
    except Exception:
        return False


def numeric_schema_correspondence(ctx, ref, names):
    """Settings whose schema is (a list of / an optional) All(Coerce(int|float), Range(...)): the real schema object against the
    Lean `numSchema` (coerce, THEN validate) on ints, finite floats and bools around every bound - function level, value and
    type of the stored number included. The model is built from the setting's type and range, not from the order of the
    validators inside the schema object."""
    import math
    import voluptuous as vol

    def numeric_node(node):
        """(element validator, type, Range) when node is All(Coerce(T), Range) possibly inside Schema / [..] / Any(None, ..)"""
        if isinstance(node, vol.Schema):
            return numeric_node(node.schema)
        if isinstance(node, list) and len(node) == 1:
            return numeric_node(node[0])
        if isinstance(node, vol.Any):
            subs = [v for v in node.validators if v is not None]
            return numeric_node(subs[0]) if len(subs) == 1 else None
        if isinstance(node, vol.All):
            co = [v for v in node.validators if isinstance(v, vol.Coerce)]
            rg = [v for v in node.validators if isinstance(v, vol.Range)]
            if len(co) == 1 and len(rg) == 1 and len(node.validators) == 2 and co[0].type in (int, float):
                return node, co[0].type, rg[0]
        return None

    req, exp, cases = [], [], []
    covered = []
    for n in names:
        found = numeric_node(ref[n].schema)
        if not found:
            continue
        node, typ, rg = found
        covered.append(n)
        elem = vol.Schema(node)
        raws = [x for x in boundary_scalars({"ranges": [rg], "options": []}, None)
                if isinstance(x, (bool, int, float)) and not (isinstance(x, float) and (math.isnan(x) or math.isinf(x))) and abs(x) < 1e200]
        for x in raws:
            try:
                v = elem(x)
                got = ("i:" + str(v)) if type(v) is int else ("f:" + str(common.rat(v))) if type(v) is float else f"?{type(v).__name__}"
            except Exception:
                got = "x"
            tok = ("b:" + ("T" if x else "F")) if isinstance(x, bool) else ("i:" + str(x)) if isinstance(x, int) else ("f:" + str(common.rat(x)))
            q = lambda b: "_" if b is None else str(common.rat(float(b)) if isinstance(b, float) else b)
            req.append(f"numsch {'int' if typ is int else 'float'} {q(rg.min)} {q(rg.max)} {'T' if rg.min_included else 'F'} {'T' if rg.max_included else 'F'} {tok}")
            exp.append(got)
            cases.append({"setting": n, "raw": repr(x), "type": typ.__name__, "range": [rg.min, rg.max, rg.min_included, rg.max_included]})
            ctx.count("numeric schema values " + ("accepted" if got != "x" else "refused"))
            ctx.case(("numsch", n, type(x).__name__, repr(x)), nontrivial=True)
        top = ref[n].schema.schema if isinstance(ref[n].schema, vol.Schema) else ref[n].schema
        if isinstance(top, list):
            # the list schema as a whole: lists with one bad element among good ones, at every position
            tokof = lambda x: ("b:" + ("T" if x else "F")) if isinstance(x, bool) else ("i:" + str(x)) if isinstance(x, int) else ("f:" + str(common.rat(x)))
            goods = [x for x in raws if not isinstance(x, bool) and _accepts(elem, x)][:6] or [1]
            rng = ctx.rng
            lists = [[], [0.25, 10, 20], [10, 0.5, 20], [10, 20, 0.75]]
            for x in raws:
                k = rng.randint(0, 2)
                l = [rng.choice(goods) for _ in range(rng.randint(1, 3))]
                l.insert(min(k, len(l)), x)
                lists.append(l)
            for l in lists:
                try:
                    v = ref[n].schema(copy.deepcopy(l))
                    got = "[" + ",".join(("i:" + str(e)) if type(e) is int else ("f:" + str(common.rat(e))) if type(e) is float else "?" for e in v) + "]"
                except Exception:
                    got = "x"
                q = lambda b: "_" if b is None else str(common.rat(float(b)) if isinstance(b, float) else b)
                req.append(f"numlist {'int' if typ is int else 'float'} {q(rg.min)} {q(rg.max)} {'T' if rg.min_included else 'F'} {'T' if rg.max_included else 'F'} [" + ",".join(tokof(e) for e in l) + "]")
                exp.append(got)
                cases.append({"setting": n, "raw": repr(l), "type": typ.__name__, "range": [rg.min, rg.max, rg.min_included, rg.max_included]})
                ctx.count("numeric list schema values " + ("accepted" if got != "x" else "refused"))
                ctx.case(("numlist", n, repr(l)), nontrivial=True)
    ctx.extra["numeric_schema_settings"] = covered
    out = lean_run("Settings", ["new"] + req)[1:]
    for r, e, c, o in zip(req, exp, cases, out):
        if o == "bad-op":
            raise common.Infra(f"Settings driver: bad-op for {r}")
        if o != e:
            ctx.disagree("Settings model (numSchema: coerce, then validate) vs the setting's schema", {"request": r, "case": c}, o, e)
            # the oracle's view of the same value: what the setting accepted must be re-admitted by it
            if e != "x":
                ctx.fail(f"accepted-value-violates-own-schema:{c['setting']}", "values that violate a setting's schema are rejected "
                         "(a value outside the range after coercion was accepted)", c, observed=e, expected="rejected" if o == "x" else o)
    ctx.count("model lines (numeric schemas)", len(req))


def run_boundaries(ctx, cs0, ref):
    """Every setting x near-miss values at its type / range / option boundaries, through assignment AND through a settings
    file. Clauses (none of them takes the schema's verdict for granted):
      * a refused value leaves the previous value in place;
      * an ACCEPTED value is one the setting can hold: the settings object now written (short style) reads back without error
        to the same value - an accepted value that cannot be read back should have been rejected;
      * assignment and reading agree on accept / refuse for the same YAML-representable raw value."""
    from armi import settings
    rng = ctx.rng
    names = [n for n, _ in cs0.items() if n not in ("versions", "userPlugins") + VERBOSITY_FAMILY]
    cs = settings.Settings()
    fresh = state_map(cs)
    budget = ctx.pick(12, 80)
    numeric_schema_correspondence(ctx, ref, names)
    for n in names:
        st = ref[n]
        facts = schema_facts(st.schema)
        scal = boundary_scalars(facts, st.default if not isinstance(st.default, list) else (st.default[0] if st.default else None))
        pointed = bool(facts["ranges"] or facts["options"])
        if isinstance(st.default, list) or facts["list"]:
            good = [x for x in (st.default if isinstance(st.default, list) else []) if schema_of(st, [x])[0]] or \
                   [x for x in scal if schema_of(st, [x])[0]][:3] or [1]
            g = lambda: copy.deepcopy(rng.choice(good))
            raws = [[x, 10, 20] for x in (0.25, 0.5, -0.5, "x", None)] + [[10, 0.5, 20], [10, 20, 0.75]] + [[x] for x in scal] + \
                [[g(), x, g()] for x in scal] + [scal[0], "1", None]
        elif isinstance(st.default, dict) or type(st).__name__ != "Setting":
            continue
        else:
            raws = list(scal)
        if not pointed and len(raws) > budget:
            raws = rng.sample(raws, budget)
        elif len(raws) > 3 * budget:
            raws = raws[:budget] + rng.sample(raws[budget:], 2 * budget)
        prevs = [r for r in raws if schema_of(st, r)[0] and canon(schema_of(st, r)[1]) != fresh[n]]
        for raw in raws:
            prev = copy.deepcopy(rng.choice(prevs)) if prevs and rng.random() < 0.7 else None
            try:
                dict(cs.items())[n].revertToDefault()
                if prev is not None:
                    cs[n] = prev
            except Exception:
                continue
            before = state_map(cs)
            case = {"setting": n, "raw": repr(raw)[:120], "previous": repr(cs[n])[:80]}
            try:
                cs[n] = copy.deepcopy(raw)
                acc = True
            except Exception:
                acc = False
            after = state_map(cs)
            ctx.count("boundary values accepted on assignment" if acc else "boundary values refused on assignment")
            if not acc:
                if after != before:
                    ctx.fail("assign-invalid-changes-state", "a refused value leaves the previous value in place", case,
                             observed=[k for k in after if after[k] != before[k]][:5])
            else:
                moved = [k for k in after if k != n and after[k] != before[k]]
                if moved:
                    ctx.fail("assign-moves-other-setting", "assignment touches only the named setting", case, observed=moved[:5])
                stored = dict(cs.items())[n].value
                # the value now held must be one the setting admits: write the object, read it back
                buf = io.StringIO()
                try:
                    cs.writeToYamlStream(buf, style="short")
                    cs2 = settings.Settings()
                    cs2.loadFromString(buf.getvalue(), handleInvalids=False)
                    back = dict(cs2.items())[n].value
                    if canon(back) != canon(stored):
                        ctx.fail(f"accepted-value-reads-back-different:{n}", "an accepted value is written and read back equal",
                                 {**case, "stored": repr(stored)[:80]}, observed=repr(back)[:80], expected=repr(stored)[:80])
                except Exception as e:
                    ctx.fail(f"accepted-value-cannot-be-read-back:{n}", "values that violate a setting's schema are rejected when assigned "
                             "(the value now held is refused by the setting's own schema when its file is read)",
                             {**case, "stored": repr(stored)[:80]}, observed=f"{type(e).__name__}: {e}"[:200])
                # ... and idempotent under its own schema (re-assigning the stored value changes nothing)
                ok2, v2 = schema_of(ref[n], copy.deepcopy(stored))
                if not ok2 or canon(v2) != canon(stored):
                    ctx.fail(f"accepted-value-violates-own-schema:{n}", "the value a setting holds satisfies the setting's own schema",
                             {**case, "stored": repr(stored)[:80]}, observed="refused" if not ok2 else repr(v2)[:80])
            # the same raw value arriving through a settings file (when YAML can carry it unchanged)
            try:
                rt = yaml_roundtrip(plain(raw))
                carried = canon(rt) == canon(raw) and type(rt) is type(raw) or isinstance(raw, (list, str))
                carried = carried and canon(rt) == canon(raw)
            except Exception:
                carried = False
            if carried and not (isinstance(raw, float) and raw != raw):
                dict(cs.items())[n].revertToDefault()
                if prev is not None:
                    cs[n] = prev
                before = state_map(cs)
                try:
                    cs.loadFromString(yaml_text({n: plain(raw)}), handleInvalids=False)
                    racc = True
                except Exception:
                    racc = False
                after = state_map(cs)
                ctx.count("boundary values accepted on read" if racc else "boundary values refused on read")
                if racc != acc:
                    ctx.fail("assign-and-read-disagree", "a value is rejected when assigned exactly when it is rejected when read",
                             case, observed={"assigned": acc, "read": racc})
                if not racc and after != before:
                    ctx.fail("read-invalid-changes-value", "a refused value leaves the previous value in place", case,
                             observed=[k for k in after if after[k] != before[k]][:5])
                if racc and acc and after[n] != canon(stored):
                    ctx.fail("read-stores-other-value", "reading stores the value assignment stores", case,
                             observed=repr(dict(cs.items())[n].value)[:80], expected=repr(stored)[:80])
            ctx.case(("boundary", n, type(raw).__name__, repr(raw)), nontrivial=True,
                     sample=case if len(ctx.samples) < 8 and pointed and not acc else None)
        dict(cs.items())[n].revertToDefault()


# --------------------------------------------------------------------------- option lists filled at run time (plugins)
def option_near_misses(opts, rng):
    """Values just outside an option list: case changes, blanks, truncations, extensions, other types."""
    out = []
    for o in opts:
        if isinstance(o, str):
            out += [o.upper(), o.lower(), o.swapcase(), o + " ", " " + o, o[:-1], o + "x", o.replace("_", "-"), o.capitalize()]
        elif isinstance(o, (int, float)) and not isinstance(o, bool):
            out += [o + 1, o - 1, str(o)]
    out += ["", "notAnOption", "DIF3D ", "MCNP_slab", None, 3]
    seen, uniq = set(), []
    for v in out:
        k = (type(v).__name__, repr(v))
        if k not in seen and v not in opts:
            seen.add(k)
            uniq.append(v)
    return uniq


def run_options(ctx, cs0, ref):
    """Settings with option lists, extended at run time.
    A (function level): fresh Setting objects (every registry setting that has options, plus generated ones: enforced / not,
       starting EMPTY / non-empty) receive `setting.Option`s once and repeatedly; after every addition the accept / reject
       table (legal options, added options, near-misses) is re-run against the CURRENT list: an options-enforcing setting
       accepts exactly its current non-empty list; a refused value leaves the previous value; an accepted one dumps and
       re-validates to itself.  Model: optSchema / addOptions (Lean), same table.
    B (plugin route): a plugin registered with the application contributes options to `neutronicsKernel` (defined with an
       empty list) and defines settings of its own with options; Settings() built afterwards must reject near-misses on
       assignment, in modified() and when read from a file (previous value kept) and round-trip the legal options."""
    import voluptuous as vol
    from armi import getPluginManagerOrFail, plugins, settings
    from armi.settings import setting as S
    rng = ctx.rng
    I = Interner()
    req, exp, cases = [], [], []
    pool = ["MCNP", "MCNP_Slab", "DIF3D", "DIF3D-Nodal", "VARIANT", "dragon", "Kernel 2", "x", "A_b", "serpent2"]

    def fresh_setting(name, default, options, enforced):
        return S.Setting(name, default=default, description="generated for the option stream", options=list(options), enforcedOptions=enforced)

    def table(st, tag, prev_pool):
        """accept / reject of every candidate against the CURRENT option list of st"""
        cur = list(st.options)
        enforced = bool(st.enforcedOptions)
        cands = list(cur) + option_near_misses(cur or pool[:2], rng)
        if not enforced and len(cands) > 14:
            cands = rng.sample(cands, 14)        # nothing is enforced: every string passes the type coercion
        for raw in cands:
            prev = rng.choice(prev_pool) if prev_pool else None
            if prev is not None:
                try:
                    st.setValue(copy.deepcopy(prev))
                except Exception:
                    prev = None
            before = canon(st.value)
            try:
                fb = vol.Schema(vol.Coerce(type(st.default)))(copy.deepcopy(raw))
                fbt = str(I(fb))
            except Exception:
                fbt = "x"
            want = (raw in cur) if (enforced and cur) else (fbt != "x")
            try:
                st.setValue(copy.deepcopy(raw))
                acc = True
            except Exception:
                acc = False
            case = {"setting": st.name, "options now": [repr(o) for o in cur][:12], "enforced": enforced, "raw": repr(raw), "stage": tag,
                    "previous": repr(prev), "default": repr(st.default), "defined with": [repr(o) for o in getattr(st, "_c17_defined", [])],
                    "additions": [[repr(o) for o in a] for a in getattr(st, "_c17_added", [])]}
            if acc != want:
                ctx.fail("option-outside-list-accepted" if acc else "legal-option-rejected",
                         "values outside a setting's (current, possibly plugin-extended) option list are rejected, its options are accepted",
                         case, observed="accepted" if acc else "rejected", expected="accepted" if want else "rejected")
            if not acc and canon(st.value) != before:
                ctx.fail("assign-invalid-changes-state", "a refused value leaves the previous value in place", case, observed=repr(st.value)[:80])
            if acc:
                ok2, v2 = schema_of(st, yaml_roundtrip(plain(st.dump())))
                if not ok2 or canon(v2) != canon(st.value):
                    ctx.fail(f"accepted-value-violates-own-schema:{st.name}", "the value a setting holds satisfies the setting's own schema", case,
                             observed="refused" if not ok2 else repr(v2)[:80])
            req.append(f"optsch {'T' if enforced else 'F'} [{','.join(str(I(o)) for o in cur)}] {I(raw)} {fbt}")
            exp.append(str(I(st.value)) if acc else "x")
            cases.append(case)
            ctx.count(f"option table entries ({'enforced' if enforced else 'not enforced'}, {'empty list' if not cur else 'non-empty list'}): "
                      f"{'accepted' if acc else 'refused'}")
            ctx.case(("opt", st.name, tag, tuple(repr(o) for o in cur), repr(raw)), nontrivial=True)

    # ---- A: function level
    specs = []
    for n, s_ in ref.items():
        auto = isinstance(s_.schema, vol.Schema) and isinstance(s_.schema.schema, (vol.In, vol.Coerce))      # no custom schema
        if s_.options is not None and auto and isinstance(s_.default, (str, int, float)) and not isinstance(s_.default, bool):
            specs.append((n, s_.default, list(s_.options), bool(s_.enforcedOptions)))
    for k in range(ctx.pick(6, 40)):
        start = rng.sample(pool, rng.choice([0, 0, 1, 3]))
        specs.append((f"genOpt{k}", rng.choice(["", start[0] if start else "", "zz"]), start, rng.random() < 0.75))
    specs.append(("genKernel", "", [], True))            # the shape of neutronicsKernel, always present
    ctx.count("settings with option lists (registry)", len([x for x in specs if not x[0].startswith("gen")]))
    for name, default, options, enforced in specs:
        st = fresh_setting(name, default, options, enforced)
        st._c17_defined, st._c17_added = list(options), []
        str_pool = [o for o in pool if o not in options]
        table(st, "as defined", [])
        rounds = rng.choice([1, 2, 3])
        for r in range(rounds):
            if options and not isinstance(options[0], str):
                new = [max(options) + 10 * (r + 1) + j for j in range(rng.randint(1, 2))]
            else:
                new = [str_pool.pop(rng.randrange(len(str_pool))) for _ in range(min(len(str_pool), rng.randint(1, 3)))]
            if not new:
                break
            legal_before = [o for o in st.options] if (st.enforcedOptions and st.options) else []
            if rng.random() < 0.5:
                st.addOptions([S.Option(o, name) for o in new])
            else:
                for o in new:
                    st.addOption(S.Option(o, name))
            st._c17_added.append(list(new))
            if list(st.options)[-len(new):] != new:
                ctx.fail("options-not-extended", "added options join the setting's option list", {"setting": name, "added": new}, observed=list(st.options)[-6:])
            table(st, f"after addition {r + 1} of {new}", legal_before + new)
            ctx.count(f"option additions (to {'an empty' if len(st.options) == len(new) else 'a non-empty'} list)")
    out = lean_run("Settings", ["new"] + req)[1:]
    for r_, e_, c_, o_ in zip(req, exp, cases, out):
        if o_ == "bad-op":
            raise common.Infra(f"Settings driver: bad-op for {r_}")
        if o_ != e_:
            ctx.disagree("Settings model (optSchema on the current option list) vs Setting.setValue after addOptions", {"request": r_, "case": c_}, o_, e_)
    ctx.count("model lines (option lists)", len(req))

    # ---- B: through a plugin registered with the application
    KERNEL = "neutronicsKernel"
    kopts = rng.sample(["MCNP", "MCNP_Slab", "DIF3D", "DIF3D-Nodal", "VARIANT"], rng.randint(2, 4))
    more = [o for o in ["dragon", "serpent2", "Kernel 2"] if rng.random() < 0.7] or ["dragon"]

    class C17OptionsPluginA(plugins.ArmiPlugin):
        @staticmethod
        @plugins.HOOKIMPL
        def defineSettings():
            return [S.Option(o, KERNEL) for o in kopts] + [
                S.Setting("c17PlugEmpty", default="", description="generated", options=[], enforcedOptions=True),
                S.Setting("c17PlugSome", default="one", description="generated", options=["one", "two"], enforcedOptions=True),
                S.Setting("c17PlugFree", default="one", description="generated", options=["one", "two"], enforcedOptions=False),
                S.Option("alpha", "c17PlugEmpty"), S.Option("Beta_2", "c17PlugEmpty"), S.Option("three", "c17PlugSome"),
                S.Option("three", "c17PlugFree")]

    class C17OptionsPluginB(plugins.ArmiPlugin):
        @staticmethod
        @plugins.HOOKIMPL
        def defineSettings():
            return [S.Option(o, KERNEL) for o in more] + [S.Option("gamma", "c17PlugEmpty"), S.Option("four", "c17PlugSome")]

    pm = getPluginManagerOrFail()
    registered = []
    try:
        for stage, plug in (("one plugin", C17OptionsPluginA), ("two plugins", C17OptionsPluginB)):
            pm.register(plug)
            registered.append(plug)
            expect = {KERNEL: (True, kopts + (more if stage == "two plugins" else [])),
                      "c17PlugEmpty": (True, ["alpha", "Beta_2"] + (["gamma"] if stage == "two plugins" else [])),
                      "c17PlugSome": (True, ["one", "two", "three"] + (["four"] if stage == "two plugins" else [])),
                      "c17PlugFree": (False, ["one", "two", "three"])}
            cs = settings.Settings()
            for n, (enforced, opts) in expect.items():
                have = list(dict(cs.items())[n].options)
                if sorted(have) != sorted(opts):
                    ctx.fail("plugin-options-not-applied", "options contributed by plugins join the setting's option list", {"setting": n, "stage": stage},
                             observed=have, expected=opts)
                    continue
                cands = list(opts) + option_near_misses(opts, rng)
                for raw in cands:
                    if not isinstance(raw, str):
                        continue
                    want = (raw in opts) if enforced else True
                    prev = rng.choice(opts)
                    case = {"setting": n, "stage": stage, "options": opts, "raw": repr(raw), "previous": prev}
                    for route in ("assign", "modified", "read"):
                        obj = settings.Settings()
                        obj[n] = prev
                        before = state_map(obj)
                        held = None
                        try:
                            if route == "assign":
                                obj[n] = raw
                                held = obj
                            elif route == "modified":
                                held = obj.modified(newSettings={n: raw})
                            else:
                                obj.loadFromString(yaml_text({n: raw}), handleInvalids=False)
                                held = obj
                            acc = True
                        except Exception:
                            acc = False
                        if acc != want:
                            ctx.fail(f"option-outside-list-accepted:{route}" if acc else f"legal-option-rejected:{route}",
                                     "values outside a setting's plugin-extended option list are rejected (assignment, modified(), file), its "
                                     "options are accepted", {**case, "route": route}, observed="accepted" if acc else "rejected")
                        if (not acc or route == "modified") and state_map(obj) != before:
                            ctx.fail("assign-invalid-changes-state" if route != "read" else "read-invalid-changes-value",
                                     "a refused value leaves the previous value in place", {**case, "route": route},
                                     observed=repr(obj[n]))
                        if acc and want and held is not None:
                            if held[n] != raw:
                                ctx.fail("assign-valid-not-stored", "an accepted value is stored", {**case, "route": route}, observed=repr(held[n]))
                            buf = io.StringIO()
                            held.writeToYamlStream(buf, style=rng.choice(["short", "medium"]))
                            back = settings.Settings()
                            try:
                                back.loadFromString(buf.getvalue(), handleInvalids=False)
                                if back[n] != raw:
                                    ctx.fail(f"roundtrip-value-differs:short:{n}", "legal plugin options survive a write/read cycle",
                                             {**case, "route": route}, observed=repr(back[n]))
                            except Exception as e:
                                ctx.fail(f"roundtrip-read-raises:{n}", "a written settings file reads back", {**case, "route": route},
                                         observed=f"{type(e).__name__}: {e}"[:200])
                        ctx.count(f"plugin option values ({route}): {'accepted' if acc else 'refused'}")
                    ctx.case(("plugopt", stage, n, repr(raw)), nontrivial=True,
                             sample=case if len(ctx.samples) < 10 and not want and n == KERNEL else None)
        # excluded point: with a kernel plugin registered the DEFAULT '' of neutronicsKernel is outside its (now non-empty,
        # enforced) option list, so an all-default Settings() written in the full style cannot be read back
        cs = settings.Settings()
        buf = io.StringIO()
        cs.writeToYamlStream(buf, style="full")
        doc = parse_doc(buf.getvalue())
        try:
            settings.Settings().loadFromString(yaml_text({KERNEL: doc[KERNEL]}), handleInvalids=False)
        except Exception as e:
            ctx.fail("roundtrip-read-raises:neutronicsKernel:default-outside-plugin-options", "settings left at default stay at default "
                     "(full style) when a plugin has contributed options", {"setting": KERNEL, "default": repr(doc[KERNEL]), "options": kopts + more},
                     observed=f"{type(e).__name__}: {e}"[:200])
        ctx.case(("plugopt-default-full", tuple(kopts + more)), nontrivial=True)
    finally:
        for plug in registered:
            try:
                pm.unregister(plug)
            except Exception:
                pass
    left = [n for n, _ in settings.Settings().items() if n.startswith("c17Plug")]
    if left or list(dict(settings.Settings().items())[KERNEL].options):
        raise common.Infra("the option-stream plugins could not be unregistered")


# --------------------------------------------------------------------------- write the COPY
def at_default_check(ctx, cs, case, who):
    """`Setting.isDefault()` / `offDefault` must be the comparison of value and default, on every object."""
    for n, s_ in cs.items():
        really = canon(s_.value) == canon(s_.default)
        try:
            said, off = bool(s_.isDefault()), bool(s_.offDefault)
        except Exception as e:
            ctx.fail("isdefault-raises", "asking whether a setting is at its default works", {**case, "setting": n, "object": who},
                     observed=f"{type(e).__name__}: {e}"[:200])
            continue
        if said != really or off == really:
            ctx.fail(f"isdefault-disagrees-with-value:{who}", "a setting is at its default exactly when its value equals its default "
                     "(on originals and on every kind of copy)", {**case, "setting": n}, observed={"isDefault": said, "offDefault": off,
                     "value": repr(s_.value)[:80], "default": repr(s_.default)[:80]})


def write_read_object(ctx, m, ref, cs, styles, user, case, exempt=()):
    """Write the settings object `cs` (the model's object A) in each style, read it back into a fresh object: key set per
    style, every value equal, nothing invalid. `exempt`: names whose DEFAULT was changed on this object only."""
    from armi import settings
    if m is not None:
        I = m.I
        m.send("off", off_list(cs, I), case)
    for style in styles:
        original = state_map(cs)
        offn = [n for n, s_ in cs.items() if canon(s_.value) != canon(s_.default)]
        towrite = keyset_expected(cs, style, user)
        if m is not None:
            declare_tables(m, cs, ref, [n for n in towrite if n in ref and (n != "versions" or n in offn or style == "full"
                                                                            or (style == "medium" and n in user))])
            for n in towrite:
                if n not in ref:       # settings added by modified(): plain values, dumped as they are
                    v = dict(cs.items())[n].value
                    m.send(f"dmp {n} {I(v)} {I(yaml_roundtrip(plain(v)))}", "ok")
        c2 = {**case, "style": style, "user": list(user)[:10]}
        buf = io.StringIO()
        try:
            cs.writeToYamlStream(buf, style=style, settingsSetByUser=list(user))
        except Exception as e:
            ctx.fail(f"write-raises:{style}", "a valid assignment can be written", c2, observed=f"{type(e).__name__}: {e}"[:200])
            if m is not None:
                m.send(f"write {style} [{','.join(user)}]", None)
            continue
        text = buf.getvalue()
        doc = parse_doc(text)
        if m is not None:
            m.send(f"write {style} [{','.join(user)}]", "[" + ",".join(f"{k}={I(v)}" for k, v in doc.items()) + "]", c2)
        keys = list(doc.keys())
        if keys != towrite:
            miss = [k for k in towrite if k not in keys]
            extra = [k for k in keys if k not in towrite]
            ctx.fail(f"write-{style}-keyset" if (miss or extra) else f"write-{style}-order",
                     {"short": "short style omits exactly the settings at their default",
                      "medium": "medium style writes the changed settings and those of the user's file",
                      "full": "full style writes every setting"}[style], c2,
                     observed={"missing": miss[:5], "extra": extra[:5]}, expected=towrite[:8])
        now = state_map(cs)
        moved = [k for k in now if now[k] != original[k] and k != "versions"]
        if moved:
            ctx.fail("write-changes-settings", "writing leaves the settings object as it was", c2, observed=moved[:5])
        cs2 = settings.Settings()
        try:
            rd = cs2.loadFromString(text, handleInvalids=False)
            inv = sorted(rd.invalidSettings)
        except Exception as e:
            ctx.fail(f"roundtrip-read-raises:{_culprit(ref, doc)}", "a written settings file reads back", c2,
                     observed=f"{type(e).__name__}: {e}"[:300])
            continue
        got = state_map(cs2)
        for k, c in original.items():
            if k == "versions" or k in exempt or k not in got:
                continue
            if got[k] != c:
                was_default = canon(dict(cs.items())[k].default) == c
                ctx.fail(f"roundtrip-default-moved:{style}" if was_default else f"roundtrip-value-differs:{style}:{k}",
                         "settings left at default stay at default" if was_default else
                         "every setting has an equal value after write/read (also the values a copy inherited)", {**c2, "setting": k},
                         observed=repr(dict(cs2.items())[k].value)[:200], expected=repr(dict(cs.items())[k].value)[:200])
        if [x for x in inv if x in ref]:
            ctx.fail("roundtrip-invalid-names", "a written file names only defined settings", c2, observed=inv[:5])
        ctx.count(f"copies written and read back ({style})")


def probe_independence(ctx, obj, make, how, snap, valid_value, names, scratch, rng):
    """On probe copies made by the same route (the modelled objects stay untouched): assign on the copy, revert on it, write it
    to another path - the original keeps its values, its path and its case title; and the other way round."""
    def ident(o):
        return (state_map(o), o.path, o.caseTitle)
    pr = make(obj)
    if pr is obj:
        ctx.fail(f"copy-is-same-object:{how}", "modified copies (also with an empty modification set) are new objects", snap(how=how, probe=True))
        return          # do not mutate the modelled object
    pr2 = make(pr)
    if pr2 is pr:
        ctx.fail(f"copy-is-same-object:{how}", "modified copies (also with an empty modification set) are new objects", snap(how=how, probe=True))
        return
    want_obj, want_pr2 = ident(obj), ident(pr2)
    step = "none"
    for step in ("assign", "revert", "write"):
        if step == "assign":
            for n in rng.sample([x for x in names if x not in ("versions", "userPlugins") + VERBOSITY_FAMILY], 3):
                v = valid_value(n)
                if v is not None:
                    pr[n] = v
        elif step == "revert":
            pr.revertToDefaults()
        else:
            pr.writeToYamlFile(os.path.join(scratch, f"probe-{rng.randint(0, 9)}.yaml"), style=rng.choice(["short", "full"]))
        for who, o, want in (("original", obj, want_obj), ("copy of the mutated object", pr2, want_pr2)):
            got = ident(o)
            if got != want:
                what = [k for k in want[0] if got[0].get(k) != want[0][k]][:4] + (["path"] if got[1] != want[1] else []) + \
                    (["caseTitle"] if got[2] != want[2] else [])
                ctx.fail(f"copy-mutation-reaches-other-object:{how}", "modified copies do not affect the original (values, path), nor the "
                         "original its copies", snap(how=how, step=step, affected=who), observed=what)
                return
    ctx.count(f"independence probes ({how})")


def run_copies(ctx, cs0, ref):
    """Multi-step histories: assign / load non-default values, derive a copy (modified, duplicate, deepcopy, pickle; copies
    of copies; revertToDefault / changeDefault before and after copying), WRITE THE COPY in each style and read it back."""
    import pickle
    from armi import settings
    from armi.settings.setting import Default
    rng = ctx.rng
    names = [n for n, _ in cs0.items()]
    plugin_names = sorted(set(names) - {s_.name for s_ in __import__("armi.settings.fwSettings", fromlist=["x"]).getFrameworkSettings()})
    nested = ["cycles", "crossSectionControl"]
    m = Model(ctx)
    define_registry(m, cs0)
    m.send("base", "ok")
    I = m.I
    base_defaults = state_map(cs0)

    def valid_value(n):
        c = [r for r in candidates(n, ref[n], rng, 4) if schema_of(ref[n], r)[0] and canon(schema_of(ref[n], r)[1]) != base_defaults[n]]
        return copy.deepcopy(rng.choice(c)) if c else None

    stack = contextlib.ExitStack()
    scratch = stack.enter_context(common.scratch_dir("c17c-"))
    for t in range(ctx.pick(36, 400)):
        cs = settings.Settings()
        m.send("clr", "ok")
        hist, script = [], []
        chosen = rng.sample(names, rng.randint(1, 5)) + [rng.choice(nested)] + ([rng.choice(plugin_names)] if plugin_names else [])
        chosen = [n for n in dict.fromkeys(chosen) if n not in ("userPlugins",) + VERBOSITY_FAMILY]
        loaded = {}
        for n in chosen:
            raw = valid_value(n)
            if raw is None:
                continue
            ok, v = schema_of(ref[n], raw)
            if rng.random() < 0.3 and n != "versions":
                loaded[n] = raw          # arrives through a settings file
                continue
            m.send(f"sch {n} {I(raw)} {I(v)}", "ok")
            cs[n] = copy.deepcopy(raw)
            m.send(f"set {n} {I(raw)}", "ok")
            hist.append(("set", n, repr(raw)[:80]))
            script.append(["set", n, repr(raw)])
        if loaded:
            text = yaml_text({k: plain(v) for k, v in loaded.items()})
            doc = parse_doc(text)
            for k, v in doc.items():
                ok, sv = schema_of(ref[k], v)
                m.send(f"sch {k} {I(v)} {I(sv) if ok else 'x'}", "ok")
            try:
                cs.loadFromString(text, handleInvalids=False)
                st = "ok inv=[]"
            except Exception:
                st = "reject inv=[]"
            m.send("read [" + ",".join(f"{k}={I(v)}" for k, v in doc.items()) + "]", st, {"loaded": repr(loaded)[:200]})
            hist.append(("load", sorted(loaded)))
            script.append(["load", {k: repr(v) for k, v in loaded.items()}])
        case = {"history": hist, "script": script}

        def snap(**kw):
            return {"history": list(hist), "script": [list(x) for x in script], **kw}
        exempt = set()
        obj, who = cs, "original"
        depth = rng.choice([1, 1, 2, 3])
        for d in range(depth):
            # before copying: revert / change a default on the current object
            r = rng.random()
            cur = [n for n, s_ in obj.items() if canon(s_.value) != canon(s_.default) and n != "versions"]
            if r < 0.25 and cur:
                n = rng.choice(cur)
                dict(obj.items())[n].revertToDefault()
                m.send(f"revert {n}", "ok")
                hist.append(("revert", n))
                script.append(["revert", n])
            elif r < 0.45:
                n = rng.choice([x for x in names if x not in ("versions", "userPlugins") + VERBOSITY_FAMILY])
                raw = valid_value(n)
                if raw is not None:
                    ok, v = schema_of(ref[n], raw)
                    m.send(f"sch {n} {I(raw)} {I(v)}", "ok")
                    dict(obj.items())[n].changeDefault(Default(copy.deepcopy(raw), n))
                    m.send(f"chdef {n} {I(raw)}", "ok", case)
                    hist.append(("changeDefault", n, repr(raw)[:60]))
                    script.append(["chdef", n, repr(raw)])
            before = state_map(obj)
            kinds = ["modified", "duplicate", "deepcopy", "pickle", "modified-empty", "modified-none", "modified-title", "modified"]
            how = kinds[t % 8] if (d == 0 and t < 16) else rng.choice(kinds)      # every kind of copy on every run
            news, tok = {}, []
            title = f"sweep{t}x{d}"
            if how == "modified":
                for n in rng.sample(names, rng.randint(0, 2)):
                    raw = valid_value(n)
                    if raw is not None and n not in ("userPlugins",) + VERBOSITY_FAMILY:
                        news[n] = raw
                        ok, v = schema_of(ref[n], raw)
                        m.send(f"sch {n} {I(raw)} {I(v)}", "ok")
                        tok.append(f"{n}={I(raw)}")
                if rng.random() < 0.3:
                    # a setting the application does not define: later copies carry it through __setstate__ whole
                    k = rng.choice(["brandNew", "anotherNew", "zNew"])
                    if k not in dict(obj.items()):
                        news[k] = rng.choice([3, "x", [1, 2], 2.5])
                        tok.append(f"{k}={I(news[k])}")
            def make(o):
                if how == "modified":
                    return o.modified(newSettings=copy.deepcopy(news))
                if how == "modified-empty":
                    return o.modified(newSettings={})         # the baseline point of a sweep: nothing to modify
                if how == "modified-none":
                    return o.modified()
                if how == "modified-title":
                    return o.modified(caseTitle=title)
                if how == "duplicate":
                    return o.duplicate()
                if how == "deepcopy":
                    return copy.deepcopy(o)
                return pickle.loads(pickle.dumps(o))
            try:
                cp = make(obj)
            except Exception as e:
                ctx.fail(f"copy-raises:{how}", "a settings object can be copied", snap(how=how), observed=f"{type(e).__name__}: {e}"[:200])
                break
            hist.append((how, {k: repr(v)[:60] for k, v in news.items()}))
            script.append(["copy", how, {k: repr(v) for k, v in news.items()}])
            m.send("modified [" + ",".join(tok) + "]" if how.startswith("modified") else "dup", "ok", case)
            # a copy is a NEW object, with or without modifications, and independent of its original in both directions
            if cp is obj:
                ctx.fail(f"copy-is-same-object:{how}", "modified copies (also with an empty modification set) are new objects", snap(how=how))
            if how == "modified-title" and cp.caseTitle != title:
                ctx.fail("modified-title-not-applied", "modified(caseTitle=...) names the copy", snap(how=how), observed=cp.caseTitle)
            try:
                probe_independence(ctx, obj, make, how, snap, valid_value, names, scratch, rng)
            except Exception as e:
                ctx.fail(f"copy-probe-raises:{how}", "a copy can be assigned, reverted and written", snap(how=how), observed=f"{type(e).__name__}: {e}"[:200])
            if state_map(obj) != before:
                ctx.fail("modified-affects-original", "modified copies do not affect the original", snap(how=how))
            # the copy holds what the original held (plus the modifications)
            want = dict(before)
            for n, raw in news.items():
                want[n] = canon(schema_of(ref[n], raw)[1]) if n in ref else canon(raw)
            gotc = state_map(cp)
            diff = [k for k in want if gotc.get(k) != want[k]]
            if diff:
                ctx.fail(f"copy-loses-value:{how}", "a copy holds the values of its original (and the requested modifications)",
                         snap(how=how), observed={k: repr(dict(cp.items())[k].value)[:80] for k in diff[:4]})
            at_default_check(ctx, obj, snap(), who)
            m.send("offB", off_list(cp, I), case)
            m.send("swap", "ok")
            m.send("names", "[" + ",".join(n for n, _ in cp.items()) + "]", case)
            if any(n not in ref for n, _ in cp.items()):
                ctx.count("copies carrying settings the application does not define")
            obj, who = cp, f"copy:{how}"
            exempt = set()       # a copy is rebuilt from the application's definitions: its defaults are the application's
            at_default_check(ctx, obj, snap(), who)
            # after copying: an assignment, a revert or a default change on the copy
            r = rng.random()
            if r < 0.3:
                n = rng.choice([x for x in names if x not in ("versions", "userPlugins") + VERBOSITY_FAMILY])
                raw = valid_value(n)
                if raw is not None:
                    ok, v = schema_of(ref[n], raw)
                    m.send(f"sch {n} {I(raw)} {I(v)}", "ok")
                    obj[n] = copy.deepcopy(raw)
                    m.send(f"set {n} {I(raw)}", "ok", case)
                    hist.append(("set-on-copy", n, repr(raw)[:60]))
                    script.append(["set", n, repr(raw)])
            elif r < 0.36 and d < depth - 1:
                obj.revertToDefaults()          # every setting at once; the next copy is taken from an all-default object
                m.send("reset", "ok")
                hist.append(("revertToDefaults-on-copy",))
                script.append(["revertall"])
            elif r < 0.45:
                cur = [n for n, s_ in obj.items() if canon(s_.value) != canon(s_.default) and n != "versions"]
                if cur:
                    n = rng.choice(cur)
                    dict(obj.items())[n].revertToDefault()
                    m.send(f"revert {n}", "ok")
                    hist.append(("revert-on-copy", n))
                    script.append(["revert", n])
            elif r < 0.55 and d == depth - 1:
                n = rng.choice([x for x in names if x not in ("versions", "userPlugins") + VERBOSITY_FAMILY])
                raw = valid_value(n)
                if raw is not None:
                    ok, v = schema_of(ref[n], raw)
                    m.send(f"sch {n} {I(raw)} {I(v)}", "ok")
                    dict(obj.items())[n].changeDefault(Default(copy.deepcopy(raw), n))
                    m.send(f"chdef {n} {I(raw)}", "ok", case)
                    hist.append(("changeDefault-on-copy", n, repr(raw)[:60]))
                    script.append(["chdef", n, repr(raw)])
                    exempt.add(n)
            m.send(f"isdef {hist[0][1] if hist and hist[0][0] == 'set' else 'nCycles'}",
                   "T" if canon(dict(obj.items())[hist[0][1] if hist and hist[0][0] == 'set' else 'nCycles'].value) ==
                   canon(dict(obj.items())[hist[0][1] if hist and hist[0][0] == 'set' else 'nCycles'].default) else "F", case)
            at_default_check(ctx, obj, snap(), who)
            styles = ("short", "medium", "full") if (t + d) % 4 == 0 else ("short", "medium") if t % 2 else ("short",)
            write_read_object(ctx, m, ref, obj, styles, rng.sample(names, rng.randint(0, 4)), snap(object=who), exempt)
            ctx.count(f"copies derived ({how}, depth {d + 1})")
        inherited = [h for h in hist if h[0] in ("set", "load")]
        ctx.case(("copies", t, repr(hist)), nontrivial=bool(inherited), sample={"history": [list(map(str, h)) for h in hist][:8]} if t < 2 else None)
        if len(m.req) > 40000:
            m.flush("Settings model vs copies written and read back")
            m = _renew(ctx, m, cs0)
    m.flush("Settings model vs copies written and read back")
    stack.close()


def run_cycles(ctx, cs0, ref):
    """The nested `cycles` setting: every combination of its input groups per cycle entry, derived from the schema's own
    keys. Exactly one of {cumulative days}, {step days}, {cycle length and/or burn steps} is valid (the rule the setting
    documents); every other combination must be refused on assignment, through modified() and on read, leaving the
    previous value. The expectation is computed from the key groups, NOT from the schema's verdict."""
    import itertools
    import voluptuous as vol
    from armi import settings
    rng = ctx.rng
    setting = ref["cycles"]
    entry = setting.schema.schema[0].validators[0]          # the dict of one cycle entry
    keys = [k.schema if isinstance(k, vol.Marker) else k for k in entry]
    detailed = [k for k in keys if k in ("cumulative days", "step days")]
    simple = [k for k in keys if k in ("cycle length", "burn steps")]
    optional = [k for k in keys if k not in detailed + simple]
    if sorted(detailed) != ["cumulative days", "step days"] or sorted(simple) != ["burn steps", "cycle length"]:
        ctx.fail("cycles-schema-shape", "the cycles schema has the documented input groups", {"keys": keys})
        return

    def value_for(key):
        sub = entry[[k for k in entry if (k.schema if isinstance(k, vol.Marker) else k) == key][0]]
        cands = {"cumulative days": [[1, 2, 3], [10.0, 20.5], [5]], "step days": [[1, 2], ["3*4"], [10.0]],
                 "cycle length": [100, 365.25, "30"], "burn steps": [0, 2, "3"], "availability factor": [1, 0.9, 0, "0.5"],
                 "power fractions": [[1, 0.5], ["2*0.3"]], "name": ["startup", "cycle 1"]}[key]
        good = []
        for c in cands:
            try:
                vol.Schema(sub)(copy.deepcopy(c))
                good.append(c)
            except Exception:
                pass
        return copy.deepcopy(rng.choice(good))

    m = Model(ctx)
    define_registry(m, cs0)
    m.send("base", "ok")
    I = m.I
    valid_prev = [{"cycle length": 50, "burn steps": 1}]
    combos = list(itertools.product([0, 1], repeat=len(detailed) + len(simple)))
    for rep in range(ctx.pick(2, 12)):
        for combo in combos:
            present = [k for k, on in zip(detailed + simple, combo) if on]
            e = {k: value_for(k) for k in present}
            for k in optional:
                if rng.random() < 0.4:
                    e[k] = value_for(k)
            groups = sum(1 for k in detailed if k in e) + (1 if any(k in e for k in simple) else 0)
            expect_valid = groups == 1
            raw = [e] if rng.random() < 0.6 else [{"cycle length": 10, "burn steps": 2}, e]
            case = {"setting": "cycles", "entry keys": sorted(e), "raw": repr(raw)[:300]}
            okS, vS = schema_of(setting, raw)
            if okS != expect_valid:
                ctx.fail("cycles-mixed-inputs-accepted" if okS else "cycles-single-group-rejected",
                         "a cycle entry is valid exactly when it gives one of: cumulative days, step days, cycle length/burn steps",
                         case, observed="accepted" if okS else "rejected")
            # assignment
            cs = settings.Settings()
            cs["cycles"] = copy.deepcopy(valid_prev)
            prev = state_map(cs)
            m.send("clr", "ok")
            m.send(f"sch cycles {I(valid_prev)} {I(schema_of(setting, valid_prev)[1])}", "ok")
            m.send(f"set cycles {I(valid_prev)}", "ok")
            m.send(f"sch cycles {I(raw)} {I(vS) if okS else 'x'}", "ok")
            try:
                cs["cycles"] = copy.deepcopy(raw)
                st = "ok"
            except Exception:
                st = "invalid"
            m.send(f"set cycles {I(raw)}", st, case)
            if (st == "ok") != expect_valid:
                ctx.fail("cycles-assign-verdict", "invalid cycle entries are rejected when assigned, valid ones accepted", case, observed=st)
            if st == "invalid" and state_map(cs) != prev:
                ctx.fail("assign-invalid-changes-state", "a refused value leaves the previous value in place", case)
            m.send("off", off_list(cs, I), case)
            # through modified()
            cs = settings.Settings()
            cs["cycles"] = copy.deepcopy(valid_prev)
            try:
                cp = cs.modified(newSettings={"cycles": copy.deepcopy(raw)})
                stm = "ok"
            except Exception:
                cp, stm = None, "reject"
            m.send("clr", "ok")
            m.send(f"sch cycles {I(valid_prev)} {I(schema_of(setting, valid_prev)[1])}", "ok")
            m.send(f"set cycles {I(valid_prev)}", "ok")
            m.send(f"sch cycles {I(raw)} {I(vS) if okS else 'x'}", "ok")
            m.send(f"modified [cycles={I(raw)}]", stm, case)
            if (stm == "ok") != expect_valid:
                ctx.fail("cycles-modified-verdict", "invalid cycle entries are rejected by modified(), valid ones accepted", case, observed=stm)
            if state_map(cs) != prev:
                ctx.fail("modified-affects-original", "modified copies do not affect the original", case)
            if cp is not None and expect_valid and canon(dict(cp.items())["cycles"].value) != canon(vS):
                ctx.fail("cycles-modified-value", "the modified copy holds the new cycles", case)
            # on read
            cs = settings.Settings()
            cs["cycles"] = copy.deepcopy(valid_prev)
            text = yaml_text({"cycles": plain(raw)})
            doc = parse_doc(text)
            okD, vD = schema_of(setting, doc["cycles"])
            try:
                cs.loadFromString(text, handleInvalids=False)
                str_ = "ok"
            except Exception:
                str_ = "reject"
            m.send("clr", "ok")
            m.send(f"sch cycles {I(valid_prev)} {I(schema_of(setting, valid_prev)[1])}", "ok")
            m.send(f"set cycles {I(valid_prev)}", "ok")
            m.send(f"sch cycles {I(doc['cycles'])} {I(vD) if okD else 'x'}", "ok")
            m.send(f"read [cycles={I(doc['cycles'])}]", f"{str_} inv=[]", case)
            m.send("off", off_list(cs, I), case)
            if (str_ == "ok") != expect_valid:
                ctx.fail("cycles-read-verdict", "invalid cycle entries are rejected with an error when read, valid ones accepted", case, observed=str_)
            if str_ == "reject" and state_map(cs) != prev:
                ctx.fail("read-invalid-changes-value", "a refused value leaves the previous value in place", case)
            ctx.count(f"cycle entries ({'valid' if expect_valid else 'invalid'}: {groups} input group(s))")
            ctx.case(("cycles", tuple(sorted(e)), repr(raw)), nontrivial=True)
    m.flush("Settings model vs the cycles setting (assignment, modified, read)")


def run_verbosity_points(ctx, ref):
    """Excluded points of the model's domain: values the verbosity settings' schemas accept (Coerce(str) /
    Coerce(dict)) but Settings.initLogVerbosity, which every load runs last, cannot digest. Judged by the
    implementation-side oracle alone."""
    from armi import settings
    rng = ctx.rng
    for name in ("verbosity", "moduleVerbosity"):
        for raw in candidates(name, ref[name], rng, 4, unloggable=True):
            ok, v = schema_of(ref[name], raw)
            if not ok:
                continue
            cs = settings.Settings()
            case = {"setting": name, "raw": repr(raw)[:100], "stored": repr(v)[:100]}
            try:
                cs[name] = copy.deepcopy(raw)
            except Exception:
                continue   # refused at assignment: what the property asks for
            buf = io.StringIO()
            cs.writeToYamlStream(buf, style="short")
            cs2 = settings.Settings()
            try:
                cs2.loadFromString(buf.getvalue(), handleInvalids=False)
                if canon(dict(cs2.items())[name].value) != canon(v):
                    ctx.fail(f"roundtrip-value-differs:short:{name}", "every setting has an equal value after write/read", case)
            except Exception as e:
                ctx.fail(f"roundtrip-read-raises:{name}", "a value accepted on assignment can be written and read back",
                         case, observed=f"{type(e).__name__}: {e}"[:200])
            ctx.count("excluded points: unloggable verbosity values")
            ctx.case(("verbosity-point", name, repr(raw)))


def run_objects(ctx, ref):
    """Object-valued settings (cross-section control): copies must not share the XSSettings container, its
    XSModelingOptions entries or their list attributes with the original; a container with a schema-violating
    entry is refused on assignment and leaves the previous value."""
    from armi import settings
    rng = ctx.rng
    name = "crossSectionControl"
    goods = [r for r in special_candidates(name, ref[name], rng) if schema_of(ref[name], r)[0] and r]
    bads = [r for r in special_candidates(name, ref[name], rng) if not schema_of(ref[name], r)[0]]
    for t in range(ctx.pick(20, 200)):
        cs = settings.Settings()
        raw = copy.deepcopy(rng.choice(goods))
        cs[name] = raw
        before = canon(dict(cs.items())[name].value)
        orig = dict(cs.items())[name].value
        case = {"value": repr(raw)[:300]}
        how = rng.choice(["modified", "assign", "duplicate"])
        if how == "modified":
            cp = cs.modified(newSettings={name: cs[name], "nCycles": 3})
        elif how == "assign":
            cp = settings.Settings()
            cp[name] = cs[name]
        else:
            cp = cs.duplicate()
        other = dict(cp.items())[name].value
        if canon(other) != before:
            ctx.fail("object-copy-differs", "a copy of an object-valued setting holds an equal value", {**case, "how": how})
        if other is orig:
            ctx.fail("object-copy-shares-container", "copies do not share the settings container object", {**case, "how": how})
        for k, opt in orig.items():
            o2 = other.get(k) if hasattr(other, "get") else None
            if o2 is opt:
                ctx.fail("object-copy-shares-entry", "copies do not share XSModelingOptions objects", {**case, "how": how, "xsID": k})
            elif o2 is not None:
                for attr, val in dict(iter(opt)).items():
                    if isinstance(val, list) and getattr(o2, attr) is val:
                        ctx.fail("object-copy-shares-list", "copies do not share list attributes", {**case, "how": how, "attr": attr})
        # mutate the copy the way the XS group manager does at BOL, plus attribute edits
        try:
            other.setDefaults(rng.choice(["Average", "Median"]), rng.choice([["fuel"], None, False]))
        except Exception:
            pass
        for k, opt in list(other.items()):
            opt.criticalBuckling = not bool(opt.criticalBuckling)
            if isinstance(opt.validBlockTypes, list):
                opt.validBlockTypes.append("mutated")
            opt.xsPriority = 99.0
        if canon(dict(cs.items())[name].value) != before:
            ctx.fail("object-copy-mutation-reaches-original", "modified copies do not affect the original",
                     {**case, "how": how}, observed=repr(dict(iter(list(orig.values())[0])))[:200])
        # invalid container refused, previous value kept
        badv = copy.deepcopy(rng.choice(bads))
        prev = canon(dict(cs.items())[name].value)
        try:
            cs[name] = badv
            ctx.fail("assign-accepts-schema-invalid-value", "values violating the schema are rejected when assigned",
                     {"setting": name, "raw": repr(badv)[:200]})
        except Exception:
            if canon(dict(cs.items())[name].value) != prev:
                ctx.fail("assign-invalid-changes-state", "a refused value leaves the previous value in place",
                         {"setting": name, "raw": repr(badv)[:200]})
        ctx.count(f"object-valued copies ({how})")
        ctx.case(("objects", how, repr(raw)), sample=None)


# --------------------------------------------------------------------------- flag-list settings (not in the built-in registry)
def run_flaglist(ctx):
    from armi.reactor.flags import Flags
    from armi.settings.setting import FlagListSetting
    rng = ctx.rng
    allf = [Flags.fromString(n) for n in ("FUEL", "CONTROL", "SHIELD", "DUCT", "GRID_PLATE", "PRIMARY", "SECONDARY",
                                            "DEPLETABLE", "CLAD", "COOLANT", "REFLECTOR", "PLENUM", "BOND", "INNER", "OUTER")]
    for t in range(ctx.pick(40, 400)):
        default = [rng.choice(allf) for _ in range(rng.randint(0, 2))]
        s = FlagListSetting("flagsX", default=default, description="generated")
        kind = rng.random()
        if kind < 0.6:
            val = []
            for _ in range(rng.randint(0, 4)):
                f = rng.choice(allf)
                if rng.random() < 0.4:
                    f = f | rng.choice(allf)
                val.append(rng.choice([f, Flags.toString(f), Flags.toString(f).lower()]))
        else:
            val = rng.choice(["FUEL", [3], None, ["fuel", 2.5], [["FUEL"]]])
        case = {"default": [Flags.toString(f) for f in default], "value": repr(val)[:100]}
        prev = list(s.value)
        try:
            s.setValue(copy.deepcopy(val))
            ok = True
        except Exception:
            ok = False
        if not ok:
            if canon(s.value) != canon(prev):
                ctx.fail("flaglist-invalid-changes-value", "a refused value leaves the previous value in place", case)
            ctx.count("flag-list values refused")
        else:
            d = yaml_roundtrip(s.dump())
            s2 = FlagListSetting("flagsX", default=default, description="generated")
            try:
                s2.setValue(d)
                if canon(s2.value) != canon(s.value):
                    ctx.fail("flaglist-roundtrip", "flag lists survive dump -> YAML -> load", case,
                             observed=[Flags.toString(f) for f in s2.value], expected=[Flags.toString(f) for f in s.value])
            except Exception as e:
                ctx.fail("flaglist-roundtrip", "flag lists survive dump -> YAML -> load", case, observed=f"{type(e).__name__}: {e}"[:200])
            ctx.count("flag-list round trips")
        ctx.case(("flaglist", repr(case)))


# --------------------------------------------------------------------------- entry points
@contextlib.contextmanager
def mute():
    """armi's log handlers write to the process-level stdout/stderr (and every settings read resets the
    verbosity), so silence at the file-descriptor level while the real code runs."""
    sys.__stdout__.flush()
    sys.__stderr__.flush()
    keep1, keep2 = os.dup(1), os.dup(2)
    null = os.open(os.devnull, os.O_WRONLY)
    try:
        os.dup2(null, 1)
        os.dup2(null, 2)
        with common.quiet():
            yield
    finally:
        sys.__stdout__.flush()
        sys.__stderr__.flush()
        os.dup2(keep1, 1)
        os.dup2(keep2, 2)
        for fd in (keep1, keep2, null):
            os.close(fd)


def limit_failures(ctx, per_key=3):
    """Ctx keeps the first 200 failures only: keep a few per key so that no key is crowded out by another."""
    orig, counts = ctx.fail, {}

    def fail(key, *a, **k):
        counts[key] = counts.get(key, 0) + 1
        if counts[key] <= per_key:
            orig(key, *a, **k)
    ctx.fail = fail


def registry_provenance(ctx):
    """Where every setting of the registry comes from: framework (fwSettings) or a built-in plugin's defineSettings
    hook; the registry under test must contain all of them (and nothing else)."""
    from armi import getApp, settings
    from armi.settings import fwSettings
    from armi.settings.setting import Setting
    app = getApp()
    prov = {"framework (armi.settings.fwSettings)": sorted(s.name for s in fwSettings.getFrameworkSettings())}
    for plugin in app.pluginManager.get_plugins():
        hook = getattr(plugin, "defineSettings", None)
        if hook is None:
            continue
        try:
            defs = hook() or []
        except Exception:
            continue
        names = sorted(d.name for d in defs if isinstance(d, Setting))
        if names:
            prov[getattr(plugin, "__name__", type(plugin).__name__)] = names
    declared = {n for names in prov.values() for n in names}
    registry = {n for n, _ in settings.Settings().items()}
    # rename chains: can an old name be reached in two steps (old -> mid -> new)?  Only if some rename target or some
    # declared old name is itself declared as an old name by another setting / is a current name.
    reg = dict(settings.Settings().items())
    decl = [(n, old, exp) for n, s_ in reg.items() for old, exp in s_.oldNames]
    oldnames = [old for _, old, _ in decl]
    chain = {
        "declared_old_names": len(decl),
        "old_names_that_are_current_names": sorted(set(oldnames) & set(reg)),
        "old_names_declared_twice": sorted({o for o in oldnames if oldnames.count(o) > 1}),
        "targets_that_are_not_current": sorted({n for n, _, _ in decl} - set(reg)),
        "two_step_chains": sorted((old, mid, new) for new, mid, _ in decl for mid2, old, _ in decl if mid2 == mid and mid not in reg),
        "expiring": sorted((old, str(exp)) for _, old, exp in decl if exp is not None),
    }
    chain["fact"] = ("every rename target is a current setting and no old name is a current name or declared twice: a chain "
                     "old -> mid -> new cannot occur in this registry, so the single-step renamer is complete here "
                     "(theorem rename_single_step_complete)")
    ctx.extra["rename_chains"] = chain
    if chain["old_names_that_are_current_names"] or chain["old_names_declared_twice"] or chain["targets_that_are_not_current"] \
            or chain["two_step_chains"]:
        ctx.fail("rename-chain-in-registry", "renamed settings are accepted under their old names and land on the new ones "
                 "(single-step renaming is complete only without chains)", chain)
    ctx.extra["registry_provenance"] = {k: {"count": len(v), "settings": v} for k, v in prov.items()}
    ctx.extra["registry_total"] = len(registry)
    ctx.extra["registry_from_plugins"] = len(declared) - len(prov["framework (armi.settings.fwSettings)"])
    if declared != registry:
        ctx.fail("registry-incomplete", "every setting defined by the framework and its built-in plugins is in the Settings registry",
                 {"missing": sorted(declared - registry)[:10], "extra": sorted(registry - declared)[:10]})
    return declared, registry


def hypothesis_evidence(ctx, registry):
    """The per-value hypothesis of read_write_id, as measured on the real schema/dump pair."""
    by_setting = {}
    for (n, kind), (held, bad) in sorted(HYP.items()):
        by_setting.setdefault(n, {})[kind] = {"held": held, "violated": bad}
    ctx.extra["hypothesis_schema_dump_roundtrip"] = {
        "statement": "schema n (dump n v) = some v  (Setting.dump -> ruamel dump/load -> the setting's schema), per stored value v",
        "pairs_setting_x_kind": len(HYP),
        "values_held": sum(h for h, _ in HYP.values()),
        "values_violated": sum(b for _, b in HYP.values()),
        "settings_covered": len(by_setting),
        "settings_not_covered": sorted(set(registry) - set(by_setting) - {"versions"}),
        "violations": HYP_BAD,
        "by_setting": by_setting,
    }


def run(ctx):
    limit_failures(ctx)
    HYP.clear()
    del HYP_BAD[:]
    ctx.rule = ("registry: one case per (setting, generated raw value, styles, user-file names) and per random subset of "
                "settings changed together; reader: per document (old names, unknown names, invalid values, prior state); "
                "renamer: per generated registry with expiry dates; modified: per (prior state, newSettings, assignment history); "
                "copies: per history (assign / load / revert / changeDefault / copy route incl. empty modification sets), written and read back; "
                "boundaries: per (setting, near-miss raw value); options: per (setting, current option list, candidate) after every "
                "run-time addition, and per (plugin stage, setting, candidate, route); "
                "distinct = distinct (setting, interned value, styles, user list) tuples; non-trivial = at least one accepted "
                "assignment or an all-default state")
    with mute():
        declared, registry = registry_provenance(ctx)
        cs0, ref = run_registry(ctx)
        hypothesis_evidence(ctx, registry)
        run_reader(ctx, cs0, ref)
        run_modified(ctx, cs0, ref)
        run_options(ctx, cs0, ref)
        run_copies(ctx, cs0, ref)
        run_boundaries(ctx, cs0, ref)
        run_objects(ctx, ref)
        run_cycles(ctx, cs0, ref)
        run_flaglist(ctx)
        run_verbosity_points(ctx, ref)


def search(ctx, disagreements, broken):
    """Disagreements come with the full scenario; re-run the registry oracle around the disagreeing settings."""
    found = []
    from armi import settings
    names = set()
    for d in disagreements[:20]:
        c = d.case.get("case") or {}
        for key in ("assigns", "prior", "document"):
            for item in (c.get(key) or []):
                if isinstance(item, (list, tuple)) and item:
                    names.add(item[0])
        if c.get("setting"):
            names.add(c["setting"])
    sub = common.Ctx(ctx.prop, ctx.tier, ctx.seed + 1000)
    limit_failures(sub)
    cs0 = settings.Settings()
    ref = dict(settings.Settings().items())
    base_defaults = state_map(cs0)
    allnames = [n for n, _ in cs0.items()]
    m = Model(sub)
    define_registry(m, cs0)
    m.send("base", "ok")
    with mute(), common.scratch_dir("c17s-") as scratch:
        for n in [x for x in names if x in ref] + sub.rng.sample(allnames, 20):
            for i, raw in enumerate(candidates(n, ref[n], sub.rng, 12)):
                roundtrip_case(sub, m, ref, base_defaults, [(n, raw)], ("short", "medium", "full"),
                               sub.rng.sample(allnames, 4), f"search:{n}#{i}", via_file=(i % 2 == 0 and n != "userPlugins"),
                               scratch=scratch)
        run_modified(sub, cs0, ref)
        reqs = [str((d.case if isinstance(d.case, dict) else {}).get("request", "")) for d in disagreements]
        if any(r.startswith("optsch") for r in reqs):
            run_options(sub, cs0, ref)
        if any(r.startswith(("numsch", "numlist")) for r in reqs):
            run_boundaries(sub, cs0, ref)
        if any(r.startswith(("dup", "swap", "modified", "revert", "chdef", "isdef", "names")) for r in reqs):
            run_copies(sub, cs0, ref)
    for f in sub.failures:
        found.append(Failure(f.key, f.clause, f.case, f.observed, f.expected, "found by the directed search"))
    return found


def replay_script(ctx, payload, case):
    """Re-run a recorded history (assign / load / revert / changeDefault / copies) and evaluate the copy oracles after every copy."""
    import pickle
    from armi import settings
    from armi.settings.setting import Default
    lit = lambda r: eval(r, {"__builtins__": {}}, {"inf": float("inf"), "nan": float("nan")})  # noqa: S307 - literals written by this harness
    sub = common.Ctx(ctx.prop, ctx.tier, ctx.seed)
    with mute(), common.scratch_dir("c17r-"):
        ref = dict(settings.Settings().items())
        obj = settings.Settings()
        who = "original"
        for op in case["script"]:
            try:
                if op[0] == "set":
                    obj[op[1]] = lit(op[2])
                elif op[0] == "load":
                    obj.loadFromString(yaml_text({k: lit(v) for k, v in op[1].items()}), handleInvalids=False)
                elif op[0] == "revert":
                    dict(obj.items())[op[1]].revertToDefault()
                elif op[0] == "revertall":
                    obj.revertToDefaults()
                elif op[0] == "chdef":
                    dict(obj.items())[op[1]].changeDefault(Default(lit(op[2]), op[1]))
                elif op[0] == "copy":
                    how = op[1]
                    before = state_map(obj)
                    def mk(o):
                        return o.modified(newSettings={k: lit(v) for k, v in op[2].items()}) if how == "modified" else \
                            o.modified(newSettings={}) if how == "modified-empty" else o.modified() if how == "modified-none" else \
                            o.modified(caseTitle="replayTitle") if how == "modified-title" else o.duplicate() if how == "duplicate" \
                            else copy.deepcopy(o) if how == "deepcopy" else pickle.loads(pickle.dumps(o))
                    obj2 = mk(obj)
                    if obj2 is obj:
                        sub.fail(f"copy-is-same-object:{how}", "modified copies (also with an empty modification set) are new objects", {"how": how})
                        o3 = settings.Settings()
                        probe = mk(o3)
                        probe["nCycles"] = 7
                        if o3["nCycles"] == 7:
                            sub.fail(f"copy-mutation-reaches-other-object:{how}", "modified copies do not affect the original", {"how": how})
                    if state_map(obj) != before:
                        sub.fail("modified-affects-original", "modified copies do not affect the original", {"how": how})
                    lost = [k for k in before if k not in op[2] and state_map(obj2).get(k) != before[k]]
                    if lost:
                        sub.fail(f"copy-loses-value:{how}", "a copy holds the values of its original", {"how": how}, observed=lost[:5])
                    obj, who = obj2, f"copy:{how}"
                    at_default_check(sub, obj, {}, who)
                    changed = {n for n, s_ in obj.items() if canon(s_.default) != canon(ref[n].default)} if all(n in ref for n, _ in obj.items()) else set()
                    write_read_object(sub, None, ref, obj, ("short", "medium", "full"), [], {"object": who}, exempt=changed)
            except Exception as e:
                sub.fail("replay-step-raises", "the recorded history runs", {"op": op}, observed=f"{type(e).__name__}: {e}"[:200])
    known = {f["key"] for f in common.load_findings()["finding"] if f["property"] == ctx.prop}
    return [{"key": f.key, "case": f.case, "observed": f.observed, "expected": f.expected} for f in sub.failures if f.key not in known][:5]


def replay_options(ctx, payload, case):
    """Re-run one entry of the option tables: rebuild the setting as defined, add the recorded options, try the value."""
    from armi import getPluginManagerOrFail, plugins, settings
    from armi.settings import setting as S
    lit = lambda r: eval(r, {"__builtins__": {}}, {})  # noqa: S307 - literals written by this harness
    raw = lit(case["raw"])
    res = []
    with mute():
        if "options now" in case:
            st = S.Setting(case["setting"], default=lit(case["default"]), description="replay", options=[lit(o) for o in case["defined with"]],
                           enforcedOptions=case["enforced"])
            for add in case["additions"]:
                st.addOptions([S.Option(lit(o), case["setting"]) for o in add])
            cur = list(st.options)
            try:
                st.setValue(raw)
                acc = True
            except Exception:
                acc = False
            if case["enforced"] and cur and acc != (raw in cur):
                res.append({"options": cur, "raw": raw, "observed": "accepted" if acc else "rejected"})
        elif case.get("setting") == "neutronicsKernel":
            opts = list(case["options"])

            class C17ReplayPlugin(plugins.ArmiPlugin):
                @staticmethod
                @plugins.HOOKIMPL
                def defineSettings():
                    return [S.Option(o, "neutronicsKernel") for o in opts]
            pm = getPluginManagerOrFail()
            pm.register(C17ReplayPlugin)
            try:
                cs = settings.Settings()
                cs["neutronicsKernel"] = case["previous"]
                try:
                    if case.get("route") == "read":
                        cs.loadFromString(yaml_text({"neutronicsKernel": raw}), handleInvalids=False)
                    elif case.get("route") == "modified":
                        cs.modified(newSettings={"neutronicsKernel": raw})
                    else:
                        cs["neutronicsKernel"] = raw
                    acc = True
                except Exception:
                    acc = False
                if acc != (raw in opts):
                    res.append({"options": opts, "raw": raw, "route": case.get("route"), "observed": "accepted" if acc else "rejected"})
            finally:
                pm.unregister(C17ReplayPlugin)
    return res


def replay(ctx, payload):
    """Re-evaluate a recorded failing input on the real code."""
    from armi import settings
    case = payload.get("case") or {}
    res = []
    if case.get("script"):
        return replay_script(ctx, payload, case)
    if "options now" in case or str(payload.get("key", "")).startswith(("option-outside-list-accepted:", "legal-option-rejected:")):
        return replay_options(ctx, payload, case)
    with mute(), common.scratch_dir("c17r-"):
        cs = settings.Settings()
        assigns = case.get("assigns") or ([(case["setting"], case["raw"])] if "raw" in case and "setting" in case else [])
        for n, r in assigns:
            try:
                raw = eval(r, {"__builtins__": {}}, {})  # noqa: S307 - literals written by this harness
            except Exception:
                continue
            try:
                cs[n] = raw
            except Exception:
                pass
        style = case.get("style", "short")
        buf = io.StringIO()
        try:
            cs.writeToYamlStream(buf, style=style, settingsSetByUser=list(case.get("user", [])))
            cs2 = settings.Settings()
            cs2.loadFromString(buf.getvalue(), handleInvalids=False)
            for (n, s) in cs.items():
                if n != "versions" and canon(dict(cs2.items())[n].value) != canon(s.value):
                    res.append({"setting": n, "written": repr(s.value)[:100], "read": repr(dict(cs2.items())[n].value)[:100]})
        except Exception as e:
            res.append({"error": f"{type(e).__name__}: {e}"[:300]})
    return res
